#!/bin/sh
# Builds the conformance harness (stable, nightly, nightly+simd and optimised nightly configurations) and the mlock shim, offline.
set -e
cd "$(dirname "$0")/../harness"
export CARGO_NET_OFFLINE=true
cargo build --offline --target-dir target/stable
cargo +nightly build --offline --target-dir target/nightly --features nightly
cargo +nightly build --offline --target-dir target/simd --features nightly,simd
# the optimised profile (debug assertions and overflow checks off): every check replays the core of its sweep with it
cargo +nightly build --offline --release --target-dir target/nightly-release --features nightly
if [ -f shim/mlockfail.c ]; then gcc -shared -fPIC -O2 -o shim/libmlockfail.so shim/mlockfail.c -ldl; fi
echo setup done
