"""C11: every randomised entry point draws fresh randomness: recorded call histories validated against Rng.tla."""
import json, os, math
from common import *


def run(tier):
    ck = Check("C11", tier, "exploration")
    thorough = tier == "thorough"
    wd = workdir("c11")
    n0, n1, n2 = (1500, 200, 12) if thorough else (300, 40, 10)
    total_ev = 0
    nentries = 0
    for cfg in ["stable", "nightly", RELEASE]:
        # the optimised build has the entry points of the nightly build (same features, other profile)
        speccfg = "nightly" if cfg == RELEASE else cfg
        names = [l for l in conform(cfg, ["rng-list"]).splitlines() if l.strip()]
        cfgfile = open(os.path.join(SPEC, "Rng_%s.cfg" % speccfg)).read()
        missing = [n for n in names if '"%s"' % n not in cfgfile]
        extra = [m for m in __import__("re").findall(r'"([^"]+)"', cfgfile.split("EntryPoints")[1].split("}")[0]) if m not in names]
        if missing or extra:
            raise ToolError("entry-point list of Rng_%s.cfg and the harness differ: missing in spec %s, missing in harness %s" % (speccfg, missing, extra))
        tr = os.path.join(wd, "trace_%s.ndjson" % cfg)
        env = None
        if cfg != "stable":
            # the generators of locked containers are also exercised while every lock request is refused (interposer)
            import protcommon
            protcommon.build_shim()
            env = {"LD_PRELOAD": protcommon.SHIM}
        conform(cfg, ["rng-trace", tr, n0 if cfg == "stable" else max(100, n0 // 3), n1, n2], timeout=3000, env=env)
        evs = [json.loads(l) for l in open(tr)]
        total_ev += len(evs)
        for e in evs:
            if e["ev"] == "panic" and not e["e"].endswith("refused]"):
                ck.fail("%s: panicked" % e["e"], {"panic": e.get("panic")})
        t = run_tlc("Rng", "Rng_%s" % speccfg, workers=1, env={"TRACE": tr}, deque=True, xss="1g", coverage=False, timeout=3000, name="Rng" + cfg)
        ck.add_tlc(t, "Rng.tla trace validation (%s)" % cfg)
        rej = trace_rejection(t)
        if rej:
            # which rule did the rejected event break?
            why = "not a behaviour of Rng.tla"
            if rej.get("event"):
                ev = evs[rej["event"] - 1]
                prev = [x["v"] for x in evs[:rej["event"] - 1] if x["e"] == ev["e"] and x["ev"] == "draw"]
                if ev["ev"] == "draw":
                    v = ev["v"]
                    dependent = "Kdf::gen" in ev["e"] and len(v) >= 16 and any(v[i:i + 8] == v[-8:] for i in range(len(v) - 15))
                    why = "returns an all-zero value" if all(b == 0 for b in v) else ("repeats a value" if v in prev else ("the two values returned by one call are not independent (the context is a copy of part of the key)" if dependent else why))
                else:
                    const = [i for i in range(len(prev[0]))] if prev else []
                    const = [i for i in const if all(p[i] == prev[0][i] for p in prev)]
                    why = "byte positions %s never change" % const[:8] if const else ("fewer calls than required" if len(prev) < 10 else why)
                ck.fail("%s: %s" % (ev["e"], why), dict(rej, trace=tr, calls=len(prev)))
            else:
                ck.fail("randomised entry point missing from the recording or trace rejected", dict(rej, trace=tr))
        else:
            def _corrupt_rng(evs):
                last = {}
                for e in evs:
                    if e.get("ev") == "draw":
                        if e["e"] in last:
                            e["v"] = list(last[e["e"]])
                            return "one call returns the value of the previous call of the same entry point"
                        last[e["e"]] = e["v"]
                return None
            binding_selftest(ck, "Rng", "Rng_%s" % speccfg, tr, _corrupt_rng, "rng trace " + cfg, timeout=3000)
        nentries = max(nentries, len(names))
    ck.cov["evaluations"] = total_ev
    if not ck.cov["distinct_nontrivial"]:
        ck.cov["distinct_nontrivial"] = nentries
    ck.cov["traces_validated_against_impl"] = 2
    ck.cov["entry_points"] = nentries
    # false-alarm bound: a repeat among n values of >= 16 random bytes, or a constant byte position among n values
    fa = nentries * ((n0 ** 2) / 2.0 * 2.0 ** -128 + 64 * 256.0 ** -(min(n1, n2) - 1))
    ck.cov["false_alarm_probability_bound"] = "2^%.0f" % math.log2(fa) if fa > 0 else "0"
    ck.cov["rule"] = ("%d randomised entry points (the complete list of Rng.tla; nightly adds heap/locked generators): %d calls each (%d for password hashing at minimum cost, %d for the fixed expensive defaults); "
                      "the recorded values must be a behaviour of Rng.tla: each value new, not all-zero, and at Done no byte position constant; an entry point absent from the recording violates AllCovered" % (nentries, n0, n1, n2))
    ck.assumptions += ["a statistical observation of a history, not a proof of entropy; a fresh but biased generator is outside the property as stated"]
    ck.cov["samples"] = [{"entry": "crypto_box_keypair", "value_bytes": 64, "calls": n0}, {"entry": "crypto_pwhash_str salt", "value_bytes": 16, "calls": n1}]
    return ck.finish()


def replay(path):
    print(open(path).read()[:2000])
    return run("quick")
