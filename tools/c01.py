"""C01: every encrypt entry point = libsodium bytes; every wire-compatible (encrypt, open) pair round-trips,
with libsodium on either side."""
from aeadcommon import *


def run(tier):
    ck = Check("C01", tier, "exploration")
    thorough = tier == "thorough"
    cf, cases = model(ck)
    lmax, big = (1000, 1) if thorough else (160, 1)
    nproc = min(14, NCPU)
    wd = workdir("aead")
    for cfg in ["stable", "nightly", RELEASE]:
        for s in range(5 if thorough and cfg != RELEASE else 1):
            reps = parallel(cfg, lambda o, k, n: ["aead-roundtrip", cf, o, ck.seed + s, lmax, big, k, n], nproc, os.path.join(wd, "rt_" + cfg))
            route(ck, reps, "" if cfg == "stable" else "[%s] " % cfg, [""])
    # operands crafted so that the Poly1305 run over the ciphertext passes through rare accumulator states
    import polycraft, json
    vecs = polycraft.vectors(6 if thorough else 2)
    vf = os.path.join(wd, "polycraft.json")
    json.dump(vecs, open(vf, "w"))
    for cfg in ["stable", "nightly"]:
        o = os.path.join(wd, "polycraft_%s.json" % cfg)
        conform(cfg, ["aead-vectors", vf, o])
        route(ck, [json.load(open(o))], "" if cfg == "stable" else "[nightly] ", [""])
    ck.cov["crafted_poly1305_corner_boxes"] = len(vecs)
    triples = len(set((c["cons"], c["enc"], c["open"]) for c in cases if c["fault"] == "none"))
    if not ck.cov["distinct_nontrivial"]:
        ck.cov["distinct_nontrivial"] = triples * (lmax + 1 + 3)
    ck.cov["spec_triples"] = triples
    ck.cov["rule"] = ("TLC enumerates the (construction, encrypt variant, open variant) triples of Aead.tla and proves VariantAgreement/RoundTrip on symbolic buffers; "
                      "the harness runs, for every triple and EVERY message length 0..%d plus 1024, 4096, 65537, every concrete implementation of the encrypt variant "
                      "(dryoc classic / object API with stack, array, Vec and - nightly - heap containers / libsodium) against libsodium's bytes and every implementation of the open variant; "
                      "distinct = (triple, length); plus boxes crafted (tools/polycraft.py) so that the Poly1305 accumulator over the ciphertext reaches 0..5, p-6..p-1 and the limb boundaries of the 44/44/42 and 5x26 layouts" % lmax)
    ck.assumptions += ["keys, nonces and messages are seeded pseudo-random per (triple, length), with the extreme values mixed in; arithmetic corners of the MAC are reached by the crafted boxes",
                       "sealed boxes: equality is through opening (libsodium's crypto_box_seal_open, and open_easy on c[32..] with nonce BLAKE2b(epk||rpk))"]
    return ck.finish()


def replay(path):
    print(open(path).read()[:3000])
    print("re-run: checks/run C01 quick (cases are regenerated deterministically from the seed)")
    return run("quick")
