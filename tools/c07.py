"""C07: hash, MAC and core primitives equal their specifications: executable TLA+ transcriptions of the RFCs
(spec/ref, evaluated by TLC) and libsodium as two independent references."""
import json, os, re
from common import *
import refeval
from aeadcommon import parallel


def det(n, tag):
    """deterministic test bytes"""
    import hashlib
    out = b""
    i = 0
    while len(out) < n:
        out += hashlib.sha256(("%s/%d" % (tag, i)).encode()).digest()
        i += 1
    return list(out[:n])


def boundary(block, upto):
    s = {0, 1, 2, upto}
    k = 1
    while k * block <= upto + block:
        for d in (-1, 0, 1):
            v = k * block + d
            if 0 <= v <= upto:
                s.add(v)
        k += 1 if k < 4 else 3
    return sorted(s)


def corner_vectors():
    """Poly1305 messages from the corner search of MCRefPoly1305Corners.tla (accumulators at 0..5, p-6..p-1,
    final subtraction, refold, carries), each with s = 2^128-1."""
    r = run_tlc("MCRefPoly1305Corners", workers=8, coverage=False, timeout=900, xss="1g", cwd=refeval.REF, name="corners")
    if not r["ok"]:
        raise ToolError("corner search failed: %s\n%s" % (r["violated"], r["out"][-1500:]))
    rk = {"r1": [1] + [0] * 15, "r2": [2] + [0] * 15, "rmax": [255, 255, 255, 15, 252, 255, 255, 15, 252, 255, 255, 15, 252, 255, 255, 15]}
    jobs = []
    classes = {}
    for m in re.finditer(r'CORNER (\w+) (\S+) (\S+) ([0-9a-f]*)"', r["out"]):
        rn, path, cls, hx = m.groups()
        msg = list(bytes.fromhex(hx))
        jobs.append({"fn": "poly1305", "key": rk[rn] + [255] * 16, "msg": msg, "tag": "corner %s %s %s" % (rn, path, cls)})
        for c in cls.split(","):
            classes[c] = classes.get(c, 0) + 1
    return r, jobs, classes


def jobs_for(tier):
    thorough = tier == "thorough"
    J = []
    up = 1100
    lens128 = list(range(0, up + 1))
    for n in lens128:
        J.append({"fn": "blake2b", "msg": det(n, "b2"), "key": [], "outlen": 32, "salt": [], "personal": []})
    for (ol, kl) in [(16, 0), (64, 0), (16, 16), (64, 64), (17, 33), (32, 32), (31, 17), (48, 64)]:
        for n in ([0, 1, 127, 128, 129, 255, 256, 257, 1100] if not thorough else boundary(128, up)):
            J.append({"fn": "blake2b", "msg": det(n, "b2k"), "key": det(kl, "key"), "outlen": ol, "salt": [], "personal": []})
    for n in range(0, up + 1):
        J.append({"fn": "sha512", "msg": det(n, "sha")})
    for n in boundary(128, up if thorough else 400):
        J.append({"fn": "hmacsha512256", "key": det(32, "hk"), "msg": det(n, "hm")})
    for n in range(0, up + 1):
        J.append({"fn": "siphash24", "key": det(16, "sk"), "msg": det(n, "sip")})
    for n in range(0, up + 1):
        J.append({"fn": "poly1305", "key": det(32, "pk"), "msg": det(n, "poly")})
        J.append({"fn": "poly1305", "key": [255, 255, 255, 15, 252, 255, 255, 15, 252, 255, 255, 15, 252, 255, 255, 15] + [255] * 16, "msg": [255] * n})
    for i in range(40 if thorough else 12):
        c = det(16, "c%d" % i) if i % 3 == 0 else []
        J.append({"fn": "hsalsa20", "key": det(32, "hsk%d" % i) if i else [255] * 32, "input": det(16, "hsi%d" % i) if i else [255] * 16, "const": c})
        J.append({"fn": "hchacha20", "key": det(32, "hck%d" % i) if i else [255] * 32, "input": det(16, "hci%d" % i) if i else [255] * 16, "const": c})
    # supplied constants that are all zero, all 0xff, or zero in one word (absent constants mean sigma; zero constants do not)
    for ci, c in enumerate([[0] * 16, [255] * 16, [0] * 4 + det(12, "cz1"), det(12, "cz2") + [0] * 4, list(b"expand 16-byte k")]):
        J.append({"fn": "hsalsa20", "key": det(32, "hskz%d" % ci), "input": det(16, "hsiz%d" % ci), "const": c})
        J.append({"fn": "hchacha20", "key": det(32, "hckz%d" % ci), "input": det(16, "hciz%d" % ci), "const": c})
    for n in range(0, 20):
        J.append({"fn": "increment", "msg": [255] * n})
        J.append({"fn": "increment", "msg": det(n, "inc")})
    # word-structured operands (carries that die and start again): arrangements of zero / 0xff / 0xff..fe words, 24 and 32 bytes
    words = {"z": [0] * 8, "f": [255] * 8, "e": [255] * 7 + [254], "o": [1] + [0] * 7}
    for combo in ["zfz", "fzf", "ffz", "zff", "efz", "fef", "ofz", "zfzf", "ffff", "fffe", "ofof"]:
        J.append({"fn": "increment", "msg": sum((words[c] for c in combo), [])})
        J.append({"fn": "increment", "msg": sum((words[c] for c in combo), []) + [255] * 3})
    for n in [0, 1, 15, 16, 17, 31, 32, 33, 63, 64, 65, 131] + ([255, 256, 257] if thorough else []):
        J.append({"fn": "secretbox", "key": det(32, "sbk"), "nonce": det(24, "sbn"), "msg": det(n, "sbm")})
    return J


def run(tier):
    ck = Check("C07", tier, "exploration")
    thorough = tier == "thorough"
    cr, cjobs, classes = corner_vectors()
    ck.add_tlc(cr, "Poly1305 corner search")
    need = ["h_small", "h_near_p", "final_sub", "refold", "sum_ge_2_130", "hs_carry", "hs_nocarry", "h_ge_2_128"]
    missing = [c for c in need if not classes.get(c)]
    if missing:
        raise ToolError("corner search reached no state of class %s (vacuous)" % missing)
    jobs = jobs_for(tier) + cjobs
    outs, st = refeval.evaluate(jobs, recompute=400 if thorough else 40)
    ck.cov["reference_evaluation"] = st
    ck.cov["poly1305_corner_classes"] = classes
    wd = workdir("c07")
    vf = os.path.join(wd, "vectors.ndjson")
    with open(vf, "w") as f:
        for j, o in zip(jobs, outs):
            f.write(json.dumps(dict(j, out=o)) + "\n")
    for cfg in ["stable", "nightly", RELEASE] + (["simd"] if thorough else []):
        o = os.path.join(wd, "vec_%s.json" % cfg)
        conform(cfg, ["prims-vectors", vf, o])
        _merge(ck, json.load(open(o)), "" if cfg == "stable" else "[%s] " % cfg)
    nproc = min(12, NCPU)
    for s in range(300 if thorough else 1):
        reps = parallel("stable", lambda o, k, n: ["prims-sweep-c07", o, ck.seed + s, 1100, k, n], nproc, os.path.join(wd, "sweep"))
        for rep in reps:
            _merge(ck, rep, "")
    # every other build configuration sweeps every length too (thorough: nightly and the SIMD backend with their own seeds)
    for cfg in [RELEASE] + (["nightly", "simd"] if thorough else []):
        for s in range(25 if thorough else 1):
            reps = parallel(cfg, lambda o, k, n: ["prims-sweep-c07", o, ck.seed + 5000 * (s > 0) + s, 1100, k, n], nproc, os.path.join(wd, "sweep_" + cfg))
            for rep in reps:
                _merge(ck, rep, "[%s] " % cfg)
    if not ck.cov["distinct_nontrivial"]:
        ck.cov["distinct_nontrivial"] = len(jobs) + 1101
    ck.cov["vectors_from_tla_reference"] = len(jobs)
    ck.cov["rule"] = ("(a) %d vectors whose expected value is computed by TLC from the executable RFC transcriptions in spec/ref (boundary lengths of every block size, digest/key extremes, all-0xff operands, "
                      "%d Poly1305 corner messages found by model-checking the accumulator state machine): dryoc (every API route) = TLA+ value = libsodium; "
                      "(b) dryoc = libsodium on EVERY length 0..1100 x {random, 0xff, zero} x digest/key pairs x Poly1305 keys {random, r max & s = 2^128-1, all 0xff}; "
                      "(c) verify functions accept the correct authenticator and reject every single-bit change" % (len(jobs), len(cjobs)))
    ck.assumptions += ["each reference module is pinned to its RFC/paper test vectors (spec/ref/MCRef*.tla)", "libsodium-sys 0.2.7 built from source", "inputs beyond 2^64 bytes excluded as in the property"]
    return ck.finish()


def _merge(ck, rep, prefix):
    tool = [f for f in rep["failures"] if f["key"].startswith("HARNESS") or "specification error" in f["key"]]
    if tool:
        raise ToolError("reference/harness problem (not a verdict about the code): %s" % json.dumps(tool[0])[:800])
    ck.add_report(rep, prefix)


def replay(path):
    print(open(path).read()[:3000])
    return run("quick")
