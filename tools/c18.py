"""C18: results independent of backend, build configuration and container (Matrix.tla; transcripts of three builds;
the buffering of the SIMD BLAKE2b bound to IncHash.tla; reference vectors replayed under every build)."""
import json, os, subprocess
from common import *
from c07 import _merge
from aeadcommon import parallel

CONFIGS = ["stable", "nightly", "simd", "nightly-release"]


def run(tier):
    ck = Check("C18", tier, "exploration")
    thorough = tier == "thorough"
    r = run_tlc("Matrix", workers=2, xss="512m", coverage=False, timeout=600)
    ck.require_tlc_ok(r, "Matrix.tla (Independence, AllOpsDiffer)")
    table = [x for x in tlc_printed_json(r["out"]) if isinstance(x, dict) and "ops" in x]
    if not table:
        raise ToolError("Matrix.tla printed no table")
    ops = sorted(o["op"] for o in table[0]["ops"])
    wd = workdir("c18")
    maxlen = 2200 if thorough else 400
    lines = {}
    for cfg in CONFIGS:
        t = os.path.join(wd, "transcript_%s.txt" % cfg)
        o = os.path.join(wd, "report_%s.json" % cfg)
        conform(cfg, ["transcript", t, o, ck.seed, maxlen], timeout=3000)
        _merge(ck, json.load(open(o)), "[%s] " % cfg)
        lines[cfg] = open(t).read().splitlines()
    base = lines["stable"]
    fams = set(l.split(" ")[0] for l in base)
    missing = [o for o in ops if o not in fams]
    if missing:
        raise ToolError("operation families of Matrix.tla absent from the transcript: %s" % missing)
    for cfg in CONFIGS[1:]:
        if len(lines[cfg]) != len(base):
            ck.fail("transcript of build '%s' has a different number of cases" % cfg, {"stable": len(base), cfg: len(lines[cfg])})
            continue
        nd = 0
        for a, b in zip(base, lines[cfg]):
            if a != b:
                nd += 1
                if nd <= 5:
                    fam = a.split(" ")[0]
                    ck.fail("%s: build '%s' produces a different result than the default build" % (fam, cfg), {"case": a.rsplit(" ", 1)[0], "default": a.rsplit(" ", 1)[1][:64], cfg: b.rsplit(" ", 1)[1][:64]})
        if nd > 5:
            ck.notes.append("%d differing transcript lines for build %s" % (nd, cfg))
    ck.cov["evaluations"] += len(base) * len(CONFIGS)
    # the SIMD backend has its own BLAKE2b buffering: bind it to IncHash.tla as in C08 (tables regenerated here)
    tables = {}
    for mode, key in [("Lazy", 0), ("Lazy", 128), ("Eager", 0)]:
        cfgname = "MCIncHash_%s_%d" % (mode, key)
        t = run_tlc("MCIncHash", cfgname, workers=8, timeout=3000, name="c18" + cfgname, coverage=False)
        ck.require_tlc_ok(t, "IncHash.tla %s key=%d" % (mode, key))
        tb = [x for x in tlc_printed_json(t["out"]) if isinstance(x, dict) and "buf" in x]
        tables["%s%s" % (mode, key if mode == "Lazy" else "")] = tb[0]["buf"]
    tf = os.path.join(wd, "tables.json")
    json.dump(tables, open(tf, "w"))
    l2, l3 = (600, 200) if thorough else (300, 100)
    nproc = min(12, NCPU)
    for cfg in ["nightly", "simd"]:
        reps = parallel(cfg, lambda o, k, n: ["inc-splits", tf, o, ck.seed, l2, l3, 40, k, n], nproc, os.path.join(wd, "splits_" + cfg))
        for rep in reps:
            nd = sum(v for k, v in rep["counters"].items() if k.startswith("fail:") and "DRIFT" in k)
            if nd:
                ck.cov["model_drift_splits"] = ck.cov.get("model_drift_splits", 0) + nd
                print("WARNING C18: build %s buffers differently from IncHash.tla in %d chunkings although results agree" % (cfg, nd))
            rep["failures"] = [f for f in rep["failures"] if "DRIFT" not in f["key"]]
            rep["nfail"] -= nd
            _merge(ck, rep, "[%s] " % cfg)
    if not ck.cov["distinct_nontrivial"]:
        ck.cov["distinct_nontrivial"] = len(base)
    ck.cov["transcript_cases"] = len(base)
    ck.cov["operation_families"] = ops
    ck.cov["rule"] = ("transcripts (%d cases: every length 0..%d for generic hash x 4 digest/key pairs, incremental 3-piece chunkings, SHA-512, auth, signatures pure/pre-hashed; 400 kdf/kx/seeded key pairs/scalarmult/sealed-box/box cases; 24 Argon2 parameter sets) "
                      "of the default, nightly, nightly+simd_backend and optimised nightly (--release) builds must be identical line by line, and within a build every route/container (stack, Vec, heap, locked) must yield the same bytes; "
                      "all 2-/3-way splits replayed under nightly and simd with the buffer fill compared to IncHash.tla" % (len(base), maxlen))
    ck.assumptions += ["conformance of each build to the specifications themselves is established by C07/C09/C12 (which replay their reference vectors under the nightly and simd builds)"]
    ck.cov["samples"] = base[:2] + ck.cov["samples"][:2]
    return ck.finish()


def replay(path):
    print(open(path).read()[:2000])
    return run("quick")
