"""C16: byte and serde encodings round-trip and enforce fixed lengths (Codec.tla cases replayed with hand-built JSON and bincode)."""
import json, os
from common import *
from c07 import _merge


def run(tier):
    ck = Check("C16", tier, "exploration")
    thorough = tier == "thorough"
    r = run_tlc("Codec", workers=2, xss="512m", coverage=False, timeout=600)
    ck.require_tlc_ok(r, "Codec.tla (RoundTrip, FixedLenStrict)")
    table = [x for x in tlc_printed_json(r["out"]) if isinstance(x, dict) and "cases" in x]
    if not table:
        raise ToolError("Codec.tla printed no table")
    wd = workdir("c16")
    wire = [x for x in tlc_printed_json(r["out"]) if isinstance(x, dict) and "wirecases" in x]
    if not wire or not wire[0]["wirecases"]:
        raise ToolError("Codec.tla printed no wire-form table")
    table[0]["wirecases"] = wire[0]["wirecases"]
    ck.cov["wire_form_cases"] = len(wire[0]["wirecases"])
    tf = os.path.join(wd, "table.json")
    json.dump(table[0], open(tf, "w"))
    lmax = 1200 if thorough else 64
    for cfg in ["stable", "nightly", RELEASE]:
        for s in range(40 if thorough and cfg != RELEASE else 1):
            o = os.path.join(wd, "out_%s.json" % cfg)
            conform(cfg, ["codec", tf, o, ck.seed + s, lmax], timeout=3000)
            _merge(ck, json.load(open(o)), "" if cfg == "stable" else "[%s] " % cfg)
    if not ck.cov["distinct_nontrivial"]:
        ck.cov["distinct_nontrivial"] = len(table[0]["cases"]) + 8 * (lmax + 1)
    ck.cov["spec_cases"] = len(table[0]["cases"])
    ck.cov["rule"] = ("%d single-field deviations from Codec.tla (8 objects; every fixed-length field x carrier {byte string, element sequence} x count 0..2N) replayed as hand-built JSON (array / string) and bincode inputs "
                      "for stack and - nightly - locked containers, each with the verdict the spec derives; serde_json and bincode round trips of every object for every payload length 0..%d (decoded object equal, still decrypts/verifies); "
                      "to_bytes/from_bytes and into_parts/from_parts; TryFrom<&[u8]>/from_slices for slice lengths 0..128" % (len(table[0]["cases"]), lmax))
    ck.assumptions += ["strict-length decoding is judged for the fixed-length container types (StackByteArray<N>, Locked<HeapByteArray<N>>, TryFrom); a Vec<u8> in a fixed-length position has no length in its type and is round-tripped only",
                       "HeapByteArray<N> has no Deserialize impl and is therefore not a 'supported container' for deserialisation"]
    return ck.finish()


def replay(path):
    print(open(path).read()[:3000])
    return run("quick")
