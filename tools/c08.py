"""C08: incremental == one-shot for any chunking. IncHash.tla model-checked for every (absorbed, update size);
all 2-/3-way splits replayed on every incremental interface with buffer fill compared (H3); random k-way
partitions of long messages recorded and validated against the specification."""
import json, os, subprocess
from common import *

MODELS = [("Lazy", 0), ("Lazy", 128), ("Eager", 0)]


def run(tier):
    ck = Check("C08", tier, "model_checking")
    thorough = tier == "thorough"
    wd = workdir("c08")
    tables = {}
    for mode, key in MODELS:
        cfg = "MCIncHash_%s_%d" % (mode, key)
        r = run_tlc("MCIncHash", cfg, workers=8, timeout=3000, name=cfg)
        ck.require_tlc_ok(r, "IncHash.tla %s key=%d" % (mode, key))
        ck.require_actions(r, ["Update", "Final"])
        t = [x for x in tlc_printed_json(r["out"]) if isinstance(x, dict) and "buf" in x]
        if not t:
            raise ToolError("no buffer table printed by %s" % cfg)
        tables["%s%s" % (mode, key if mode == "Lazy" else "")] = t[0]["buf"]
    tf = os.path.join(wd, "tables.json")
    json.dump(tables, open(tf, "w"))
    # all 2-way and 3-way splits, every interface
    l2, l3, l2h = (700, 260, 300) if thorough else (300, 140, 140)
    nproc = min(14, NCPU)
    # ... under the default build, and (smaller bounds) under the optimised profile and under the SIMD backend (its BLAKE2b has
    # buffering code of its own; three-way splits long enough for a short piece to cross a block boundary)
    for cfg, (b2, b3, b2h) in [("stable", (l2, l3, l2h)), (RELEASE, (160, 70, 80)), ("simd", (200, 140, 100))]:
        binp = build_harness(cfg)
        procs = []
        for k in range(nproc):
            o = os.path.join(wd, "splits_%s.%d.json" % (cfg, k))
            procs.append((o, subprocess.Popen([binp, "inc-splits", tf, o, str(ck.seed), str(b2), str(b3), str(b2h), str(k), str(nproc)],
                                              stdout=subprocess.PIPE, stderr=subprocess.STDOUT, text=True)))
        for o, p in procs:
            out, _ = p.communicate(timeout=3400)
            if p.returncode != 0:
                raise ToolError("inc-splits failed:\n%s" % out[-2000:])
            rep = json.load(open(o))
            ndrift = sum(v for k, v in rep["counters"].items() if k.startswith("fail:") and "DRIFT" in k)
            if ndrift:
                ck.cov["model_drift_splits"] = ck.cov.get("model_drift_splits", 0) + ndrift
            rep["failures"] = [f for f in rep["failures"] if "DRIFT" not in f["key"]]
            rep["nfail"] -= ndrift
            ck.add_report(rep, prefix="" if cfg == "stable" else "[%s] " % cfg)
    if ck.cov.get("model_drift_splits"):
        print("WARNING C08: in %d chunkings the code's buffer fill differs from IncHash.tla although the results agree - the buffering model no longer describes the code; update the specification" % ck.cov["model_drift_splits"])
    nsplits = ck.cov["evaluations"]
    # recorded random partitions of long messages, validated by TLC
    ntr = 0
    for mode, key in MODELS:
        m = "%s%s" % (mode, key if mode == "Lazy" else "")
        tr = os.path.join(wd, "trace_%s.ndjson" % m)
        runs = 60 if thorough else 12
        conform("stable", ["inc-trace", m, ck.seed, runs, tr])
        nev = sum(1 for _ in open(tr))
        t = run_tlc("IncHashTrace", "IncHashTrace_%s_%d" % (mode, key), workers=1, env={"TRACE": tr}, deque=True, xss="1g",
                    coverage=False, timeout=1800, name="IncHashTrace" + m)
        ck.add_tlc(t, "IncHashTrace %s" % m)
        rej = trace_rejection(t)
        if rej:
            rej["trace"] = tr
            rej["model"] = m
            # the property is about results: a rejected trace is a violation iff some recorded final differs from the
            # one-shot result; otherwise the code merely buffers differently from the model (drift, warning)
            bad = [json.loads(l) for l in open(tr) if '"final"' in l and '"eq":false' in l.replace(" ", "")]
            if bad:
                ck.fail("random partition: incremental result differs from the one-shot function (%s)" % m, rej)
            else:
                print("WARNING C08: a recorded trace of %s buffering is not a behaviour of IncHash.tla although all results agree - update the specification: %s" % (m, json.dumps(rej)[:300]))
                ck.cov["model_drift_traces"] = ck.cov.get("model_drift_traces", 0) + 1
        else:
            def _corrupt_inc(evs):
                for e in evs:
                    if e.get("ev") == "final" and e.get("eq") is True:
                        e["eq"] = False
                        return "a final result equal to the one-shot value is recorded as different"
                return None
            binding_selftest(ck, "IncHashTrace", "IncHashTrace_%s_%d" % (mode, key), tr, _corrupt_inc, "inchash trace " + m, timeout=1800)
        ntr += runs
        ck.cov["evaluations"] += nev
    # the two entry points also agree on the result CLASS for every key / digest length inside and outside the ranges
    po = os.path.join(wd, "params.json")
    conform("stable", ["inc-params", po, ck.seed])
    ck.add_report(json.load(open(po)))
    _apalache(ck)
    ck.cov["traces_validated_against_impl"] = ntr
    if not ck.cov["distinct_nontrivial"]:
        ck.cov["distinct_nontrivial"] = nsplits
    ck.cov["exhaustive"] = True
    ck.cov["rule"] = ("TLC: every reachable (absorbed T, last update n) with T <= Tmax for BLAKE2b (lazy, 128, unkeyed/keyed) and Poly1305 (eager, 16); "
                      "harness: every 2-way split of every length 0..%d and every 3-way split of every length 0..%d (empty pieces included) on 10 hash/MAC interfaces, "
                      "2-way splits 0..%d on the 4 incremental sign/verify interfaces; each distinct (interface, length, cut positions)" % (l2, l3, l2h))
    ck.assumptions += ["one-shot result of the same library is the oracle for hashes/MACs (C07 ties it to the specifications); libsodium's ed25519ph for incremental signing",
                       "SHA-512 based interfaces (auth, sha512, sign) buffer inside the sha2 crate: abstract layer only, no buffer-fill comparison"]
    return ck.finish()


def _apalache(ck):
    """Unbounded design claim: the BLAKE2b buffering invariant is inductive (IncHashInd.tla)."""
    spec = os.path.join(SPEC, "IncHashInd.tla")
    if not os.path.exists(spec):
        return
    od = os.path.join(workdir("c08"), "apalache")
    res = []
    for args in (["--init=Init", "--inv=IndInv", "--length=0"], ["--init=IndInit", "--inv=IndInv", "--length=1"]):
        rc, out = sh(["timeout", "600", "apalache-mc", "check", "--out-dir=" + od] + args + ["IncHashInd.tla"], cwd=SPEC, timeout=700)
        ok = "EXITCODE: OK" in out
        res.append({"args": args, "ok": ok})
        if not ok:
            raise ToolError("Apalache did not discharge the inductive invariant: %s\n%s" % (args, out[-1500:]))
    ck.cov["apalache_inductive_invariant"] = res


def replay(path):
    d = json.load(open(path))
    det = d["detail"]
    if "cuts" in det:
        wd = workdir("c08")
        tf = os.path.join(wd, "tables.json")
        if not os.path.exists(tf):
            print("run `checks/run C08 quick` once to regenerate the tables")
            return 2
        o = os.path.join(wd, "replay_one.json")
        conform("stable", ["inc-replay", tf, o, det["iface"], det["len"], det["seed"]] + det["cuts"])
        r = json.load(open(o))
        print(json.dumps(r["failures"], indent=1)[:3000])
        if r["nfail"]:
            print("VIOLATION property=C08 replay=%s" % path)
            return 1
        return 0
    if "trace" in det:
        mode = "Lazy" if det["model"].startswith("Lazy") else "Eager"
        key = 128 if det["model"].endswith("128") else 0
        t = run_tlc("IncHashTrace", "IncHashTrace_%s_%d" % (mode, key), workers=1, env={"TRACE": det["trace"]}, deque=True, xss="1g", coverage=False)
        print(t["out"][-1500:])
        if not t["ok"]:
            print("VIOLATION property=C08 replay=%s" % path)
            return 1
        return 0
    return 2
