#!/bin/bash
# reverify_benign.sh [glob]: re-runs, for every stored behaviour-preserving change (seeded/benign/<glob>), the quick checks it was
# originally run against (meta.json checks_run), in a scratch worktree bind-mounted over /repo.  Every check must exit 0:
# exit 1 if any raises an alarm (a false alarm of the machinery), 0 otherwise.  A patch that no longer applies to HEAD is skipped.
G=${1:-*}
V=$(cd "$(dirname "$0")/.." && pwd)
WT=${REPLAY_WT:-/tmp/mut/replaywt}
[ -d $WT ] || git -C /repo worktree add --detach $WT HEAD > /dev/null 2>&1
[ -f $WT/Cargo.lock ] || cp /repo/Cargo.lock $WT/Cargo.lock 2>/dev/null
BAD=0
for d in $V/seeded/benign/$G/; do
  n=$(basename $d)
  git -C $WT checkout -q -- . ; git -C $WT apply --check $d/patch.diff 2>/dev/null || { echo "$n skipped (patch no longer applies to HEAD)"; continue; }
  for P in $(python3 -c "import json;print(' '.join(json.load(open('$d/meta.json')).get('checks_run',{}).keys()))"); do
    OUT=$($V/tools/try_mutant_ns.sh $WT $d/patch.diff $P 2>&1)
    RC=$(echo "$OUT" | grep -o "exit=[0-9]*" | head -1)
    echo "$n $P $RC $(echo "$OUT" | grep 'what:' | head -1 | cut -c1-150)"
    [ "$RC" = "exit=0" ] || BAD=1
  done
done
git -C /repo worktree remove --force $WT
exit $BAD
