"""Evaluates jobs with the executable TLA+ reference modules (spec/ref/RefEval.tla), with a cache keyed by the
hash of the reference modules: the values depend on the specification only, never on /repo."""
import glob, hashlib, json, os
from common import *

REF = os.path.join(SPEC, "ref")
CACHE = os.path.join(VERIF, "vectors", "ref_cache.json")


def ref_hash():
    h = hashlib.sha256()
    for f in sorted(glob.glob(os.path.join(REF, "*.tla"))):
        if os.path.basename(f).startswith("MCRef"):
            continue
        h.update(open(f, "rb").read())
    return h.hexdigest()[:16]


def _key(job, rh):
    j = {k: v for k, v in job.items() if k != "id"}
    return rh + ":" + hashlib.sha256(json.dumps(j, sort_keys=True).encode()).hexdigest()[:24]


def load_cache():
    if os.path.exists(CACHE):
        return json.load(open(CACHE))
    return {}


def evaluate(jobs, recompute=0, workers=12, timeout=3400, save=True):
    """jobs: list of dicts with 'fn' and operands (byte strings as lists of ints). Returns (list of outputs, stats).
    `recompute`: number of cached jobs to re-evaluate anyway (must reproduce the cached value)."""
    rh = ref_hash()
    cache = load_cache()
    keys = [_key(j, rh) for j in jobs]
    todo = [i for i, k in enumerate(keys) if k not in cache]
    recheck = [i for i, k in enumerate(keys) if k in cache][:recompute]
    stats = {"jobs": len(jobs), "cached": len(jobs) - len(todo), "evaluated_by_tlc": 0, "rechecked": 0, "ref_hash": rh}
    run = todo + recheck
    if run:
        wd = workdir("refeval")
        jf = os.path.join(wd, "jobs-%d.ndjson" % os.getpid())
        with open(jf, "w") as f:
            for n, i in enumerate(run):
                f.write(json.dumps(dict(jobs[i], id=n)) + "\n")
        r = run_tlc("RefEval", workers=workers, env={"JOBS": jf}, coverage=False, timeout=timeout, xss="1g", cwd=REF, name="RefEval")
        outs = {x["id"]: x["out"] for x in tlc_printed_json(r["out"]) if isinstance(x, dict) and "id" in x}
        if not r["ok"] or len(outs) != len(run):
            raise ToolError("RefEval failed (%d of %d jobs evaluated):\n%s" % (len(outs), len(run), r["out"][-2500:]))
        stats["tlc_wall_s"] = r["wall_s"]
        for n, i in enumerate(run):
            if i in todo:
                cache[keys[i]] = outs[n]
                stats["evaluated_by_tlc"] += 1
            else:
                stats["rechecked"] += 1
                if cache[keys[i]] != outs[n]:
                    raise ToolError("cached reference value not reproduced for job %s" % json.dumps(jobs[i])[:300])
        if save and todo:
            # keep only entries of the current reference hash
            cache = {k: v for k, v in cache.items() if k.startswith(rh + ":")}
            os.makedirs(os.path.dirname(CACHE), exist_ok=True)
            json.dump(cache, open(CACHE, "w"))
        os.remove(jf)
    return [cache[k] for k in keys], stats
