#!/usr/bin/env python3
"""store_mutant.py <source dir with patch.diff demo.rs meta.json confirm.json> <name> <Cxx> [note]
Runs the quick check of Cxx against the patch (applied to /repo and reverted), and stores the mutant under
seeded/<name>/ with what was confirmed, what was run and how it was detected."""
import json, os, re, shutil, subprocess, sys
src, name, prop = sys.argv[1:4]
note = sys.argv[4] if len(sys.argv) > 4 else ""
V = os.path.dirname(os.path.dirname(os.path.abspath(__file__)))
meta = json.load(open(f"{src}/meta.json"))
conf = json.load(open(f"{src}/confirm.json"))
ok = conf.get("applies") and not conf.get("tests_stable_fail") and not conf.get("tests_nightly_fail") \
     and conf.get("demo_fails_with_patch") and not conf.get("demo_fails_without_patch")
if not ok:
    print("NOT CONFIRMED", conf); sys.exit(1)
wt = os.environ.get("WT")
if wt:
    r = subprocess.run([f"{V}/tools/try_mutant_ns.sh", wt, f"{src}/patch.diff", prop], capture_output=True, text=True)
else:
    r = subprocess.run([f"{V}/tools/try_mutant.sh", f"{src}/patch.diff", prop], capture_output=True, text=True)
out = r.stdout
m = re.search(r"exit=(\d+)", out)
rc = int(m.group(1)) if m else -1
whats = re.findall(r"^\s*\d+\s+what: (.*)$", out, re.M)
dst = f"{V}/seeded/{name}"
os.makedirs(dst, exist_ok=True)
for f in ("patch.diff", "demo.rs"):
    shutil.copy(f"{src}/{f}", f"{dst}/{f}")
meta["breaks_property"] = prop
meta["confirmed"] = conf
meta["ran"] = f"tools/confirm_mutant.sh in a scratch worktree (existing tests pass with the patch; demo fails with it, passes without); {'tools/try_mutant_ns.sh (patched worktree bind-mounted over /repo in a private mount namespace)' if wt else 'tools/try_mutant.sh'} {prop} -> exit {rc}"
meta["detected_by"] = f"checks/run {prop} quick" if rc == 1 else None
meta["detected_as"] = whats[:3]
if note: meta["note"] = note
json.dump(meta, open(f"{dst}/meta.json", "w"), indent=1)
print(name, prop, "exit", rc, whats[:2])
