"""C17: a rejected open leaves the caller's buffers as they were or zeroed, and does not update the stream tag."""
import c02


def run(tier):
    return c02.run(tier, prop="C17", keep=["C17"])


def replay(path):
    print(open(path).read()[:3000])
    return run("quick")
