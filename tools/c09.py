"""C09: Argon2i/Argon2id = libsodium / RFC 9106 (executable reference spec/ref/Argon2.tla) over the parameter grid."""
import json, os
from common import *
import refeval
from c07 import det, _merge
from aeadcommon import parallel


def jobs(thorough):
    J = []

    def add(ty, t, m, outlen, pwl, sl, tag):
        J.append({"fn": "argon2", "type": ty, "pwd": det(pwl, "pw" + tag), "salt": det(sl, "salt" + tag), "t": t, "m": m, "outlen": outlen, "tag": tag})
    # where libsodium does not apply: Argon2i with fewer than 3 passes, salts other than 16 bytes
    for t in (1, 2):
        for m in (8, 11, 16):
            add(1, t, m, 32, 8, 16, "argon2i t<3")
    for sl in (8, 9, 15, 17, 24, 32, 64):
        add(2, 1, 8, 32, 6, sl, "salt len")
        add(1, 3, 8, 32, 6, sl, "salt len i")
    # three-way subset (libsodium also accepts these): output lengths across the H' boundaries, memory rounding, passes
    for ol in (16, 31, 32, 33, 63, 64, 65, 95, 96, 97, 127, 128, 129, 160, 1024, 1100):
        add(2, 1, 8, ol, 4, 16, "outlen")
    for m in (8, 9, 10, 11, 12, 13, 15, 16, 17, 20, 32):
        add(2, 2, m, 32, 5, 16, "memory")
    for t in (1, 2, 3, 4):
        add(2, t, 12, 32, 0, 16, "passes, empty password")
        add(1, max(t, 3), 12, 32, 0, 16, "passes i")
    if thorough:
        for m in (64, 130, 256, 520):
            add(2, 1, m, 64, 9, 16, "larger memory")
            add(1, 3, m, 64, 9, 16, "larger memory i")
        for pwl in (1, 63, 64, 65, 127, 128, 129, 300):
            add(2, 1, 8, 32, pwl, 16, "pwlen")
    return J


def run(tier):
    ck = Check("C09", tier, "exploration")
    thorough = tier == "thorough"
    J = jobs(thorough)
    outs, st = refeval.evaluate(J, recompute=30 if thorough else 3)
    ck.cov["reference_evaluation"] = st
    wd = workdir("c09")
    vf = os.path.join(wd, "vectors.ndjson")
    with open(vf, "w") as f:
        for j, o in zip(J, outs):
            f.write(json.dumps(dict(j, out=o)) + "\n")
    for cfg in ["stable", "nightly", "simd"]:
        o = os.path.join(wd, "vec_%s.json" % cfg)
        conform(cfg, ["prims-vectors", vf, o])
        _merge(ck, json.load(open(o)), "" if cfg == "stable" else "[%s] " % cfg)
    nproc = min(12, NCPU)
    for cfg in ["stable", RELEASE] + (["simd"] if thorough else []):
        reps = parallel(cfg, lambda o, k, n: ["prims-sweep-c09", o, ck.seed, k, n, 1 if thorough and cfg != RELEASE else 0], nproc, os.path.join(wd, "sweep_" + cfg))
        for rep in reps:
            _merge(ck, rep, "" if cfg == "stable" else "[%s] " % cfg)
    if not ck.cov["distinct_nontrivial"]:
        ck.cov["distinct_nontrivial"] = len(J) + 600
    ck.cov["rule"] = ("(a) %d parameter sets evaluated by TLC from spec/ref/Argon2.tla (RFC 9106, p = 1): Argon2i with 1-2 passes and salts of 8..64 bytes (where libsodium does not apply), output lengths across the 64-byte and 32-byte-step boundaries of H', "
                      "memory sizes that are not multiples of 4 KiB, 1..4 passes, empty password; three-way where libsodium accepts; (b) dryoc = libsodium on every output length 16..200 (+255..257, 1023..1025, 1100) for both types, "
                      "password lengths 0..300, memory 8 KiB..1 MiB (thorough 4 MiB) x passes; (c) out-of-range parameters are errors on both; PwHash::verify accepts the right and rejects other passwords" % len(J))
    ck.assumptions += ["p = 1 only (dryoc's API exposes no parallelism)", "spec/ref/Argon2.tla is pinned to vectors produced by an independent python Argon2 that reproduces the RFC 9106 section 5 vectors and libsodium"]
    return ck.finish()


def replay(path):
    print(open(path).read()[:3000])
    return run("quick")
