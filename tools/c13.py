"""C13: seeded key generation and Ed25519->X25519 conversion = libsodium (Kx.tla derivation terms interpreted with libsodium primitives)."""
import json, os
from common import *
from c07 import _merge


def run(tier):
    ck = Check("C13", tier, "exploration")
    k = run_tlc("Kx", workers=2, xss="512m", coverage=False, timeout=600)
    ck.require_tlc_ok(k, "Kx.tla (ConvertedPairConsistent, FromSecretKey)")
    wd = workdir("c13")
    for cfg in ["stable", "nightly", RELEASE] + (["simd"] if tier == "thorough" else []):
        for s in range(150 if tier == "thorough" and cfg != RELEASE else 1):
            o = os.path.join(wd, "sweep.json")
            conform(cfg, ["prims-sweep-c13", o, ck.seed + s])
            _merge(ck, json.load(open(o)), "" if cfg == "stable" else "[%s] " % cfg)
    if not ck.cov["distinct_nontrivial"]:
        ck.cov["distinct_nontrivial"] = 129 * 3 + 300
    ck.cov["rule"] = ("box key pairs from seeds of EVERY length 0..128 (x3 contents) against SHA-512/base-point construction computed with libsodium (and libsodium's own function at 32); "
                      "300 32-byte seeds: kx and signing key pairs, public key from (unclamped) secret key, Ed25519->X25519 secret and public conversion against libsodium and base*xsk = xpk; password-derived key pairs; classic and object API")
    ck.assumptions += ["libsodium is the reference; for seed lengths it does not accept, its primitives are composed as Kx.tla's derivation terms say"]
    return ck.finish()


def replay(path):
    print(open(path).read()[:3000])
    return run("quick")
