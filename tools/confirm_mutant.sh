#!/bin/bash
# confirm_mutant.sh <worktree> <mutant dir> : confirms in a scratch worktree that the patch compiles, passes the
# existing tests, and that the demonstration fails with it and passes without it.  Writes confirm.json.
WT=$1; M=$2
cd $WT || exit 2
git checkout -q -- . ; rm -f tests/demo.rs
NIGHTLY=0; grep -q "protected.rs\|nightly" $M/patch.diff $M/meta.json && NIGHTLY=1
git apply $M/patch.diff || { echo '{"applies": false}' > $M/confirm.json; exit 1; }
T1=0; cargo test --offline > $M/tests_stable.log 2>&1 || T1=1
grep -q "base64" $M/meta.json && { cargo test --offline --features base64,serde >> $M/tests_stable.log 2>&1 || T1=1; }
T2=0; if [ $NIGHTLY = 1 ]; then cargo +nightly test --offline --features nightly,serde,base64 > $M/tests_nightly.log 2>&1 || T2=1; fi
cp $M/demo.rs tests/demo.rs
FEAT=""; grep -q "base64" $M/meta.json && FEAT="--features base64,serde"
REL=""; grep -q '"demo_cmd".*--release' $M/meta.json && REL="--release"
SIMD=""; grep -q '"demo_cmd".*simd_backend' $M/meta.json && SIMD=",simd_backend"
if [ $NIGHTLY = 1 ]; then DC="cargo +nightly test --offline $REL --features nightly,base64,serde$SIMD --test demo -- --test-threads=1"; else
  if [ -n "$SIMD" ]; then FEAT="--features base64,serde,simd_backend"; fi
  DC="cargo test --offline $REL $FEAT --test demo"; fi
D1=0; $DC > $M/demo_with.log 2>&1 || D1=1
git checkout -q -- .
D0=0; $DC > $M/demo_without.log 2>&1 || D0=1
rm -f tests/demo.rs
echo "{\"applies\": true, \"tests_stable_fail\": $T1, \"tests_nightly_fail\": $T2, \"nightly\": $NIGHTLY, \"demo_fails_with_patch\": $D1, \"demo_fails_without_patch\": $D0, \"demo_cmd\": \"$DC\"}" > $M/confirm.json
cat $M/confirm.json
