#!/bin/bash
# run_all.sh <tier>: runs every registered check once, prints exit status and wall time per check
T=${1:-quick}
cd "$(dirname "$0")/.."
for c in C01 C02 C03 C04 C05 C06 C07 C08 C09 C10 C11 C12 C13 C14 C15 C16 C17 C18 C19 C20; do
  s=$(date +%s); checks/run $c $T > work/all_$c.log 2>&1; rc=$?; e=$(date +%s)
  echo "$c $T exit=$rc $((e-s))s $(tail -1 work/all_$c.log | cut -c1-150)"
done
