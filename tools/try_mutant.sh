#!/bin/bash
# try_mutant.sh <patch> <Cxx> [tier]: applies a patch to /repo, runs the check, reverts.  Prints exit code and summary.
P=$1; C=$2; T=${3:-quick}
cd /repo && git status --short | grep -q . && { echo "/repo not clean"; exit 2; }
git apply $P || exit 2
cd /verif && VERIF_EVIDENCE_DIR=/verif/work/trial_evidence checks/run $C $T > work/mutant_$C.log 2>&1; RC=$?
git -C /repo checkout -- .
echo "exit=$RC"; grep "what:" work/mutant_$C.log | sort | uniq -c | sort -rn | head -5; tail -2 work/mutant_$C.log
exit $RC
