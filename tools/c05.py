"""C05: X25519 exact on every scalar/point class; DH, beforenm and key exchange agree with libsodium; Kx.tla protocol facts."""
import json, os
from common import *
import refeval
from c07 import det, _merge

P = (1 << 255) - 19
L1 = 325606250916557431795983626356110631294008115727848805560023387167927233504
L2 = 39382357235489614581723060781553021112529911719440698176882885853963445705823


def le(n):
    return list(n.to_bytes(32, "little"))


def jobs():
    pts = [("u=0", 0), ("u=1", 1), ("order8a", L1), ("order8b", L2), ("p-1", P - 1), ("p", P), ("p+1", P + 1), ("u=2 twist", 2), ("u=9", 9),
           ("2^255-1", (1 << 255) - 1), ("p+9", P + 9), ("u=3", 3), ("twist 5", 5)]
    scal = [("rfc", list(bytes.fromhex("a546e36bf0527c9d3b16154b82465edd62144c0ac1fc5a18506a2244ba449ac4"))), ("ff", [255] * 32), ("det", det(32, "x25519 scalar"))]
    J = []
    for pn, u in pts:
        for hb in (0, 1):
            for sn, s in scal:
                J.append({"fn": "x25519", "scalar": s, "point": le(u | (hb << 255)), "tag": "%s hb=%d scalar=%s" % (pn, hb, sn)})
    # RFC 7748 vectors and a few pseudo-random encodings (mostly off the prime-order subgroup)
    J.append({"fn": "x25519", "scalar": list(bytes.fromhex("a546e36bf0527c9d3b16154b82465edd62144c0ac1fc5a18506a2244ba449ac4")),
              "point": list(bytes.fromhex("e6db6867583030db3594c1a424b15f7c726624ec26b3353b10a903a6d0ab1c4c")), "tag": "rfc7748 5.2 #1"})
    J.append({"fn": "x25519", "scalar": list(bytes.fromhex("4b66e9d4d1b4673c5ad22691957d6af5c11b6421e0ea01d42ca4169e7918ba0d")),
              "point": list(bytes.fromhex("e5210f12786811d3f4b7959d0538ae2c31dbe7106fc03c3efc4cd549c715a493")), "tag": "rfc7748 5.2 #2"})
    for i in range(12):
        J.append({"fn": "x25519", "scalar": det(32, "rs%d" % i), "point": det(32, "rp%d" % i), "tag": "pseudo-random %d" % i})
    for i in range(6):
        J.append({"fn": "x25519base", "scalar": det(32, "bs%d" % i) if i else [0] * 32, "tag": "base %d" % i})
    return J


def run(tier):
    ck = Check("C05", tier, "exploration")
    thorough = tier == "thorough"
    k = run_tlc("Kx", workers=2, xss="512m", coverage=False, timeout=600)
    ck.require_tlc_ok(k, "Kx.tla (DHCommutes, BeforenmAgrees, Mirror, ZeroRefused, OthersAccepted)")
    table = [x for x in tlc_printed_json(k["out"]) if isinstance(x, list)]
    if not table:
        raise ToolError("Kx.tla printed no table")
    wd = workdir("c05")
    tf = os.path.join(wd, "kx_table.json")
    json.dump(table[0], open(tf, "w"))
    J = jobs()
    outs, st = refeval.evaluate(J, recompute=len(J) if thorough else 4)
    ck.cov["reference_evaluation"] = st
    vf = os.path.join(wd, "vectors.ndjson")
    with open(vf, "w") as f:
        for j, o in zip(J, outs):
            f.write(json.dumps(dict(j, out=o)) + "\n")
    for cfg in ["stable", "nightly"] + (["simd"] if thorough else []):
        o = os.path.join(wd, "vec_%s.json" % cfg)
        conform(cfg, ["prims-vectors", vf, o])
        _merge(ck, json.load(open(o)), "" if cfg == "stable" else "[%s] " % cfg)
    nrand = 1000000 if thorough else 20000
    # nightly: the same sweep with heap / locked containers and the locked precomputed keys
    for cfg in ["stable", "nightly", RELEASE] + (["simd"] if thorough else []):
        o = os.path.join(wd, "sweep_%s.json" % cfg)
        conform(cfg, ["prims-sweep-c05", tf, o, ck.seed, nrand if cfg == "stable" else (20000 if thorough else 2000), 1000], timeout=3400)
        _merge(ck, json.load(open(o)), "" if cfg == "stable" else "[%s] " % cfg)
    # the composition of Dryoc.tla with dryoc on one side and libsodium on the other
    d = run_tlc("Dryoc", workers=2, xss="512m", coverage=False, timeout=600)
    ck.require_tlc_ok(d, "Dryoc.tla (StreamsMeet, DirectionsIndependent, BoxKeysMeet, Eavesdropper)")
    o = os.path.join(wd, "e2e.json")
    conform("stable", ["e2e", o, ck.seed, 2000 if thorough else 200])
    _merge(ck, json.load(open(o)), "")
    if not ck.cov["distinct_nontrivial"]:
        ck.cov["distinct_nontrivial"] = len(J) + nrand
    ck.cov["rule"] = ("(a) %d (scalar, point) rows evaluated by TLC from spec/ref/X25519.tla (RFC 7748 ladder): all low-order encodings, u in {0,1,2,3,5,9,p-1,p,p+1,p+9,2^255-1} with and without bit 255, RFC vectors, pseudo-random encodings: dryoc = TLA+ = libsodium; "
                      "(b) dryoc = libsodium on %d uniformly random (scalar, encoding) pairs, the RFC iteration (1000 steps), 22 special encodings x 6 scalars; "
                      "(d) Dryoc.tla composition: key exchange between dryoc and libsodium, then a secret stream in each direction, precomputed box keys and a sealed box across the two libraries; (c) Kx.tla table (role x peer class): session keys equal libsodium's, mirror, low-order peers refused in both roles, classic and object API; beforenm and precalculated keys equal libsodium's" % (len(J), nrand))
    ck.assumptions += ["curve arithmetic lives in curve25519-dalek; checked end to end only", "random pairs are seeded; ~87% lie off the prime-order subgroup"]
    return ck.finish()


def replay(path):
    print(open(path).read()[:3000])
    return run("quick")
