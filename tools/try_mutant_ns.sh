#!/bin/bash
# try_mutant_ns.sh <worktree> <patch> <Cxx> [tier]: like try_mutant.sh, but leaves /repo alone: the patch is applied in a
# scratch worktree of /repo, which is bind-mounted over /repo inside a private mount namespace for the duration of the
# check (used while a long run that reads the real /repo is in progress).  Prints exit code and summary.
WT=$1; P=$2; C=$3; T=${4:-quick}
V=$(cd "$(dirname "$0")/.." && pwd)
cd $WT || exit 2
git checkout -q -- . ; rm -f tests/demo.rs
git apply $P || exit 2
unshare -m bash -c "mount --bind $WT /repo && cd $V && VERIF_EVIDENCE_DIR=$V/work/trial_evidence checks/run $C $T" > $V/work/mutant_$C.log 2>&1; RC=$?
git checkout -q -- .
# the real /repo's files are older than what was just built: make cargo forget the patched build of dryoc
rm -rf $V/harness/target/*/debug/.fingerprint/dryoc-* $V/harness/target/*/release/.fingerprint/dryoc-* $V/work/c20*/target/debug/.fingerprint/dryoc-* 2>/dev/null
echo "exit=$RC"; grep "what:" $V/work/mutant_$C.log | sort | uniq -c | sort -rn | head -5; tail -2 $V/work/mutant_$C.log
exit $RC
