"""C20: the type-state table of TypeState.tla, one generated Rust program per cell, judged by rustc."""
import json, os, re, shutil
from common import *

PRE = """#![allow(unused_variables, unused_mut, unused_imports, dead_code)]
use dryoc::protected::*;
use dryoc::types::*;
"""
DATA = 'b"0123456789abcdef"'


def mk_state(kind, pm, lm):
    """Rust expression statements leaving `r` in the given type state (or None if not constructible at run time)."""
    ty = "HeapBytes" if kind == "Resizable" else "HeapByteArray::<16>"
    s = ["let r = %s::from_slice_into_locked(%s).unwrap();" % (ty, DATA)]
    if lm == "Unlocked" or pm == "NA":
        s.append("let r = r.munlock().unwrap();")
    if pm == "RO":
        s.append("let r = r.mprotect_readonly().unwrap();")
    if pm == "NA":
        s.append("let r = r.mprotect_noaccess().unwrap();")
        if lm == "Locked":
            s.append("let r = r.mlock().unwrap();   // fails at run time on Linux; the type exists")
    s.append("let mut r = r;")
    return s


# op -> list of (route name, statement(s), primary?)  --  `primary` routes must compile in MustCompile cells; every
# route must be rejected in MustNotCompile cells (a forbidden access may not be reachable through ANY trait or method)
NEED = "fn need<T: ?Sized + %s>(_: &mut T) {} need(&mut r);"
OPS = {
    "read_view": [("as_slice", "let v: &[u8] = r.as_slice(); std::hint::black_box(v.len());", True),
                  ("deref", "let v: &[u8] = &r; std::hint::black_box(v.len());", True),
                  ("len", "std::hint::black_box(r.len());", True),
                  ("slice_index", "let v: &[u8] = &r[..]; std::hint::black_box(v.len());", True),
                  ("trait Deref", NEED % "std::ops::Deref<Target = [u8]>", False),
                  ("trait AsRef", NEED % "AsRef<[u8]>", False),
                  ("trait Bytes", NEED % "Bytes", False),
                  ("trait Borrow", NEED % "std::borrow::Borrow<[u8]>", False),
                  ("to_vec", "let v: Vec<u8> = r.to_vec(); std::hint::black_box(v.len());", False),
                  # traits that read the bytes on the caller's behalf
                  ("trait Serialize", NEED % "serde::Serialize", False),
                  ("serde_json", "let s = serde_json::to_string(&r); std::hint::black_box(s.is_ok());", False),
                  ("trait Debug", NEED % "std::fmt::Debug", False),
                  ("trait PartialEq", NEED % "PartialEq", False),
                  ("iter", "for b in r.iter() { std::hint::black_box(b); }", False)],
    "mut_view": [("as_mut_slice", "r.as_mut_slice()[0] = 1;", True),
                 ("index_assign", "r[0] = 1;", True),
                 ("deref_mut", "let v: &mut [u8] = &mut r; v[0] = 1;", True),
                 ("copy_from_slice", "MutBytes::copy_from_slice(&mut r, b\"0123456789abcdef\");", False),
                 ("fill", "r.fill(0);", False),
                 ("trait DerefMut", NEED % "std::ops::DerefMut<Target = [u8]>", False),
                 ("trait AsMut", NEED % "AsMut<[u8]>", False),
                 ("trait MutBytes", NEED % "MutBytes", False),
                 ("trait BorrowMut", NEED % "std::borrow::BorrowMut<[u8]>", False),
                 ("trait MutByteArray", NEED % "MutByteArray<16>", False),
                 ("trait AsMut array", NEED % "AsMut<[u8; 16]>", False)],
    "array_view": [("as_array", "let a: &[u8; 16] = r.as_array(); std::hint::black_box(a[0]);", True),
                   ("trait ByteArray", NEED % "ByteArray<16>", False),
                   ("trait AsRef array", NEED % "AsRef<[u8; 16]>", False)],
    "index": [("index", "let b: u8 = r[0]; std::hint::black_box(b);", True)],
    "resize": [("resize", "r.resize(32, 0);", True),
               ("trait ResizableBytes", NEED % "ResizableBytes", False)],
    "clone": [("clone", "let c = r.clone();", True)],
    "lock": [("mlock", "let r2 = r.mlock().unwrap();", True)],
    "unlock": [("munlock", "let r2 = r.munlock().unwrap();", True)],
    "read_only": [("mprotect_readonly", "let r2 = r.mprotect_readonly().unwrap();", True)],
    "read_write": [("mprotect_readwrite", "let r2 = r.mprotect_readwrite().unwrap();", True)],
    "no_access": [("mprotect_noaccess", "let r2 = r.mprotect_noaccess().unwrap();", True),
                  ],
    "use_after_transition": [("after munlock", "let r2 = r.munlock().unwrap(); drop(r);", True),
                             ("after mprotect_readonly", "let r2 = r.mprotect_readonly().unwrap(); drop(r);", True),
                             ("after mprotect_readwrite", "let r2 = r.mprotect_readwrite().unwrap(); drop(r);", True)],
}


def prog(kind, pm, lm, stmt):
    body = mk_state(kind, pm, lm)
    lines = [PRE, "fn main() {"] + ["    " + l for l in body]
    lines.append("    " + stmt + " // MARK")
    lines.append("}")
    return "\n".join(lines) + "\n"


STREAM_PRE = """#![allow(unused_variables, unused_mut, unused_imports, dead_code)]
use dryoc::dryocstream::*;
fn main() {
    let key = Key::gen();
    let (mut push, header): (_, Header) = DryocStream::init_push(&key);
    let mut pull = DryocStream::init_pull(&key, &header);
    let msg = b"hello".to_vec();
    let c: Vec<u8> = push.push(&msg, None, Tag::MESSAGE).unwrap();
"""


STREAM_ROUTES = {
    "push": [("push", "let x: Vec<u8> = %s.push(&msg, None, Tag::MESSAGE).unwrap();", True),
             ("push_to_vec", "let x: Vec<u8> = %s.push_to_vec(&msg, None, Tag::MESSAGE).unwrap();", True)],
    "pull": [("pull", "let x: (Vec<u8>, Tag) = %s.pull(&c, None).unwrap();", True),
             ("pull_to_vec", "let x: (Vec<u8>, Tag) = %s.pull_to_vec(&c, None).unwrap();", True)],
}


def stream_prog(stmt, mode):
    obj = "push" if mode == "Push" else "pull"
    return STREAM_PRE + "    " + (stmt % obj) + " // MARK\n}\n"


def run(tier):
    ck = Check("C20", tier, "model_checking")
    t = run_tlc("TypeState", workers=8, timeout=1800, xss="512m")
    ck.require_tlc_ok(t, "TypeState.tla TableSound")
    tabs = tlc_printed_json(t["out"])
    tabs = [x for x in tabs if isinstance(x, dict) and "prot" in x]
    if not tabs:
        raise ToolError("TypeState.tla printed no table")
    table = tabs[0]
    wd = os.path.join(workdir("c20"), "gen")
    shutil.rmtree(wd, ignore_errors=True)
    os.makedirs(os.path.join(wd, "src", "bin"))
    os.makedirs(os.path.join(wd, ".cargo"))
    open(os.path.join(wd, "Cargo.toml"), "w").write(
        '[package]\nname = "c20gen"\nversion = "0.0.0"\nedition = "2021"\n[workspace]\n[dependencies]\ndryoc = { path = "/repo", features = ["nightly", "serde"] }\nzeroize = "1.6"\nserde = "1.0"\nserde_json = "1.0"\n')
    open(os.path.join(wd, ".cargo", "config.toml"), "w").write("[net]\noffline = true\n")
    # the pinned dependency versions: the repository's lock file, or the harness's copy of it
    shutil.copy("/repo/Cargo.lock" if os.path.exists("/repo/Cargo.lock") else os.path.join(HARNESS, "Cargo.lock"), os.path.join(wd, "Cargo.lock"))
    cells = {}
    for c in table["prot"]:
        for ri, (rname, stmt, primary) in enumerate(OPS[c["op"]]):
            if "16" in stmt and "0123456789abcdef" not in stmt and c["kind"] != "Fixed":
                continue                      # array routes exist for the fixed-length container only
            verdict = c["verdict"]
            if not primary and verdict != "MustNotCompile":
                # probe routes are judged only where the access is forbidden; in the plain read-write state they
                # are compiled as liveness controls (a route that compiles nowhere proves nothing)
                if not (c["pm"] == "RW" and c["lm"] == "Unlocked"):
                    continue
                verdict = "Free"
            name = "p_%s_%s_%s_%s_%d" % (c["kind"].lower(), c["pm"].lower(), c["lm"].lower(), c["op"], ri)
            if verdict == "Free":
                # not judged by the compiler; if it compiles it is run, and a refused transition is then an Err, not a fault
                stmt = stmt.replace(".unwrap();", ";")
            cells[name] = dict(c, route=rname, verdict=verdict)
            open(os.path.join(wd, "src", "bin", name + ".rs"), "w").write(prog(c["kind"], c["pm"], c["lm"], stmt))
    for c in table["stream"]:
        for ri, (rname, stmt, primary) in enumerate(STREAM_ROUTES[c["op"]]):
            name = "s_%s_on_%s_%d" % (c["op"], c["mode"].lower(), ri)
            cells[name] = dict(c, route=rname)
            open(os.path.join(wd, "src", "bin", name + ".rs"), "w").write(stream_prog(stmt, c["mode"]))
    tgt = os.path.join(HARNESS, "target", "c20")
    ensure_fresh(tgt)
    rc, out = sh(["cargo", "+nightly", "check", "--offline", "--bins", "--keep-going", "--message-format=json", "--target-dir", tgt],
                 cwd=wd, timeout=3000)
    errs = {}      # bin -> list of (code, line, message)
    built = set()
    dep_error = False
    for line in out.splitlines():
        if not line.startswith("{"):
            continue
        try:
            m = json.loads(line)
        except Exception:
            continue
        if m.get("reason") == "compiler-artifact" and m.get("target", {}).get("kind") == ["bin"]:
            built.add(m["target"]["name"])
        if m.get("reason") == "compiler-message" and m["message"].get("level") == "error":
            tname = m.get("target", {}).get("name")
            if m.get("target", {}).get("kind") != ["bin"]:
                dep_error = True
                continue
            code = (m["message"].get("code") or {}).get("code")
            lines_ = [sp["line_start"] for sp in m["message"].get("spans", []) if sp.get("is_primary")]
            errs.setdefault(tname, []).append((code, lines_, m["message"]["message"][:200]))
    if dep_error or (not built and not errs):
        raise ToolError("cargo check could not build the dependency:\n%s" % out[-3000:])
    nprog = 0
    samples = []
    free = {}
    for name, c in sorted(cells.items()):
        nprog += 1
        src = open(os.path.join(wd, "src", "bin", name + ".rs")).read().splitlines()
        mark = [i + 1 for i, l in enumerate(src) if "// MARK" in l][0]
        compiled = name in built and name not in errs
        es = [e for e in errs.get(name, []) if e[0] is not None or "aborting" not in e[2]]
        es = [e for e in es if "aborting due to" not in e[2]]
        off_mark = [e for e in es if e[1] and mark not in e[1]]
        v = c["verdict"]
        desc = {k: c[k] for k in c if k != "verdict"}
        if v == "MustNotCompile":
            if compiled:
                ck.fail("forbidden program compiles: %s" % name, {"cell": desc, "program": "\n".join(src)})
            elif off_mark:
                raise ToolError("program %s fails to compile outside the marked line: %s" % (name, off_mark))
            if len(samples) < 3 and not compiled:
                samples.append({"cell": desc, "verdict": v, "rustc": [e[0] for e in es], "line": src[mark - 1].strip()})
        elif v == "MustCompile":
            if not compiled:
                if off_mark:
                    raise ToolError("control %s fails to compile outside the marked line: %s" % (name, off_mark))
                ck.fail("permitted program does not compile: %s" % name, {"cell": desc, "errors": es, "program": "\n".join(src)})
        else:
            free[name] = "compiles" if compiled else "rejected"
    # permitted programs run without faulting (states reachable at run time only)
    # Free cells that happen to compile are run too: whatever the compiler lets through must not fault (a signal)
    runnable = [n for n, c in cells.items() if c["verdict"] in ("MustCompile", "Free") and n in built and n not in errs and "pm" in c
                and not (c.get("pm") == "NA" and c.get("lm") == "Locked")]
    runnable += [n for n, c in cells.items() if "pm" not in c and c["verdict"] == "MustCompile" and n in built]
    rc, out = sh(["cargo", "+nightly", "build", "--offline", "--target-dir", tgt] + sum([["--bin", n] for n in runnable], []), cwd=wd, timeout=3000)
    if rc != 0:
        raise ToolError("building the control programs failed:\n%s" % out[-3000:])
    ran = 0
    for n in runnable:
        rc, out = sh([os.path.join(tgt, "debug", n)], timeout=60)
        ran += 1
        if cells[n]["verdict"] == "Free":
            if rc < 0 or rc >= 128:
                ck.fail("a program the compiler accepts faults at run time: %s" % n, {"cell": cells[n], "exit": rc, "output": out[-500:],
                        "program": open(os.path.join(wd, "src", "bin", n + ".rs")).read()})
        elif rc != 0:
            ck.fail("permitted program faults at run time: %s" % n, {"cell": cells[n], "exit": rc, "output": out[-500:]})
    # ... and again built with the optimised profile (debug assertions and overflow checks off)
    rc, out = sh(["cargo", "+nightly", "build", "--release", "--offline", "--target-dir", tgt] + sum([["--bin", n] for n in runnable], []), cwd=wd, timeout=3000)
    if rc != 0:
        raise ToolError("building the control programs (release) failed:\n%s" % out[-3000:])
    for n in runnable:
        rc, out = sh([os.path.join(tgt, "release", n)], timeout=60)
        ran += 1
        if cells[n]["verdict"] == "Free":
            if rc < 0 or rc >= 128:
                ck.fail("[release] a program the compiler accepts faults at run time: %s" % n, {"cell": cells[n], "exit": rc, "output": out[-500:]})
        elif rc != 0:
            ck.fail("[release] permitted program faults at run time: %s" % n, {"cell": cells[n], "exit": rc, "output": out[-500:]})
    ck.cov["evaluations"] = nprog + ran
    ck.cov["programs"] = nprog
    ck.cov["controls_run"] = ran
    if not ck.cov["distinct_nontrivial"]:
        ck.cov["distinct_nontrivial"] = nprog
    ck.cov["free_cells"] = free
    live = set(cells[n]["route"] for n in cells if n in built and n not in errs)
    dead = sorted(set(c["route"] for c in cells.values()) - live - set(r[0] for r in OPS["use_after_transition"]))
    ck.cov["routes_never_compiling_anywhere"] = dead
    ck.cov["traces_validated_against_impl"] = nprog
    ck.cov["samples"] = samples
    ck.cov["exhaustive"] = True
    ck.cov["rule"] = ("one program per (cell, route) of the table printed by TypeState.tla (12 operations x 2 containers x 3 protect modes x 2 lock modes + 4 stream cells; every trait or method through which the access could be requested is a route: as_mut_slice, index assignment, DerefMut/AsMut/BorrowMut/MutBytes/MutByteArray bounds, push_to_vec/pull_to_vec, ...); "
                      "MustNotCompile cells must be rejected by rustc with the error in the generated line, MustCompile cells must compile and (where the state is reachable at run time) run without faulting; Free cells are not judged by the compiler, but those that compile are run and must not die by a signal")
    ck.assumptions += ["rustc (nightly toolchain installed in the sandbox) is the oracle for 'is rejected by the compiler'",
                       "the (NoAccess, Locked) type exists but cannot be reached at run time on Linux: compile-only"]
    return ck.finish()


def replay(path):
    d = json.load(open(path))
    print(d["detail"].get("program", ""))
    print("re-run `checks/run C20 quick` to re-judge this program against the current tree")
    return run("quick")
