"""C02: every single corruption (every bit of every component, every truncation, extensions) is rejected by every
opening entry point; untampered input is accepted. Fault enumeration generated from Aead.tla / Stream."""
from aeadcommon import *

KEEP = ["C02"]
PROP = "C02"


def run(tier, prop=PROP, keep=KEEP):
    ck = Check(prop, tier, "fault_enumeration")
    thorough = tier == "thorough"
    cf, cases = model(ck)
    lmax = 256 if thorough else 64
    nproc = min(14, NCPU)
    wd = workdir("aead")
    for cfg in ["stable", "nightly", RELEASE]:
        reps = parallel(cfg, lambda o, k, n: ["aead-tamper", cf, o, ck.seed, lmax if cfg == "stable" else min(lmax, 24 if cfg == "nightly" else 12), k, n], nproc, os.path.join(wd, "tp_" + cfg))
        route(ck, reps, "" if cfg == "stable" else "[%s] " % cfg, keep)
    # (the stream code has paths of its own under the simd_backend feature and under the optimised profile)
    for cfg in ["stable", RELEASE, "simd"]:
        reps = parallel(cfg, lambda o, k, n: ["stream-tamper", o, ck.seed, (60 if thorough else 24) if cfg == "stable" else 12, k, n], nproc, os.path.join(wd, "stp_" + cfg))
        route(ck, reps, "[stream] " if cfg == "stable" else "[stream, %s] " % cfg, keep)
    rows = len(set((c["cons"], c["open"], c["fault"]) for c in cases))
    if not ck.cov["distinct_nontrivial"]:
        ck.cov["distinct_nontrivial"] = rows * (lmax + 1)
    ck.cov["spec_rows"] = rows
    ck.cov["exhaustive"] = True
    ck.cov["rule"] = ("fault table from MCAead.tla (construction x open variant x fault kind in {tag, body, nonce, symmetric key, sealed epk bit flips; truncate; extend}) with the verdict the spec derives; "
                      "the harness applies each kind at EVERY position (every bit of the component, every truncation length, extensions 1..40) for every message length 0..%d, on every implementation of the open variant; "
                      "stream: every bit of ciphertext/header/key/AD, truncations, extensions, classic and object pull; distinct = (row, length)" % lmax)
    ck.assumptions += ["a false alarm needs a Poly1305 forgery", "X25519 secret-key bits ignored by clamping are not in the fault list (the property names the symmetric key and the sealed-box ephemeral public key)"]
    return ck.finish()


def replay(path):
    print(open(path).read()[:3000])
    return run("quick")
