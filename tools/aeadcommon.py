"""Shared by C01 / C02 / C17: MCAead.tla -> case matrix -> harness (parallel)."""
import json, os, subprocess
from common import *


def model(ck):
    r = run_tlc("MCAead", workers=8, timeout=1800, xss="512m")
    ck.require_tlc_ok(r, "Aead.tla invariants (VariantAgreement, RoundTrip, TamperRejected, RejectReleasesNothing, ShortIsError)")
    ck.require_actions(r, ["DoEncrypt", "DoFault", "DoOpen"])
    cases = [c for c in tlc_printed_json(r["out"]) if isinstance(c, dict) and "cons" in c]
    # cases with a roomy output buffer reach the same verdicts (VariantAgreement: the box does not depend on the buffer's length);
    # the harness runs its "output buffer longer than needed" implementations under every case, so they are not replayed twice
    roomy = [c for c in cases if c.get("room", 0) > 0]
    cases = [c for c in cases if c.get("room", 0) == 0]
    ck.cov["model_cases_with_roomy_output_buffer"] = len(roomy)
    if not roomy:
        raise ToolError("MCAead explored no output buffer longer than needed")
    if len(cases) < 1000:
        raise ToolError("MCAead printed only %d cases" % len(cases))
    # negative control: with the defect of /repo 946dcd9 switched on in the model (the whole output buffer is encrypted and
    # authenticated) VariantAgreement must fail - the model is able to see that class of defect
    n = run_tlc("MCAead", cfg="MCAeadWholeBuffer", workers=2, timeout=600, xss="512m", coverage=False, name="MCAeadWholeBuffer")
    if n["ok"] or not any("VariantAgreement" in v for v in n["violated"]):
        raise ToolError("negative control: Aead.tla with WholeBuffer = TRUE does not violate VariantAgreement (%s)" % n["violated"])
    ck.cov["negative_control"] = "Aead.tla with WholeBuffer = TRUE violates VariantAgreement (expected)"
    wd = workdir("aead")
    cf = os.path.join(wd, "cases.ndjson")
    with open(cf, "w") as f:
        for c in cases:
            f.write(json.dumps(c) + "\n")
    return cf, cases


def parallel(config, argv_for, nproc, outprefix, timeout=3400):
    binp = build_harness(config)
    procs = []
    for k in range(nproc):
        o = "%s.%d.json" % (outprefix, k)
        if os.path.exists(o):
            os.remove(o)
        procs.append((o, subprocess.Popen([binp] + [str(a) for a in argv_for(o, k, nproc)], stdout=subprocess.PIPE, stderr=subprocess.STDOUT, text=True)))
    reps = []
    for o, p in procs:
        try:
            out, _ = p.communicate(timeout=timeout)
        except subprocess.TimeoutExpired:
            p.kill()
            raise ToolError("harness timed out")
        if p.returncode != 0 or not os.path.exists(o):
            raise_if_code_panic(out, [os.path.basename(binp)] + [str(a) for a in argv_for(o, 0, nproc)])
            raise ToolError("harness failed (%s):\n%s" % (p.returncode, (out or "")[-2500:]))
        reps.append(json.load(open(o)))
    return reps


def route(ck, reps, prefix, keep):
    """Merges reports; keeps failures whose key starts with one of `keep`; HARNESS keys are tool errors;
    the others are noted (they belong to a sibling property's check)."""
    other = {}
    for rep in reps:
        tool = [f for f in rep["failures"] if f["key"].startswith("HARNESS")]
        if tool:
            raise ToolError("harness/spec mismatch: %s" % json.dumps(tool[0])[:800])
        mine = [f for f in rep["failures"] if any(f["key"].startswith(k) for k in keep)]
        for f in rep["failures"]:
            if f not in mine:
                other[f["key"].split(":")[0][:40]] = other.get(f["key"].split(":")[0][:40], 0) + 1
        # counts beyond the listed failures
        nmine = sum(v for k, v in rep["counters"].items() if k.startswith("fail:") and any(k[5:].startswith(x) for x in keep))
        r2 = dict(rep)
        r2["failures"] = mine
        r2["nfail"] = nmine
        ck.add_report(r2, prefix)
    if other:
        ck.notes.append("failures belonging to sibling properties seen in this run: %s" % other)
