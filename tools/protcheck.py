"""C14 / C15 / C19 drivers: one pipeline, three views of Protected.tla."""
import json, os, time
from common import *
from protcommon import *

ACTS = ["Ctor", "HeapMlock", "Lock", "Unlock", "Protect", "Drop", "Clone", "Resize", "Fill"]

PLAN = {
    # prop: (mc cfg quick, mc cfg thorough, [gen cfgs quick], [gen cfgs thorough], sim cfg, level)
    "C14": ("MCProtected", "MCProtectedThorough", ["GenProtected"], ["GenProtectedThorough"], "GenProtectedSim", "model_checking"),
    "C15": ("MCProtected", "MCProtectedThorough", ["GenProtectedWipe"], ["GenProtectedWipeThorough", "GenProtected"], "GenProtectedSim", "model_checking"),
    "C19": ("MCProtectedC19", "MCProtectedC19Thorough", ["GenProtectedC19", "GenProtectedC19NA"], ["GenProtectedC19Thorough", "GenProtectedC19NA"], "GenProtectedSimC19", "model_checking"),
}

RULES = {
    "C14": "every behaviour of GenProtected.tla up to the depth bound (all constructors x both containers x 10 lengths, then every enabled operation sequence; handle 2 as clone target/bystander) plus random long behaviours from TLC -simulate; after every operation the page table of every allocation (rights + VM_LOCKED from /proc/self/smaps), guards, contents and VmLck are compared with the model, and raw accesses are probed in forked grandchildren",
    "C15": "every behaviour of the wipe-focused model (data-carrying containers, fill/resize up/down/clone/lock/unlock/drop to the depth bound) plus random long behaviours; the release observer (hook H2, memory scrubbed at allocate) must see zero non-zero bytes and the modelled size for every release event, and every allocation must be released exactly once; blocks of 16 pages and more (GenProtectedWipeLarge), and every wipe behaviour again in a process that called mlockall (only the wipe oracles are active there)",
    "C19": "every behaviour of the refusal model: lock budget k in {0..} (the k+1-th and all later mlock calls refused through an LD_PRELOAD interposer), every constructor and operation sequence to the depth bound; result class (Ok/Err/Panic) must equal the model's, bystander regions keep their page state, and everything is wiped and unlocked at the end; plus the lock requests the KERNEL refuses (a no-access region cannot be faulted in: GenProtectedC19NA, depth 5 over one handle) and decoders into locked containers (serde) under every budget",
}


def run_prop(prop, tier):
    mcq, mct, genq, gent, simcfg, level = PLAN[prop]
    thorough = tier == "thorough"
    ck = Check(prop, tier, level)
    r = run_tlc("MCProtected", mct if thorough else mcq, workers=8, timeout=3400)
    ck.require_tlc_ok(r, "Protected.tla invariants")
    ck.require_actions(r, ACTS)
    wd = workdir(prop.lower())
    total = 0
    for cfg in (gent if thorough else genq):
        cf = os.path.join(wd, cfg + ".ndjson")
        g, n = gen_cases(cfg, cf, name=prop + cfg)
        ck.require_tlc_ok(g, cfg)
        if n < 100:
            raise ToolError("%s produced only %d behaviours" % (cfg, n))
        total += n
        _replay_into(ck, prop, cf, os.path.join(wd, cfg), probe=True)
        if prop in ("C14", "C19") and cfg == (gent if thorough else genq)[0]:
            # the same behaviours under the optimised build profile (what the code does only inside a debug_assert! is gone there)
            _replay_into(ck, prop, cf, os.path.join(wd, cfg + "_release"), probe=False, config="nightly-release")
            total += n
            if prop == "C19":
                # ... and in a process that cannot write to its stderr (a diagnostic printed on the refusal path would panic there)
                _replay_into(ck, prop, cf, os.path.join(wd, cfg + "_nostderr"), probe=False, stderr_unwritable=True)
                total += n
    if prop == "C15":
        # blocks of 16 pages and more, and the same behaviours again in a process that pinned itself in RAM
        # (mlockall: every page locked whatever the library does) - only the wipe oracles are active there
        cf = os.path.join(wd, "GenProtectedWipeLarge.ndjson")
        g, n = gen_cases("GenProtectedWipeLarge", cf, name=prop + "large")
        ck.require_tlc_ok(g, "GenProtectedWipeLarge")
        if n < 50:
            raise ToolError("GenProtectedWipeLarge produced only %d behaviours" % n)
        total += 2 * n
        _replay_into(ck, prop, cf, os.path.join(wd, "large"), probe=False)
        _replay_into(ck, prop, cf, os.path.join(wd, "large_mlockall"), probe=False, mode="mlockall")
        wl = os.path.join(wd, (gent if thorough else genq)[0] + ".ndjson")
        if os.path.exists(wl):
            _replay_into(ck, prop, wl, os.path.join(wd, "wipe_mlockall"), probe=False, mode="mlockall")
            # ... with every drop happening while the thread unwinds from a (caught) panic, and in the optimised build profile
            # (debug assertions off): memory is given back wiped however the drop comes about and however the crate was built
            _replay_into(ck, prop, wl, os.path.join(wd, "wipe_unwind"), probe=False, mode="unwind")
            _replay_into(ck, prop, wl, os.path.join(wd, "wipe_release"), probe=False, config="nightly-release")
            _replay_into(ck, prop, cf, os.path.join(wd, "large_release"), probe=False, config="nightly-release")
            total += 2 * n
    # random long behaviours (spec-generated)
    cf = os.path.join(wd, "sim.ndjson")
    g, n = gen_cases(simcfg, cf, simulate="num=%d" % (4000 if thorough else 600), name=prop + "sim")
    if n < 50:
        raise ToolError("simulation produced only %d behaviours:\n%s" % (n, g["out"][-1500:]))
    # keep a bounded number (TLC's simulator keeps going until its own limits)
    cap = 20000 if thorough else 3000
    lines = open(cf).read().splitlines()[:cap]
    open(cf, "w").write("\n".join(lines) + "\n")
    total += len(lines)
    _replay_into(ck, prop, cf, os.path.join(wd, "sim"), probe=True)
    if prop in ("C14", "C15"):
        _trace_validation(ck, prop, wd, 600 if thorough else 150)
    ck.cov["behaviours_replayed"] = total
    ck.cov["traces_validated_against_impl"] = total
    if not ck.cov["distinct_nontrivial"]:
        ck.cov["distinct_nontrivial"] = total
    ck.cov["rule"] = RULES[prop]
    ck.cov["exhaustive"] = True
    ck.assumptions += ["Linux, 4 KiB pages (the harness instantiates HeapByteArray<N> for the ten modelled lengths)",
                       "kernel semantics of mprotect/mlock/munlock as modelled in Protected.tla; /proc/self/smaps is the kernel's view",
                       "glibc posix_memalign/free: a released block whose address was handed out again is not inspected as released"]
    return ck.finish()


def _direct(ev, prop, pg=4096):
    """Model-independent judgement of one recorded event (used when the trace spec rejects it): returns a list of
    property violations visible in the observation itself."""
    out = []
    obs = ev.get("obs", {})
    if prop == "C15":
        for r in obs.get("rel", []):
            if r["nz"] != 0:
                out.append("released memory not wiped: %d non-zero bytes of %d reach the allocator" % (r["nz"], r["size"]))
        return out
    if ev.get("ev") == "end":
        if any(a["live"] for a in obs.get("allocs", [])):
            out.append("allocation never released after the last drop")
        if ev.get("vmlck_kb", 0) != 0:
            out.append("residue after the last drop: VmLck not back to baseline")
    for r in obs.get("regs", []):
        if not r.get("alive") or not r.get("a") or r.get("len", 0) <= 0:
            continue
        if not r.get("contents_ok", True):
            out.append("contents changed by %s" % ev.get("op", ["?"])[0])
        pages = obs["allocs"][r["a"] - 1]["pages"]
        want = 0 if r["wrap"] == "Plain" else ({"RW": 0, "RO": 1}[r["pm"]] + (4 if r["lm"] == "Locked" else 0))
        for k in range((r["len"] + pg - 1) // pg):
            if pages[1 + k] != want:
                out.append("type state vs kernel: data page %d is not what the type says after %s" % (k + 1, ev.get("op", ["?"])[0]))
        # the page just before the data, and a page no more than one page beyond the end of the allocation, are inaccessible
        # (judged on the kernel's view alone: how many pages the block spans is the implementation's business)
        cap = obs["allocs"][r["a"] - 1]["cap"]
        nd = max(1, (cap + pg - 1) // pg)
        after = [pages[i] for i in (1 + nd, 2 + nd) if i < len(pages)]
        if pages[0] & 3 != 2 or not any(c & 3 == 2 for c in after):
            out.append("type state vs kernel: guard page missing after %s" % ev.get("op", ["?"])[0])
    return out


def _trace_validation(ck, prop, wd, runs):
    """impl -> spec: random operation sequences chosen by the Rust driver, validated against ProtectedTrace.tla."""
    build_shim()
    binp = build_harness("nightly")
    tr = os.path.join(wd, "trace.ndjson")
    env = dict(os.environ)
    env["LD_PRELOAD"] = SHIM
    rc, out = sh([binp, "prot-trace", tr, str(ck.seed), str(runs), "30"], env=env, timeout=3000)
    if rc != 0:
        raise ToolError("prot-trace failed:\n%s" % out[-2000:])
    evs = [json.loads(l) for l in open(tr)]
    for e in evs:
        if e["ev"] == "crash" and prop == "C14":
            ck.fail("process killed by signal %s during a random operation sequence" % e.get("signal"), {"trace": tr, "run": e.get("run")})
    t = run_tlc("ProtectedTrace", workers=1, env={"TRACE": tr}, deque=True, xss="1g", coverage=False, timeout=3000, name=prop + "trace")
    ck.add_tlc(t, "ProtectedTrace validation")
    rej = trace_rejection(t)
    if rej:
        idx = rej.get("event")
        direct = _direct(evs[idx - 1], prop) if idx else []
        # every later event is unexamined by TLC: judge them with the model-independent oracle too
        if idx:
            for e in evs[idx:]:
                direct += _direct(e, prop)
        if direct:
            for d in sorted(set(direct))[:5]:
                ck.fail(d, dict(rej, trace=tr))
        else:
            print("WARNING %s: a recorded operation sequence is not a behaviour of Protected.tla although no property violation is visible in it - update the specification: %s" % (prop, json.dumps(rej)[:300]))
            ck.cov["model_drift_traces"] = ck.cov.get("model_drift_traces", 0) + 1
    else:
        def _corrupt_prot(es):
            for e in es:
                if e.get("ev") == "op" and e.get("res") == "Ok":
                    for a in e["obs"]["allocs"]:
                        if a["live"] and len(a["pages"]) >= 3 and a["pages"][1] in (0, 4):
                            a["pages"][1] += 1       # a read-write data page observed as read-only
                            return "a read-write data page is recorded as read-only"
            return None
        if prop == "C14":
            binding_selftest(ck, "ProtectedTrace", None, tr, _corrupt_prot, "protected trace", timeout=3000)
        else:
            def _corrupt_rel(es):
                for e in es:
                    for r in e.get("obs", {}).get("rel", []):
                        if r["nz"] == 0 and r["size"] > 0:
                            r["nz"] = 3
                            return "a release is recorded with three non-zero bytes"
                return None
            binding_selftest(ck, "ProtectedTrace", None, tr, _corrupt_rel, "protected trace (release)", timeout=3000)
    ck.cov["trace_events_validated"] = len(evs)
    ck.cov["random_runs_validated_by_tlc"] = runs
    ck.cov["evaluations"] += len(evs)


def _replay_into(ck, prop, cases, outprefix, probe, mode=None, config="nightly", stderr_unwritable=False):
    rep = replay(cases, outprefix, nproc=min(14, NCPU), probe=probe, mode=mode, config=config, stderr_unwritable=stderr_unwritable)
    by = split_failures(rep)
    mine = list(by[prop])
    if prop == "C19":
        # "regions created earlier stay valid and correctly protected, and everything is still wiped and unlocked on drop":
        # page-state, residue and wipe failures count for C19 when the behaviour contains a refused request
        mine += [f for f in by["C14"] + by["C15"] if any(st.get("res") == "Err" for st in f["detail"].get("case", [])[1:])]
    rep2 = dict(rep)
    rep2["failures"] = mine
    rep2["nfail"] = len(mine)
    ck.add_report(rep2)
    if by["DRIFT"]:
        d = by["DRIFT"][0]["detail"].get("divergence", {}).get("info", {})
        print("WARNING %s: in %d behaviours the code's allocation behaviour no longer follows Protected.tla (first: %s); "
              "those behaviours were judged by the model-independent oracles only - update the specification" % (prop, len(by["DRIFT"]), json.dumps(d)[:300]))
        ck.cov["model_drift_behaviours"] = ck.cov.get("model_drift_behaviours", 0) + len(by["DRIFT"])
    others = {k: len(v) for k, v in by.items() if k not in (prop, "DRIFT") and v}
    if others:
        ck.notes.append("divergences belonging to other properties seen in this run (reported by their own checks): %s" % others)


def replay_file(prop, path):
    d = json.load(open(path))
    case = d["detail"].get("case")
    if not case:
        print("nothing to replay")
        return 2
    wd = workdir(prop.lower())
    cf = os.path.join(wd, "replay_one.ndjson")
    open(cf, "w").write(json.dumps(case) + "\n")
    rep = replay(cf, os.path.join(wd, "replay_one"), nproc=1, probe=True)
    print(json.dumps([f["key"] for f in rep["failures"]], indent=1))
    by = split_failures(rep)
    if by["DRIFT"]:
        print("model drift:", json.dumps(by["DRIFT"][0]["detail"].get("divergence"))[:400])
    if by[prop]:
        print("VIOLATION property=%s replay=%s" % (prop, path))
        return 1
    return 0
