"""C14 / C15 / C19 drivers: one pipeline, three views of Protected.tla."""
import json, os, time
from common import *
from protcommon import *

ACTS = ["Ctor", "HeapMlock", "Lock", "Unlock", "Protect", "Drop", "Clone", "Resize", "Fill"]

PLAN = {
    # prop: (mc cfg quick, mc cfg thorough, [gen cfgs quick], [gen cfgs thorough], sim cfg, level)
    "C14": ("MCProtected", "MCProtectedThorough", ["GenProtected"], ["GenProtectedThorough"], "GenProtectedSim", "model_checking"),
    "C15": ("MCProtected", "MCProtectedThorough", ["GenProtectedWipe"], ["GenProtectedWipeThorough", "GenProtected"], "GenProtectedSim", "model_checking"),
    "C19": ("MCProtectedC19", "MCProtectedC19Thorough", ["GenProtectedC19"], ["GenProtectedC19Thorough"], "GenProtectedSimC19", "model_checking"),
}

RULES = {
    "C14": "every behaviour of GenProtected.tla up to the depth bound (all constructors x both containers x 10 lengths, then every enabled operation sequence; handle 2 as clone target/bystander) plus random long behaviours from TLC -simulate; after every operation the page table of every allocation (rights + VM_LOCKED from /proc/self/smaps), guards, contents and VmLck are compared with the model, and raw accesses are probed in forked grandchildren",
    "C15": "every behaviour of the wipe-focused model (data-carrying containers, fill/resize up/down/clone/lock/unlock/drop to the depth bound) plus random long behaviours; the release observer (hook H2, memory scrubbed at allocate) must see zero non-zero bytes and the modelled size for every release event, and every allocation must be released exactly once",
    "C19": "every behaviour of the refusal model: lock budget k in {0..} (the k+1-th and all later mlock calls refused through an LD_PRELOAD interposer), every constructor and operation sequence to the depth bound; result class (Ok/Err/Panic) must equal the model's, bystander regions keep their page state, and everything is wiped and unlocked at the end",
}


def run_prop(prop, tier):
    mcq, mct, genq, gent, simcfg, level = PLAN[prop]
    thorough = tier == "thorough"
    ck = Check(prop, tier, level)
    r = run_tlc("MCProtected", mct if thorough else mcq, workers=8, timeout=3400)
    ck.require_tlc_ok(r, "Protected.tla invariants")
    ck.require_actions(r, ACTS)
    wd = workdir(prop.lower())
    total = 0
    for cfg in (gent if thorough else genq):
        cf = os.path.join(wd, cfg + ".ndjson")
        g, n = gen_cases(cfg, cf, name=prop + cfg)
        ck.require_tlc_ok(g, cfg)
        if n < 100:
            raise ToolError("%s produced only %d behaviours" % (cfg, n))
        total += n
        _replay_into(ck, prop, cf, os.path.join(wd, cfg), probe=True)
    # random long behaviours (spec-generated)
    cf = os.path.join(wd, "sim.ndjson")
    g, n = gen_cases(simcfg, cf, simulate="num=%d" % (4000 if thorough else 600), name=prop + "sim")
    if n < 50:
        raise ToolError("simulation produced only %d behaviours:\n%s" % (n, g["out"][-1500:]))
    # keep a bounded number (TLC's simulator keeps going until its own limits)
    cap = 20000 if thorough else 3000
    lines = open(cf).read().splitlines()[:cap]
    open(cf, "w").write("\n".join(lines) + "\n")
    total += len(lines)
    _replay_into(ck, prop, cf, os.path.join(wd, "sim"), probe=True)
    ck.cov["behaviours_replayed"] = total
    ck.cov["traces_validated_against_impl"] = total
    ck.cov["distinct_nontrivial"] = total
    ck.cov["rule"] = RULES[prop]
    ck.cov["exhaustive"] = True
    ck.assumptions += ["Linux, 4 KiB pages (the harness instantiates HeapByteArray<N> for the ten modelled lengths)",
                       "kernel semantics of mprotect/mlock/munlock as modelled in Protected.tla; /proc/self/smaps is the kernel's view",
                       "glibc posix_memalign/free: a released block whose address was handed out again is not inspected as released"]
    return ck.finish()


def _replay_into(ck, prop, cases, outprefix, probe):
    rep = replay(cases, outprefix, nproc=min(14, NCPU), probe=probe)
    by = split_failures(rep)
    rep2 = dict(rep)
    rep2["failures"] = by[prop]
    rep2["nfail"] = len(by[prop])
    ck.add_report(rep2)
    if by["DRIFT"]:
        d = by["DRIFT"][0]["detail"].get("divergence", {}).get("info", {})
        print("WARNING %s: in %d behaviours the code's allocation behaviour no longer follows Protected.tla (first: %s); "
              "those behaviours were judged by the model-independent oracles only - update the specification" % (prop, len(by["DRIFT"]), json.dumps(d)[:300]))
        ck.cov["model_drift_behaviours"] = ck.cov.get("model_drift_behaviours", 0) + len(by["DRIFT"])
    others = {k: len(v) for k, v in by.items() if k not in (prop, "DRIFT") and v}
    if others:
        ck.notes.append("divergences belonging to other properties seen in this run (reported by their own checks): %s" % others)


def replay_file(prop, path):
    d = json.load(open(path))
    case = d["detail"].get("case")
    if not case:
        print("nothing to replay")
        return 2
    wd = workdir(prop.lower())
    cf = os.path.join(wd, "replay_one.ndjson")
    open(cf, "w").write(json.dumps(case) + "\n")
    rep = replay(cf, os.path.join(wd, "replay_one"), nproc=1, probe=True)
    print(json.dumps([f["key"] for f in rep["failures"]], indent=1))
    by = split_failures(rep)
    if by["DRIFT"]:
        print("model drift:", json.dumps(by["DRIFT"][0]["detail"].get("divergence"))[:400])
    if by[prop]:
        print("VIOLATION property=%s replay=%s" % (prop, path))
        return 1
    return 0
