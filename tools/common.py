"""Shared plumbing for the checks: TLC runs, harness builds, evidence, known findings, verdicts."""
import json, os, re, subprocess, sys, time, hashlib, shutil

VERIF = os.path.dirname(os.path.dirname(os.path.abspath(__file__)))
SPEC = os.path.join(VERIF, "spec")
WORK = os.path.join(VERIF, "work")
HARNESS = os.path.join(VERIF, "harness")
# trial runs against seeded changes (tools/try_mutant*.sh) write their evidence elsewhere, so that evidence/ only ever
# holds what a run on the current tree produced
EVID = os.environ.get("VERIF_EVIDENCE_DIR") or os.path.join(VERIF, "evidence")
os.makedirs(EVID, exist_ok=True)
REPO = "/repo"
NCPU = os.cpu_count() or 4


class ToolError(Exception):
    pass


class CodePanic(ToolError):
    """The harness process was brought down by a panic raised inside dryoc (/repo/src) that no family of the harness expects:
    the code under test panicked on an input of the sweep.  A panic is data - checks/run reports it as a violation."""
    def __init__(self, where, what, cmd):
        super().__init__("panic inside dryoc at %s: %s" % (where, what))
        self.where, self.what, self.cmd = where, what, cmd


def raise_if_code_panic(out, cmd):
    """`out` is the output of a harness process that exited abnormally."""
    m = re.search(r"panicked at (/repo/src/[^:\s]+:\d+)(?::\d+)?:?\s*\n?([^\n]*)", out or "")
    if m:
        raise CodePanic(m.group(1), m.group(2).strip()[:300], " ".join(str(c) for c in cmd)[:300])


def seed():
    try:
        return int(os.environ.get("VERIF_SEED", "1"))
    except ValueError:
        return 1


def workdir(name):
    d = os.path.join(WORK, name)
    os.makedirs(d, exist_ok=True)
    return d


def sh(cmd, cwd=None, env=None, timeout=None, check=False):
    e = dict(os.environ)
    if env:
        e.update(env)
    try:
        p = subprocess.run(cmd, cwd=cwd, env=e, timeout=timeout, stdout=subprocess.PIPE, stderr=subprocess.STDOUT, text=True, errors="replace")
    except subprocess.TimeoutExpired as ex:
        raise ToolError("timeout after %ss: %s" % (timeout, " ".join(cmd[:6])))
    if check and p.returncode != 0:
        raise ToolError("command failed (%d): %s\n%s" % (p.returncode, " ".join(cmd[:8]), p.stdout[-3000:]))
    return p.returncode, p.stdout


# ------------------------------------------------------------------------------------------ TLC
def run_tlc(module, cfg=None, workers=8, env=None, name=None, simulate=None, coverage=True,
            timeout=1800, deque=False, xss="256m", xmx=None, cwd=SPEC, extra=None):
    """Runs TLC on spec/<module>.tla. Returns a dict; raises ToolError on parse errors/timeouts."""
    name = name or module
    meta = os.path.join(WORK, "tlc-" + name + "-%d" % os.getpid())
    shutil.rmtree(meta, ignore_errors=True)
    jopts = "-Xss%s" % xss
    if deque:
        jopts += " -Dtlc2.tool.queue.IStateQueue=StateDeque"
    if xmx:
        jopts += " -Xmx%s" % xmx
    # JDK_JAVA_OPTIONS sizes the main thread too (ASSUMEs and Init are evaluated there)
    e = {"JAVA_TOOL_OPTIONS": jopts, "JDK_JAVA_OPTIONS": "-Xss%s" % xss}
    if env:
        e.update(env)
    # no checkpoints: nothing is ever resumed, and the depth-first queue cannot be checkpointed (a run that reaches
    # the default 30-minute checkpoint would die with UnsupportedOperationException)
    cmd = ["tlc", "-workers", str(workers), "-metadir", meta, "-cleanup", "-noGenerateSpecTE", "-checkpoint", "0"]
    if coverage:
        cmd += ["-coverage", "1"]
    if simulate:
        cmd += ["-simulate", simulate]
    if extra:
        cmd += extra
    cmd += ["-config", (cfg or module) + ".cfg", module + ".tla"]
    t0 = time.time()
    try:
        rc, out = sh(cmd, cwd=cwd, env=e, timeout=timeout)
    finally:
        shutil.rmtree(meta, ignore_errors=True)
    r = {"module": module, "cfg": cfg or module, "rc": rc, "out": out, "wall_s": round(time.time() - t0, 2),
         "cmd": " ".join(cmd)}
    m = re.search(r"(\d+) states generated, (\d+) distinct states found", out)
    if m:
        r["generated"], r["distinct"] = int(m.group(1)), int(m.group(2))
    m = re.search(r"depth of the complete state graph search is (\d+)", out)
    if m:
        r["diameter"] = int(m.group(1))
    if "Parsing or semantic analysis failed" in out or "Error: TLC threw an unexpected exception" in out and "generated" not in r:
        raise ToolError("TLC could not run %s:\n%s" % (module, out[-3000:]))
    r["ok"] = ("Model checking completed. No error has been found." in out) or (simulate is not None and rc == 0 and "Error:" not in out)
    r["violated"] = re.findall(r"Error: (?:Invariant|Action property|Temporal property|Postcondition|Assumption)[^\n]*", out)
    if not r["ok"] and not r["violated"]:
        m = re.search(r"Error: [^\n]*", out)
        r["violated"] = [m.group(0)] if m else ["TLC failed without a recognised message"]
    if coverage:
        r["actions"] = action_coverage(out)
    return r


def action_coverage(out):
    """{action name or location: number of states it produced} from -coverage output."""
    acts = {}
    for m in re.finditer(r"^<(\w+) line (\d+), col (\d+) to line (\d+), col (\d+) of module (\w+)>: (\d+):(\d+)", out, re.M):
        key = "%s@%s:%s" % (m.group(1), m.group(6), m.group(2))
        acts[key] = max(acts.get(key, 0), int(m.group(8)))
    return acts


def tlc_printed_json(out):
    """Lines printed with PrintT(ToJson(x)) -> list of python objects."""
    res = []
    for line in out.splitlines():
        if line.startswith('"[') or line.startswith('"{'):
            try:
                res.append(json.loads(json.loads(line)))
            except Exception:
                pass
    return res


def trace_rejection(t):
    """None if the trace spec accepted the recording; else what TLC said (a verdict about the code).
    Anything that is not a rejection/invariant/property failure is a tool error."""
    if t["ok"]:
        return None
    m = re.search(r'"REJECT at event",\s*(\d+),\s*(.*?)>>\n', t["out"], re.S)
    if m:
        return {"event": int(m.group(1)), "record": re.sub(r"\s+", " ", m.group(2))[:600], "tlc": t["violated"]}
    if any(("Invariant" in v or "property" in v) for v in t["violated"]):
        tail = t["out"][t["out"].find("Error:"):][:3000]
        return {"event": None, "tlc": t["violated"], "tail": tail}
    raise ToolError("%s: %s\n%s" % (t["module"], t["violated"], t["out"][-2000:]))


def spec_hash(*files):
    h = hashlib.sha256()
    for f in files:
        with open(os.path.join(SPEC, f), "rb") as fh:
            h.update(fh.read())
    return h.hexdigest()[:16]


# ------------------------------------------------------------------------------------------ harness
_built = {}


def binding_selftest(ck, module, cfg, trace_path, corrupt, label, **tlc_kw):
    """Demonstrates that the trace specification is bound to what was recorded: a copy of the accepted recording with
    ONE field changed (by `corrupt(events) -> description or None`) must be rejected.  An accepted corrupted trace means
    the trace specification constrains nothing there: a tool error (vacuous binding), never a verdict about the code."""
    evs = [json.loads(l) for l in open(trace_path)]
    what = corrupt(evs)
    if what is None:
        ck.notes.append("binding self-test (%s): no suitable event to corrupt in this recording" % label)
        return
    bad = trace_path + ".corrupt"
    with open(bad, "w") as f:
        for e in evs:
            f.write(json.dumps(e) + "\n")
    t = run_tlc(module, cfg, workers=1, env={"TRACE": bad}, deque=True, xss="1g", coverage=False, name=label.replace(" ", "") + "selftest", **tlc_kw)
    if trace_rejection(t) is None and t.get("ok"):
        raise ToolError("%s accepts a recording in which %s: the trace specification is not bound to the implementation there" % (module, what))
    ck.cov.setdefault("binding_selftests", []).append({"trace_spec": module, "corruption": what, "rejected": True})


def repo_content_hash():
    """Content hash of everything in /repo that reaches the build (cargo's own freshness test is by mtime only)."""
    import hashlib
    h = hashlib.sha256()
    files = []
    for root, dirs, fs in os.walk(os.path.join(REPO, "src")):
        dirs.sort()
        files += [os.path.join(root, f) for f in sorted(fs)]
    for f in ("Cargo.toml", "Cargo.lock", "build.rs"):
        if os.path.exists(os.path.join(REPO, f)):
            files.append(os.path.join(REPO, f))
    for f in files:
        h.update(f.encode()); h.update(b"\0")
        with open(f, "rb") as fh:
            h.update(fh.read())
    return h.hexdigest()


def ensure_fresh(target_dir):
    """Forces cargo to rebuild dryoc when /repo's content differs from what this target directory was last built from
    (a tree swapped in with older modification times would otherwise be taken for unchanged)."""
    import glob, shutil
    want = repo_content_hash()
    stamp = os.path.join(target_dir, ".repo_content_hash")
    have = open(stamp).read().strip() if os.path.exists(stamp) else ""
    if have != want:
        for d in glob.glob(os.path.join(target_dir, "*", ".fingerprint", "dryoc-*")):
            shutil.rmtree(d, ignore_errors=True)
        os.makedirs(target_dir, exist_ok=True)
        with open(stamp, "w") as f:
            f.write(want)


_env_ok = None


def require_lockable_memory():
    """The protected-memory checks observe real mlock/mprotect: in an environment that cannot lock a few pages at all
    (RLIMIT_MEMLOCK without CAP_IPC_LOCK, seccomp) every lock is refused and nothing can be judged - a tool error, never a verdict."""
    global _env_ok
    if _env_ok is None:
        import ctypes, mmap
        libc = ctypes.CDLL(None, use_errno=True)
        n = 64 * mmap.PAGESIZE
        m = mmap.mmap(-1, n)
        addr = ctypes.addressof(ctypes.c_char.from_buffer(m))
        rc = libc.mlock(ctypes.c_void_p(addr), ctypes.c_size_t(n))
        err = ctypes.get_errno()
        if rc == 0:
            libc.munlock(ctypes.c_void_p(addr), ctypes.c_size_t(n))
        _env_ok = (rc == 0, err)
    if not _env_ok[0]:
        raise ToolError("this environment cannot lock memory (mlock of 64 pages fails with errno %d): protected-memory checks cannot run here" % _env_ok[1])


# the optimised profile: debug assertions and overflow checks compiled out.  Every check replays the core of its sweep under it
# as well ("[nightly-release] " in reports): what the code does only inside a debug_assert! it does not do there
RELEASE = "nightly-release"


def build_harness(config="stable"):
    """Builds the harness against /repo's working tree. config: stable | nightly | simd."""
    if config in _built:
        return _built[config]
    if config in ("nightly", "simd", "nightly-release"):
        require_lockable_memory()      # the nightly harness holds keys in locked containers throughout
    ensure_fresh(os.path.join(HARNESS, "target", config))
    cmd = ["cargo"]
    feats = []
    if config in ("nightly", "simd", "nightly-release"):
        cmd.append("+nightly")
        feats = ["nightly"] + (["simd"] if config == "simd" else [])
    cmd += ["build", "--offline", "--target-dir", "target/" + config]
    # nightly-release: the optimised profile (debug assertions and overflow checks off) - what a library does only inside a
    # debug_assert!, or only when an overflow check fires, it does not do there
    if config == "nightly-release":
        cmd.append("--release")
    if feats:
        cmd += ["--features", ",".join(feats)]
    rc, out = sh(cmd, cwd=HARNESS, timeout=1800, env={"CARGO_NET_OFFLINE": "true"})
    if rc != 0:
        raise ToolError("harness build (%s) failed:\n%s" % (config, out[-4000:]))
    binp = os.path.join(HARNESS, "target", config, "release" if config == "nightly-release" else "debug", "conform")
    _built[config] = binp
    return binp


def conform(config, args, timeout=3600, env=None, cwd=None):
    binp = build_harness(config)
    rc, out = sh([binp] + [str(a) for a in args], timeout=timeout, env=env, cwd=cwd)
    if rc != 0:
        raise_if_code_panic(out, [os.path.basename(binp)] + list(args))
        raise ToolError("harness %s exited with %d:\n%s" % (args[0], rc, out[-3000:]))
    return out


# ------------------------------------------------------------------------------------------ findings / verdict
def load_known():
    p = os.path.join(VERIF, "known_findings.jsonl")
    res = []
    if os.path.exists(p):
        for line in open(p):
            line = line.strip()
            if line and not line.startswith("#"):
                res.append(json.loads(line))
    return res


class Check:
    """Accumulates what one check run did and turns it into evidence + exit status."""

    def __init__(self, prop, tier, level):
        self.prop, self.tier, self.level = prop, tier, level
        self.t0 = time.time()
        self.seed = seed()
        self.cov = {"evaluations": 0, "distinct_nontrivial": 0, "rule": "", "samples": []}
        self.assumptions = []
        self.failures = []      # (key, detail)
        self.notes = []

    def fail(self, key, detail):
        self.failures.append((key, detail))

    def add_report(self, rep, prefix=""):
        """Merges a harness report (common.rs Report)."""
        self.cov["evaluations"] += rep.get("evaluations", 0)
        # distinct non-trivial cases as counted by the harness itself (distinct case keys)
        self.cov["distinct_nontrivial"] += rep.get("distinct", 0)
        self._measured = True
        for f in rep.get("failures", []):
            self.fail(prefix + f["key"], f["detail"])
        extra = rep.get("nfail", 0) - len(rep.get("failures", []))
        if extra > 0:
            self.notes.append("%d further failures not listed individually" % extra)
            self.unlisted = getattr(self, "unlisted", 0) + extra
            listed = set(f["key"] for f in rep.get("failures", []))
            for k, v in rep.get("counters", {}).items():
                if k.startswith("fail:") and k[5:] not in listed and not k[5:].startswith("DRIFT") and "DRIFT" not in k:
                    self.fail(prefix + k[5:], {"count": v, "note": "no example recorded"})
        for s in rep.get("samples", []):
            if len(self.cov["samples"]) < 6:
                self.cov["samples"].append(s)
        c = self.cov.setdefault("counters", {})
        for k, v in rep.get("counters", {}).items():
            if not k.startswith("fail:"):
                c[prefix + k] = c.get(prefix + k, 0) + v

    def add_tlc(self, r, label=None):
        t = self.cov.setdefault("tlc_runs", [])
        t.append({"module": r["module"], "cfg": r["cfg"], "generated": r.get("generated"), "distinct": r.get("distinct"),
                  "diameter": r.get("diameter"), "wall_s": r["wall_s"], "ok": r["ok"], "label": label or r["module"]})
        self.cov["states"] = self.cov.get("states", 0) + (r.get("distinct") or 0)
        self.cov["transitions"] = self.cov.get("transitions", 0) + (r.get("generated") or 0)

    def require_tlc_ok(self, r, what):
        """A TLC failure on the *model* is a tool/spec error (exit 2), never a verdict about the code."""
        self.add_tlc(r, what)
        if not r["ok"]:
            raise ToolError("%s: TLC reported %s\n%s" % (what, r["violated"], r["out"][-2500:]))

    def require_actions(self, r, names):
        """Vacuity guard: every named action must have produced at least one state."""
        acts = r.get("actions", {})
        missing = []
        for n in names:
            if not any(k.startswith(n + "@") and v > 0 for k, v in acts.items()):
                missing.append(n)
        if missing:
            raise ToolError("vacuous model: actions never taken in %s: %s" % (r["module"], missing))
        self.cov.setdefault("actions_covered", {})[r["module"]] = {k: v for k, v in acts.items()}

    def finish(self):
        known = [k for k in load_known() if k.get("property") == self.prop and k.get("status") == "known"]
        rdir = workdir("replay")
        viol, knownhits = [], {}
        for key, detail in self.failures:
            hit = None
            for k in known:
                if re.fullmatch(k["key"], key):
                    hit = k
                    break
            if hit:
                knownhits.setdefault(hit["key"], [hit, 0])[1] += 1
            else:
                viol.append((key, detail))
        for hk, (k, n) in knownhits.items():
            print("KNOWN-FINDING: property=%s %s (%d cases this run)" % (self.prop, k.get("what", hk), n))
        lines = []
        import glob
        for old in glob.glob(os.path.join(rdir, "%s-%s-*.json" % (self.prop, self.tier))):   # replay files of an earlier run
            os.remove(old)
        for n, (key, detail) in enumerate(viol[:20]):
            path = os.path.join(rdir, "%s-%s-%d.json" % (self.prop, self.tier, n))
            with open(path, "w") as f:
                json.dump({"property": self.prop, "key": key, "detail": detail, "seed": self.seed}, f, indent=1)
            lines.append("VIOLATION property=%s replay=%s" % (self.prop, path))
            print("  what: %s" % key)
        for l in lines:
            print(l)
        if len(viol) > 20:
            print("(%d more violations not listed)" % (len(viol) - 20))
        self.cov["known_findings_hit"] = {k: v[1] for k, v in knownhits.items()}
        if self.notes:
            self.cov["notes"] = self.notes
        ev = {"property_id": self.prop, "tier": self.tier, "seed": self.seed, "level": self.level,
              "coverage": self.cov, "assumptions": self.assumptions, "wall_s": round(time.time() - self.t0, 2),
              "violations": len(viol)}
        os.makedirs(EVID, exist_ok=True)
        with open(os.path.join(EVID, self.prop + ".json"), "w") as f:
            json.dump(ev, f, indent=1, default=str)
        print("%s %s: %d evaluations, %d violations, %d known findings hit, %.1fs" % (
            self.prop, self.tier, self.cov["evaluations"], len(viol), len(knownhits), time.time() - self.t0))
        return 1 if viol else 0
