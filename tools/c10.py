"""C10: password-hash strings are self-describing and interoperate with libsodium (PwStr.tla + pwstr harness)."""
import json, os
from common import *
import pwstr


def run(tier):
    ck = Check("C10", tier, "exploration")
    r, table = pwstr.model()
    ck.require_tlc_ok(r, "PwStr.tla (ParseEncode, EncodeParse, RehashTable, ParseTotal)")
    wd = workdir("c10")
    tf = os.path.join(wd, "table.json")
    json.dump(table, open(tf, "w"))
    for s in range(20 if tier == "thorough" else 1):
        o = os.path.join(wd, "out.json")
        conform("stable", ["pwstr", tf, o, ck.seed + s, (2 if tier == "thorough" else 1) if s == 0 else 0], timeout=3000)
        ck.add_report(json.load(open(o)))
    # nightly build: the same table with heap and locked containers added
    o = os.path.join(wd, "out_nightly.json")
    conform("nightly", ["pwstr", tf, o, ck.seed, 0], timeout=3000)
    ck.add_report(json.load(open(o)), prefix="[nightly] ")
    o = os.path.join(wd, "out_release.json")
    conform(RELEASE, ["pwstr", tf, o, ck.seed, 0], timeout=3000)
    ck.add_report(json.load(open(o)), prefix="[%s] " % RELEASE)
    if not ck.cov["distinct_nontrivial"]:
        ck.cov["distinct_nontrivial"] = len(table["valid"]) + len(table["rehash"])
    ck.cov["rule"] = ("objects = algorithm x t x m x salt length {8,15,16,17,64} x hash length {16,31,32,33,128} of PwStr.tla (%d), each hashed, encoded as the spec prescribes, "
                      "verified by libsodium and by dryoc (classic + object) for the right and a wrong password, parsed and re-encoded; needs-rehash truth table (%d rows) against dryoc and libsodium; "
                      "40 libsodium-produced strings per algorithm verified under dryoc and dryoc-produced strings under libsodium; stock profiles hash_interactive / hash_moderate (thorough: hash_sensitive) carry libsodium's cost constants and verify under libsodium" % (len(table["valid"]), len(table["rehash"])))
    ck.assumptions += ["small costs (t <= 4, m <= 1 MiB)", "the classic crypto_pwhash_str_verify is judged on 32-byte hashes only (libsodium's string format); variable lengths belong to the object API",
                       "libsodium's crypto_pwhash_str_verify is the independent verifier for every salt/hash length"]
    return ck.finish()


def replay(path):
    print(open(path).read()[:3000])
    return run("quick")
