"""C03: secret streams — TLC on Stream.tla, behaviours replayed into dryoc/libsodium, recorded traces validated."""
import json, os
from common import *

PUSH_ACTS = ["Push", "RekeyPush", "RekeyPull", "Pull"]


def run(tier):
    ck = Check("C03", tier, "model_checking")
    thorough = tier == "thorough"
    # 1. the design: exhaustive over all interleavings within the bounds
    r = run_tlc("MCStream", "MCStreamThorough" if thorough else "MCStream", workers=8, timeout=3000)
    ck.require_tlc_ok(r, "MCStream invariants")
    ck.require_actions(r, PUSH_ACTS)
    # 2. behaviours for replay (canonical two-phase schedule)
    g = run_tlc("GenStream", "GenStreamThorough" if thorough else "GenStream", workers=8, coverage=False, timeout=3000)
    ck.require_tlc_ok(g, "GenStream generation")
    cases = tlc_printed_json(g["out"])
    if len(cases) < 1000:
        raise ToolError("GenStream produced only %d behaviours" % len(cases))
    wd = workdir("c03")
    cf = os.path.join(wd, "cases.ndjson")
    with open(cf, "w") as f:
        for c in cases:
            f.write(json.dumps(c) + "\n")
    # 3. replay against dryoc classic, DryocStream and libsodium in lockstep
    nseeds = 3 if thorough else 1
    for k in range(nseeds):
        rp = os.path.join(wd, "replay.json")
        conform("stable", ["stream-replay", cf, rp, ck.seed + k])
        ck.add_report(json.load(open(rp)))
    ck.cov["behaviours_replayed"] = len(cases) * nseeds
    # 4. recorded traces of the real code checked against the specification
    ntr, nops = (300, 150) if thorough else (40, 120)
    tr = os.path.join(wd, "trace.ndjson")
    conform("stable", ["stream-trace", ck.seed, ntr, nops, tr])
    nev = sum(1 for _ in open(tr))
    t = run_tlc("StreamTrace", workers=1, env={"TRACE": tr}, deque=True, xss="1g", coverage=False, timeout=1800)
    ck.add_tlc(t, "StreamTrace validation")
    rej = trace_rejection(t)
    if rej:
        rej["trace"] = tr
        ck.fail("trace rejected by Stream.tla", rej)
    def _corrupt_stream(evs):
        for e in evs:
            if e.get("ev") == "pull" and e.get("mut") == "none" and e.get("res") == "Ok":
                e["res"] = "Err"; e["tag"] = -1
                return "a genuine in-order pull is recorded as rejected"
        return None
    if not rej:
        binding_selftest(ck, "StreamTrace", None, tr, _corrupt_stream, "stream trace", timeout=1800)
    # 5. the object API as a user holds it (constructors choose the header; every container), both directions vs libsodium
    for cfg in ["stable", "nightly", RELEASE]:
        sp = os.path.join(wd, "session_%s.json" % cfg)
        conform(cfg, ["stream-session", sp, ck.seed, 200 if thorough and cfg != RELEASE else 40, 60])
        ck.add_report(json.load(open(sp)), prefix="[%s] " % cfg if cfg != "stable" else "")
    # 6. first messages crafted so that the Poly1305 accumulator reaches a rare value inside or at the end of the MAC
    import polycraft
    sv = polycraft.stream_vectors(5 if thorough else 2)
    vf = os.path.join(wd, "polycraft_stream.json")
    json.dump(sv, open(vf, "w"))
    for cfg in ["stable", "nightly"]:
        o = os.path.join(wd, "polycraft_%s.json" % cfg)
        conform(cfg, ["stream-vectors", vf, o])
        r_ = json.load(open(o))
        if any(f["key"].startswith("HARNESS") for f in r_["failures"]):
            raise ToolError("crafted stream vectors disagree with libsodium: %s" % json.dumps(r_["failures"][0])[:500])
        ck.add_report(r_, prefix="[%s] " % cfg if cfg != "stable" else "")
    ck.cov["crafted_poly1305_corner_messages"] = len(sv)
    ck.cov["traces_validated_against_impl"] = ntr
    ck.cov["trace_events"] = nev
    ck.cov["evaluations"] += nev
    if not ck.cov["distinct_nontrivial"]:
        ck.cov["distinct_nontrivial"] = len(cases)
    ck.cov["rule"] = ("behaviours = complete runs of GenStream.tla (every push/rekey history up to the bound from every counter class, "
                      "then every canonical delivery incl. one wrong presentation), distinct by construction (TLC distinct states with the log in the state); "
                      "each replayed on dryoc classic + DryocStream + libsodium; message/AD lengths rotate through 0..80,127,128,129,1023 / None,0,1,15..300")
    ck.cov["exhaustive"] = True
    ck.assumptions += ["symbolic crypto: a MAC verifies iff key stream position, AD and bytes are the ones it was computed for",
                       "libsodium (libsodium-sys 0.2.7, built from source) is the byte-level reference",
                       "counter classes 1, 0x7ffffffe, 0xfffffffe, 0xffffffff preset through hook H1"]
    if cases:
        ck.cov["samples"] = [cases[0], cases[len(cases) // 2]] + ck.cov["samples"][:2]
    return ck.finish()


def replay(path):
    d = json.load(open(path))
    det = d["detail"]
    if "case" in det:
        wd = workdir("c03")
        cf = os.path.join(wd, "replay_case.ndjson")
        with open(cf, "w") as f:
            f.write(json.dumps(det["case"]) + "\n")
        rp = os.path.join(wd, "replay_one.json")
        conform("stable", ["stream-replay", cf, rp, det.get("seed", 1), det.get("case_index", 0)])
        r = json.load(open(rp))
        print(json.dumps(r["failures"], indent=1)[:4000])
        if r["nfail"]:
            print("VIOLATION property=C03 replay=%s" % path)
            return 1
        return 0
    if "trace" in det:
        t = run_tlc("StreamTrace", workers=1, env={"TRACE": det["trace"]}, deque=True, xss="1g", coverage=False)
        print(t["out"][-1500:])
        if not t["ok"]:
            print("VIOLATION property=C03 replay=%s" % path)
            return 1
        return 0
    print("nothing to replay in", path)
    return 2
