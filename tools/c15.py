from protcheck import run_prop, replay_file
def run(tier): return run_prop("C15", tier)
def replay(path): return replay_file("C15", path)
