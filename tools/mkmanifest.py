#!/usr/bin/env python3
"""Regenerates MANIFEST.json from the table below (one row per property)."""
import json, os, subprocess
V = os.path.dirname(os.path.dirname(os.path.abspath(__file__)))
ids = [json.loads(l)["id"] for l in open(os.path.join(V, "properties.jsonl"))]

# id -> (category, text, design_ref, level_note, technique)
ROWS = {
 "C03": ("model_checking",
         "TLC explores every interleaving of push/pull/rekey/wrong-delivery of Stream.tla within the bounds and checks Lockstep, PrefixAuth, RejectIsStutter, WrapRekeys; every complete behaviour of the generation model is replayed on dryoc classic, DryocStream and libsodium with states compared after each call; random recorded traces of the real API are validated against the same specification",
         "DESIGN.md §3.2 Stream, §7 C03",
         "symbolic MAC (verifies iff bound to the same stream position, AD and bytes); libsodium-sys as byte reference; counter classes preset via hook H1",
         "TLA+ spec + TLC model checking; spec->impl behaviour replay; impl->spec trace validation"),
 "C14": ("model_checking",
         "TLC checks TypeKernelAgree, NoResidue, NoStray, NoLeak, ContentsStable on Protected.tla (type state x per-page kernel state x allocator, Linux mprotect/mlock semantics) for every operation sequence within the bounds; every behaviour of the generation model (plus random long ones from TLC -simulate) is replayed on the real containers in forked children, comparing /proc/self/smaps page rights and VM_LOCKED, guard pages, contents and VmLck after every step and probing raw accesses for faults",
         "DESIGN.md §3.2 Protected, §7 C14",
         "Linux x86-64, 4 KiB pages; kernel semantics as modelled; glibc allocator; depth-bounded histories over two handles",
         "TLA+ spec + TLC model checking; spec->impl behaviour replay against the kernel's view"),
 "C15": ("model_checking",
         "TLC checks WipeBeforeRelease, ReleasedOnce, ReleasedIffDead on Protected.tla; the wipe-focused behaviours (fill / resize up and down / clone / lock / unlock / drop, deeper bound) are replayed with the allocator observers of hook H2: fresh memory is scrubbed at allocate so any non-zero byte seen at release was written through the container",
         "DESIGN.md §3.2 Protected, §7 C15",
         "hook H2 observes the block immediately before it is handed to free(); Vec capacity policy of the pinned toolchain as modelled (mismatch is a tool error)",
         "TLA+ spec + TLC model checking; spec->impl behaviour replay with allocator observers"),
 "C19": ("model_checking",
         "TLC checks RefusalIsError and the C14/C15 invariants on Protected.tla with a lock budget k (the k+1-th and later mlock refused); every behaviour of the refusal model is replayed under an LD_PRELOAD mlock interposer: result class per call (Ok/Err/Panic) must equal the model's (Err for Result-returning operations), bystander regions keep their page state, everything wiped and unlocked at the end",
         "DESIGN.md §3.2 Protected, §7 C19",
         "refusal injected by interposing mlock(); operations without a Result (clone, resize) may panic by design and must leak nothing",
         "TLA+ spec + TLC model checking; fault-injected behaviour replay"),
 "C20": ("model_checking",
         "TypeState.tla derives a verdict per cell (operation x container x protect mode x lock mode, plus the stream modes) from what the operation needs and the state grants; TLC checks TableSound against the state machine of Protected.tla in every reachable state; one Rust program per cell is generated from the table printed by TLC and judged by rustc (misuse must be rejected in the generated line, controls must compile and run without faulting)",
         "DESIGN.md §3.2 Protected, §7 C20",
         "rustc is the oracle; finite table, enumerated completely; Free cells recorded, never judged",
         "TLA+ type-state table checked by TLC; generated programs judged by the compiler"),
 "C08": ("model_checking",
         "IncHash.tla models the buffering of blake2b update (lazy, 128) and poly1305 update (eager, 16) branch by branch; TLC checks for every reachable (absorbed, update size) that the buffered bytes are the unprocessed tail and that any chunking issues exactly the one-shot function's compress calls; every 2-way and 3-way split (empty pieces included) is replayed on all incremental interfaces against the one-shot result with the buffer fill compared to the model's table (hook H3); random k-way partitions of 4-64 KiB messages are recorded and validated by TLC; thorough adds an Apalache inductive invariant for unbounded lengths",
         "DESIGN.md §3.2 IncHash, §7 C08",
         "one-shot function of the same library as oracle (libsodium for ed25519ph); SHA-512 buffering lives in the sha2 crate (abstract layer only)",
         "TLA+ spec + TLC model checking; exhaustive split replay; impl->spec trace validation"),
 "C01": ("exploration",
         "Aead.tla writes every encrypting and opening entry point as the buffer program the code performs over symbolic positional bytes; TLC proves VariantAgreement (one canonical layout tag||body with body[i]=m[i]^ks[32+i]) and RoundTrip for every (construction, encrypt variant, open variant) triple and prints the triple matrix; the harness runs every concrete implementation of each variant (classic, object API over stack/array/Vec/heap containers, libsodium) for every message length 0..L and multi-KiB lengths: bytes equal libsodium's, every wire-compatible pair opens, libsodium on either side, sealed boxes included",
         "DESIGN.md §3.2 Aead, §7 C01",
         "libsodium-sys as byte reference; keys/nonces/messages seeded pseudo-random (constructions are key-oblivious); every length up to L visited, beyond that sampled",
         "TLA+ symbolic-buffer spec checked by TLC; matrix-driven differential replay against libsodium"),
 "C02": ("fault_enumeration",
         "TLC derives the verdict of every (construction, open variant, fault kind) row on Aead.tla (TamperRejected / untampered accepted) and Stream.tla; the harness applies each fault kind at every position - every bit of tag, body, nonce, symmetric/precomputed key, sealed ephemeral key, stream header and AD, every truncation length, extensions 1..40 - for every message length 0..L on every implementation of every opening entry point (classic, object API, nightly containers, stream pull)",
         "DESIGN.md §3.2 Aead/Stream, §7 C02",
         "single faults as the property states; a false alarm needs a Poly1305 forgery; libsodium produces the authentic ciphertexts",
         "TLA+ fault table checked by TLC; exhaustive single-fault enumeration replayed on the implementation"),
 "C17": ("fault_enumeration",
         "RejectReleasesNothing (Aead.tla) and RejectIsStutter on the tag output (Stream.tla) state that a rejected open shows the caller nothing derived from the ciphertext; the same exhaustive single-corruption family as C02 is replayed with canary-filled output buffers and a sentinel tag: after every Err the message buffer must be bit-identical to what it was (for in-place forms: the ciphertext passed in) or all zero, and the tag unchanged",
         "DESIGN.md §3.2 Aead/Stream, §7 C17",
         "caller-visible outputs only (buffers passed in, tag variable, returned values); internal temporaries are out of scope",
         "TLA+ invariant checked by TLC; exhaustive single-fault enumeration with output-buffer canaries"),
 "C04": ("exploration",
         "Untrusted.tla states the envelope: per consuming entry point (32, classic and object API) only Ok and Err are allowed, shorter-than-overhead is Err, authentic is Ok; TLC checks the table is total and prints it; the harness runs every entry point in a forked child on every length 0..2*overhead+64 x six content classes, every stream tag byte on authentic messages, and the PwStr.tla mutation grammar plus random strings; panics (overflow checks on), child signals and single allocations beyond 64 KiB + 8*len (+ declared Argon2 memory) are violations",
         "DESIGN.md §3.2 Untrusted/PwStr, §7 C04",
         "bytes inside a class are sampled; lengths, tags and grammar exhaustive; caller-sized output buffers as documented",
         "TLA+ outcome envelope + grammar checked by TLC; table-driven robustness replay with outcome classification"),
 "C10": ("exploration",
         "PwStr.tla models a password-hash string as a sequence of segments, the encoder the property demands and the code's segment-by-segment parser; TLC checks Parse(Encode(o)) = o, Encode(Parse(s)) = s, the needs-rehash truth table and totality on the mutation grammar, and exports the 450 objects (algorithm x costs x salt length x hash length); the harness hashes each object, encodes it as prescribed, has libsodium verify it (right/wrong password), verifies and round-trips it through dryoc (classic and object), checks needs-rehash against the table and libsodium, and verifies libsodium-produced Argon2i/Argon2id strings under dryoc and dryoc-produced strings under libsodium",
         "DESIGN.md §3.2 PwStr, §7 C10",
         "small costs; classic str_verify judged on 32-byte hashes only (libsodium's format); libsodium's verifier is the independent oracle for variable lengths",
         "TLA+ codec spec checked by TLC; object table replayed with libsodium as verifier"),
 "C07": ("exploration",
         "spec/ref holds executable TLA+ transcriptions of RFC 7693 (BLAKE2b, full parameter block), FIPS 180-4 (SHA-512), RFC 2104 (HMAC), RFC 8439 (Poly1305, ChaCha/HChaCha20), the Salsa20/HSalsa20 and SipHash papers and sodium_increment, each pinned to its published vectors; TLC evaluates them on boundary lengths of every block size, digest/key extremes and all-0xff operands, and model-checks the Poly1305 accumulator state machine to FIND messages whose accumulator lands on 0..5, p-6..p-1, needs the final subtraction, a second fold or carries out of 2^128/2^130; dryoc (every API route, three builds) must equal the TLA+ value and libsodium on all of them, and libsodium on every length 0..1100 x fillers x key/digest pairs; verify functions accept the right tag and reject every single-bit change",
         "DESIGN.md §3.2 spec/ref, §7 C07",
         "two independent references (TLA+ transcription evaluated by TLC; libsodium); inputs inside a length are seeded pseudo-random, 0xff or zero",
         "executable TLA+ reference evaluated by TLC + model-checked corner search; three-way differential replay"),
 "C12": ("exploration",
         "spec/ref/Kdf.tla defines the subkey as BLAKE2b(key = master, salt = id LE || 0, personal = context || 0, digest length = subkey length) on the executable BLAKE2b; TLC evaluates ids {0, 1, 2^32, 2^63, 2^64-1} x lengths; dryoc (classic and Kdf object) = TLA+ value = libsodium on those, dryoc = libsodium on all 49 accepted lengths x 10 ids x master keys/contexts, lengths 0..15 and 65..80 rejected, subkeys pairwise distinct",
         "DESIGN.md §3.2 spec/ref, §7 C12",
         "master keys and contexts seeded pseudo-random; two independent references",
         "executable TLA+ reference evaluated by TLC; three-way differential replay"),
 "C05": ("exploration",
         "spec/ref/X25519.tla is an executable transcription of the RFC 7748 ladder (clamping, bit-255 masking, non-canonical reduction) pinned to the RFC vectors; TLC evaluates it on the complete low-order table, u in {0,1,2,3,5,9,p-1,p,p+1,p+9,2^255-1} with and without the top bit, RFC vectors and pseudo-random encodings; Kx.tla states DH commutativity, the beforenm and key-exchange terms, Mirror and ZeroRefused and prints the role x peer-class table; dryoc = TLA+ = libsodium on the vectors, dryoc = libsodium on 20k (thorough 1M) uniformly random pairs, the 1000-step RFC iteration, beforenm/precalc keys, and session keys per table row through classic and object API",
         "DESIGN.md §3.2 Kx, spec/ref, §7 C05",
         "all 2^512 inputs covered by structure (special table) plus seeded sampling; curve arithmetic in curve25519-dalek checked end to end",
         "executable TLA+ reference evaluated by TLC + term-level protocol spec; three-way differential replay"),
 "C13": ("exploration",
         "Kx.tla gives the derivation term of every seeded constructor (box: SHA-512(seed)[0..32]; kx: BLAKE2b-32(seed); Ed25519->X25519: clamp(SHA-512(seed)[0..32]) and the Montgomery map) and checks ConvertedPairConsistent; the harness interprets those terms with libsodium primitives and compares dryoc (classic and object API) for box seeds of every length 0..128, 300 seeds for kx/sign/conversion, public keys recomputed from unclamped secrets, password-derived key pairs",
         "DESIGN.md §3.2 Kx, §7 C13",
         "libsodium as reference (its own function where it accepts the input, its primitives composed per the spec's term otherwise); seeds seeded pseudo-random",
         "term-level TLA+ spec checked by TLC; differential replay against libsodium"),
}
NOT_YET = "check not built yet (work in progress; see DESIGN.md section 7)"

hooks = subprocess.run(["git", "-C", "/repo", "log", "--format=%H %s"], capture_output=True, text=True).stdout.splitlines()
hook_commits = [l.split()[0] for l in hooks if "verif hook" in l]

m = {"version": 1,
     "setup_cmd": "cd /verif && tools/setup.sh",
     "hooks": {"guard": "--cfg dryoc_verif",
               "enable": "the harness crate /verif/harness has /repo as a path dependency and passes rustflags `--cfg dryoc_verif` through harness/.cargo/config.toml",
               "baseline_off_cmd": "cd /repo && cargo test --workspace --no-fail-fast --offline",
               "source_commits": hook_commits, "add_only": True},
     "engines": [{"name": "tlc", "path": "/usr/local/bin/tlc", "serves_properties": sorted(ROWS), "kind_free_text": "TLA+ model checker (explicit state) on /verif/spec"},
                 {"name": "conform", "path": "/verif/harness", "serves_properties": sorted(ROWS), "kind_free_text": "Rust conformance harness: replays TLC behaviours into dryoc (+libsodium), records traces for TLC"}],
     "checks": [], "not_applicable": [],
     "notes": "exit 0 = held, 1 = VIOLATION line, 2 = tool error (never a verdict). Known findings: /verif/known_findings.jsonl"}
for i in ids:
    if i in ROWS:
        cat, text, ref, note, tech = ROWS[i]
        m["checks"].append({"property_id": i, "quick_cmd": "checks/run %s quick" % i, "thorough_cmd": "checks/run %s thorough" % i,
                            "evidence_file": "evidence/%s.json" % i, "replay_cmd_template": "checks/run %s --replay {path}" % i,
                            "engine": "tlc+conform", "level_claimed": {"category": cat, "text": text, "design_ref": ref},
                            "level_note": note, "technique": tech})
    else:
        m["not_applicable"].append({"property_id": i, "reason": NOT_YET})
json.dump(m, open(os.path.join(V, "MANIFEST.json"), "w"), indent=1)
print("checks:", len(m["checks"]), "not_applicable:", len(m["not_applicable"]))
