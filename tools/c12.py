"""C12: key derivation = libsodium = the TLA+ reference (BLAKE2b with salt = id, personal = context, digest length = subkey length)."""
import json, os
from common import *
import refeval
from c07 import det, _merge


def run(tier):
    ck = Check("C12", tier, "exploration")
    thorough = tier == "thorough"
    ids = [0, 1, 1 << 32, 1 << 63, (1 << 64) - 1]
    lens = [16, 17, 31, 32, 33, 63, 64] if not thorough else list(range(16, 65))
    jobs = []
    for i in ids:
        for l in lens:
            jobs.append({"fn": "kdf", "outlen": l, "subkey_id": list(i.to_bytes(8, "little")), "ctx": det(8, "ctx"), "key": det(32, "master")})
    # contexts with interior zero bytes, all-zero and all-0xff: every byte of the context is personalisation
    for ctx in [[0] * 8, [255] * 8, [97, 98, 0, 99, 100, 101, 102, 103], [0, 1, 2, 3, 4, 5, 6, 7], [1, 0, 0, 0, 0, 0, 0, 9], [0, 0, 0, 0, 0, 0, 0, 1]]:
        for l in [16, 32, 64]:
            jobs.append({"fn": "kdf", "outlen": l, "subkey_id": list((7).to_bytes(8, "little")), "ctx": ctx, "key": det(32, "master")})
    outs, st = refeval.evaluate(jobs, recompute=len(jobs) if thorough else 5)
    ck.cov["reference_evaluation"] = st
    wd = workdir("c12")
    vf = os.path.join(wd, "vectors.ndjson")
    with open(vf, "w") as f:
        for j, o in zip(jobs, outs):
            f.write(json.dumps(dict(j, out=o)) + "\n")
    for cfg in ["stable", "nightly"] + (["simd"] if thorough else []):
        o = os.path.join(wd, "vec_%s.json" % cfg)
        conform(cfg, ["prims-vectors", vf, o])
        _merge(ck, json.load(open(o)), "" if cfg == "stable" else "[%s] " % cfg)
    for s in range(1500 if thorough else 1):
        o = os.path.join(wd, "sweep.json")
        conform("stable", ["prims-sweep-c12", o, ck.seed + s])
        _merge(ck, json.load(open(o)), "")
    # thorough: the other build configurations get their own seeds too (nightly-only containers, SIMD BLAKE2b, release overflow semantics)
    for cfg in ["nightly", RELEASE] + (["simd"] if thorough else []):
        for s in range(60 if thorough else 1):
            o = os.path.join(wd, "sweep_%s.json" % cfg)
            conform(cfg, ["prims-sweep-c12", o, ck.seed + 1000 * (s > 0) + s])
            _merge(ck, json.load(open(o)), "[%s] " % cfg)
    if not ck.cov["distinct_nontrivial"]:
        ck.cov["distinct_nontrivial"] = len(jobs) + 49 * 10
    ck.cov["rule"] = ("%d (id, length) vectors evaluated by TLC from spec/ref/Kdf.tla; dryoc = libsodium on all 49 accepted lengths x ids {0,1,2,255,256,2^32,2^63,2^64-2,2^64-1,random} x 4 master keys/contexts; "
                      "lengths 0..15 and 65..80 rejected; pairwise distinct subkeys; classic and Kdf object" % len(jobs))
    ck.assumptions += ["spec/ref/Kdf.tla is pinned to libsodium's kdf vectors (MCRefKdf)"]
    return ck.finish()


def replay(path):
    print(open(path).read()[:3000])
    return run("quick")
