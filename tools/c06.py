"""C06: Ed25519 signatures byte-exact with libsodium in every form; strict verification per the table of Sign.tla."""
import json, os
from common import *
from aeadcommon import parallel
from c07 import _merge


def run(tier):
    ck = Check("C06", tier, "exploration")
    thorough = tier == "thorough"
    r = run_tlc("Sign", workers=2, xss="512m", coverage=False, timeout=600)
    ck.require_tlc_ok(r, "Sign.tla (OnlyHonestAccepted, StrictnessMatters, Deterministic)")
    table = [x for x in tlc_printed_json(r["out"]) if isinstance(x, list)]
    if not table:
        raise ToolError("Sign.tla printed no table")
    # the algebra behind the table: every (R, A, S, k) over Z_11 x Z_8; families of equation-satisfying forgeries
    a = run_tlc("SignAlgebra", workers=8, xss="512m", coverage=False, timeout=1800)
    ck.require_tlc_ok(a, "SignAlgebra.tla (HonestAccepted, Unique, MalleableWithout, CofactoredIsWeaker, MixedShape, Classified, HonestKeyForgeries)")
    m = run_tlc("MCSignAlgebra", workers=1, xss="512m", coverage=False, timeout=1800, extra=["-maxSetSize", "4000000"])
    ck.require_tlc_ok(m, "MCSignAlgebra.tla (inhabited forgery families)")
    fam = [x for x in tlc_printed_json(m["out"]) if isinstance(x, dict) and "families" in x]
    if not fam:
        raise ToolError("MCSignAlgebra.tla printed no families")
    fname = lambda f: "%s/%s/%s" % (f["s"], f["r"], f["a"])
    inhabited = set(fname(f["family"]) for f in fam[0]["families"])
    empty = set(fname(f) for f in fam[0]["empty"])
    accepted = {"reduced/full/honest", "reduced/full/mixed"}
    inhabited |= set("cofactored_only/%s" % x for x in fam[0]["cofactored_only"])
    wd = workdir("c06")
    tf = os.path.join(wd, "table.json")
    json.dump(table[0], open(tf, "w"))
    lmax, nseeds = (300, 6) if thorough else (72, 2)
    nproc = min(14, NCPU)
    for cfg in ["stable", RELEASE] + (["simd"] if thorough else []):
        reps = parallel(cfg, lambda o, k, n: ["sign", tf, o, ck.seed, lmax if cfg == "stable" else 40, nseeds if cfg == "stable" else 1, k, n], nproc, os.path.join(wd, "sign_" + cfg))
        for rep in reps:
            _merge(ck, rep, "" if cfg == "stable" else "[%s] " % cfg)
    # every inhabited family of the algebra was built concretely by the harness, and no family the algebra calls empty was
    built = set()
    for rep in reps:
        built |= set(k[len("family:"):] for k in rep.get("counters", {}) if k.startswith("family:"))
    if inhabited - built:
        raise ToolError("forgery families of SignAlgebra.tla the harness did not build: %s" % sorted(inhabited - built))
    if built - inhabited - accepted:
        raise ToolError("the harness built equation-satisfying cases in families SignAlgebra.tla calls empty or does not know (specification error): %s" % sorted(built - inhabited - accepted))
    ck.cov["algebra_families"] = {"forgery_families_inhabited": sorted(inhabited), "empty": sorted(empty), "accepted_shapes": sorted(accepted), "cases_of_the_algebra": fam[0]["counts"]}
    if not ck.cov["distinct_nontrivial"]:
        ck.cov["distinct_nontrivial"] = len(table[0]) * (lmax + 1) * nseeds
    ck.cov["table_cells"] = len(table[0])
    ck.cov["rule"] = ("%d cells of Sign.tla's decision table (R x S x public key x message x signed mode x verified mode, single deviations plus the small-order forgery family) "
                      "x every message length 0..%d x %d seeds; each cell expanded to EVERY bit of R, S, public key and message (thinned to every 37th/29th bit on lengths > 24 not multiple of 16), S + kL for every k that fits 256 bits, "
                      "the 14 small-order encodings as R and as public key (14 x 14 with S = 0); every inhabited family of SignAlgebra.tla (shape of R x shape of A x reduced/unreduced S, torsion parts searched until the cofactorless equation holds) built with an independent curve library; verdicts compared with the table and with libsodium; signatures compared byte for byte with libsodium in pure and pre-hashed mode, detached, combined, SigningKeyPair and IncrementalSigner" % (len(table[0]), lmax, nseeds))
    ck.assumptions += ["no executable Ed25519 in TLA+: byte exactness rests on libsodium", "non-canonical encodings of points that are not small order cannot be constructed with a valid signature (needs a discrete log): covered by 'both reject' only"]
    return ck.finish()


def replay(path):
    print(open(path).read()[:3000])
    return run("quick")
