"""C06: Ed25519 signatures byte-exact with libsodium in every form; strict verification per the table of Sign.tla."""
import json, os
from common import *
from aeadcommon import parallel
from c07 import _merge


def run(tier):
    ck = Check("C06", tier, "exploration")
    thorough = tier == "thorough"
    r = run_tlc("Sign", workers=2, xss="512m", coverage=False, timeout=600)
    ck.require_tlc_ok(r, "Sign.tla (OnlyHonestAccepted, StrictnessMatters, Deterministic)")
    table = [x for x in tlc_printed_json(r["out"]) if isinstance(x, list)]
    if not table:
        raise ToolError("Sign.tla printed no table")
    wd = workdir("c06")
    tf = os.path.join(wd, "table.json")
    json.dump(table[0], open(tf, "w"))
    lmax, nseeds = (300, 6) if thorough else (72, 2)
    nproc = min(14, NCPU)
    for cfg in ["stable"] + (["simd"] if thorough else []):
        reps = parallel(cfg, lambda o, k, n: ["sign", tf, o, ck.seed, lmax if cfg == "stable" else 40, nseeds if cfg == "stable" else 1, k, n], nproc, os.path.join(wd, "sign_" + cfg))
        for rep in reps:
            _merge(ck, rep, "" if cfg == "stable" else "[%s] " % cfg)
    if not ck.cov["distinct_nontrivial"]:
        ck.cov["distinct_nontrivial"] = len(table[0]) * (lmax + 1) * nseeds
    ck.cov["table_cells"] = len(table[0])
    ck.cov["rule"] = ("%d cells of Sign.tla's decision table (R x S x public key x message x signed mode x verified mode, single deviations plus the small-order forgery family) "
                      "x every message length 0..%d x %d seeds; each cell expanded to EVERY bit of R, S, public key and message (thinned to every 37th/29th bit on lengths > 24 not multiple of 16), S + kL for every k that fits 256 bits, "
                      "the 14 small-order encodings as R and as public key (14 x 14 with S = 0); verdicts compared with the table and with libsodium; signatures compared byte for byte with libsodium in pure and pre-hashed mode, detached, combined, SigningKeyPair and IncrementalSigner" % (len(table[0]), lmax, nseeds))
    ck.assumptions += ["no executable Ed25519 in TLA+: byte exactness rests on libsodium", "non-canonical encodings of points that are not small order cannot be constructed with a valid signature (needs a discrete log): covered by 'both reject' only"]
    return ck.finish()


def replay(path):
    print(open(path).read()[:3000])
    return run("quick")
