from protcheck import run_prop, replay_file
def run(tier): return run_prop("C14", tier)
def replay(path): return replay_file("C14", path)
