"""Renders the symbolic password-hash strings of PwStr.tla into text."""
import base64, hashlib, json
from common import *


def model():
    r = run_tlc("MCPwStr", workers=2, xss="512m", coverage=False, timeout=600)
    if not r["ok"]:
        raise ToolError("PwStr.tla: %s\n%s" % (r["violated"], r["out"][-2000:]))
    t = [x for x in tlc_printed_json(r["out"]) if isinstance(x, dict) and "valid" in x]
    if not t:
        raise ToolError("MCPwStr printed no table")
    return r, t[0]


def _bytes(n, tag):
    out = b""
    i = 0
    while len(out) < n:
        out += hashlib.sha256(("%s/%d" % (tag, i)).encode()).digest()
        i += 1
    return out[:n]


def b64(b):
    return base64.b64encode(b).decode().rstrip("=")


def _num(f, name, alt):
    if f["num"]:
        return "%s=%d" % (name, f["val"])
    if f["val"] == 1:       # Absent
        return None
    return "%s=%s" % (name, ["abc", "4294967296", "-1", ""][alt % 4])


def render(segs, tag="s", alt=0, salt=None, hsh=None):
    parts = []
    nb64 = 0
    for s in segs:
        k = s["k"]
        if k == "empty":
            parts.append("")
        elif k == "alg":
            parts.append(s["name"])
        elif k == "ver":
            parts.append("v=%d" % s["v"]["val"] if s["v"]["num"] else "v=" + ["x", "4294967296", ""][alt % 3])
        elif k == "par":
            fs = [_num(s["m"], "m", alt), _num(s["t"], "t", alt + 1), _num(s["p"], "p", alt + 2)]
            if s.get("x", "none") != "none":
                fs.append(s["x"])           # a token the parser does not know (may contain the text of a missing key)
            parts.append(",".join(f for f in fs if f is not None))
        elif k == "b64":
            nb64 += 1
            if not s["ok"]:
                parts.append(["!!not*base64", "AAAA=", "a b c"][alt % 3])
            else:
                data = (salt if nb64 == 1 else hsh)
                if data is None or len(data) != s["n"]:
                    data = _bytes(s["n"], "%s/%d" % (tag, nb64))
                parts.append(b64(data))
    return "$".join(parts)
