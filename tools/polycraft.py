"""Secretbox / afternm operands whose Poly1305 run over the CIPHERTEXT passes through the accumulator corners of
spec/ref/MCRefPoly1305Corners.tla (accumulator 0..5 and p-6..p-1 after a block, values whose only fully reduced form needs
the final subtraction) and through limb-boundary values of the usual limb layouts (44/44/42 and 5 x 26 bits): the one-time
key is derived from (key, nonce), so the last ciphertext block of each path is SOLVED for the target accumulator
(n = target * r^-1 - h - 2^128 mod p must fit 128 bits, else another prefix is tried), and the plaintext is ciphertext XOR keystream.
Python big integers and the transcription in spec/ref/gen32/ref.py are the only ingredients."""
import hashlib, os, sys
sys.path.insert(0, os.path.join(os.path.dirname(os.path.abspath(__file__)), "..", "spec", "ref", "gen32"))
import ref

P = (1 << 130) - 5


def det(n, tag):
    out = b""
    i = 0
    while len(out) < n:
        out += hashlib.sha256(("%s/%d" % (tag, i)).encode()).digest()
        i += 1
    return out[:n]


def targets():
    t = {}
    for k in range(6):
        t["h=%d" % k] = k
    for k in range(1, 7):
        t["h=p-%d" % k] = P - k
    # limb boundaries: one limb zero / all ones with its lower neighbours all ones (carries ripple on the next addition)
    for name, widths in (("44", (44, 44, 42)), ("26", (26, 26, 26, 26, 26))):
        pos = 0
        for i, w in enumerate(widths[:-1]):
            pos += w
            t["%s:2^%d-1" % (name, pos)] = (1 << pos) - 1          # all limbs below the boundary full
            t["%s:2^%d" % (name, pos)] = 1 << pos                  # exactly the boundary: lower limbs zero
            t["%s:limb%d=0,rest ones" % (name, i + 1)] = ((1 << 130) - 6) & ~(((1 << widths[i + 1]) - 1) << pos) if pos + widths[i + 1] <= 130 else (1 << pos) - 1
    return t


def craft(key, nonce, prefix_blocks, target, tail):
    """ciphertext = prefix blocks, one solved block reaching `target`, then `tail` (bytes); returns (msg, ciphertext) or None"""
    need = 16 * len(prefix_blocks) + 16 + len(tail)
    ks = ref.xsalsa20_stream(key, nonce, 32 + need)
    r = int.from_bytes(ks[:16], "little") & 0x0ffffffc0ffffffc0ffffffc0fffffff
    if r == 0:
        return None
    h = 0
    for b in prefix_blocks:
        h = ((h + int.from_bytes(b + b"\x01", "little")) * r) % P
    n = (target * pow(r, P - 2, P) - h - (1 << 128)) % P
    if n >= 1 << 128:
        return None
    c = b"".join(prefix_blocks) + n.to_bytes(16, "little") + tail
    assert ref.poly1305_acc(ks[:32], c[:16 * len(prefix_blocks) + 16]) == target % P
    msg = bytes(a ^ b for a, b in zip(c, ks[32:]))
    return msg, c


def vectors(nkeys=3):
    out = []
    fixed = {"ff": b"\xff" * 16, "zz": b"\x00" * 16}
    for ki in range(nkeys):
        key = det(32, "pck%d" % ki)
        for tname, tv in sorted(targets().items()):
            done = 0
            for attempt in range(40):
                nonce = det(24, "pcn%d/%s/%d" % (ki, tname, attempt))
                pre = [[], [fixed["ff"]], [det(16, "pb%d" % attempt)], [fixed["zz"], fixed["ff"]]][attempt % 4]
                for tail in (b"", fixed["ff"], fixed["ff"] + b"\xff" * 5):
                    r = craft(key, nonce, pre, tv, tail)
                    if r is None:
                        continue
                    msg, c = r
                    box = ref.secretbox_seal(key, nonce, msg)
                    assert box[16:] == c
                    out.append({"key": list(key), "nonce": list(nonce), "msg": list(msg), "box": list(box), "target": tname, "blocks_before": len(pre), "tail": len(tail)})
                    done += 1
                if done >= 3:
                    break
    return out


# ---------------------------------------------------------------------------------------------------------------
# The same for the first message of a secret stream (XChaCha20-Poly1305, libsodium's secretstream layout):
#   MAC input = pad16(ad) || [tag, 0 x 63] XOR keystream block 1 || c || pad || le64(adlen) || le64(64 + mlen)
# with the one-time key = keystream block 0 [..32] and c = m XOR keystream blocks 2.. .  With mlen a multiple of 16 there
# is no padding; one ciphertext block is solved so that the accumulator reaches the target either right after that block
# ("mid") or at the very end of the MAC ("final": the accumulator is affine in the solved block).
def stream_craft(key, header, mlen, j, target, where):
    assert mlen % 16 == 0 and 0 <= j < mlen // 16
    k = ref.hchacha20(key, header[:16])
    nonce = (1).to_bytes(4, "little") + header[16:24]
    poly = ref.chacha20_block(k, 0, nonce)[:32]
    r = int.from_bytes(poly[:16], "little") & 0x0ffffffc0ffffffc0ffffffc0fffffff
    s = int.from_bytes(poly[16:32], "little")
    if r == 0:
        return None
    tag = 0
    blk = bytes(a ^ b for a, b in zip(bytes([tag]) + bytes(63), ref.chacha20_block(k, 1, nonce)))
    ks = b"".join(ref.chacha20_block(k, 2 + i, nonce) for i in range((mlen + 63) // 64))[:mlen]
    lens = (0).to_bytes(8, "little") + (64 + mlen).to_bytes(8, "little")
    nblk = mlen // 16
    c = [det(16, "sc%d/%d" % (mlen, i)) for i in range(nblk)]
    acc = lambda h, b: ((h + int.from_bytes(b + b"\x01", "little")) * r) % P
    h = 0
    for i in range(4):
        h = acc(h, blk[16 * i:16 * i + 16])
    for i in range(j):
        h = acc(h, c[i])
    rinv = pow(r, P - 2, P)
    if where == "mid":
        n = (target * rinv - h - (1 << 128)) % P
    else:
        # blocks after the solved one: c[j+1..], then the length block; h_final = A * x + B with x = h + n + 2^128
        rest = c[j + 1:] + [lens]
        A, B = r, 0
        for b in rest:
            v = int.from_bytes(b + b"\x01", "little")
            A, B = (A * r) % P, ((B + v) * r) % P
        x = ((target - B) * pow(A, P - 2, P)) % P
        n = (x - h - (1 << 128)) % P
    if n >= 1 << 128:
        return None
    c[j] = n.to_bytes(16, "little")
    hh = h
    for i in range(j, nblk):
        hh = acc(hh, c[i])
        if where == "mid" and i == j:
            assert hh == target % P
    hh = acc(hh, lens)
    if where == "final":
        assert hh == target % P
    mac = ((hh + s) & ((1 << 128) - 1)).to_bytes(16, "little")
    cbytes = b"".join(c)
    msg = bytes(a ^ b for a, b in zip(cbytes, ks))
    wire = bytes([blk[0]]) + cbytes + mac
    return msg, wire


def stream_vectors(nkeys=2):
    out = []
    for ki in range(nkeys):
        key = det(32, "psk%d" % ki)
        for tname, tv in sorted(targets().items()):
            done = 0
            for attempt in range(60):
                header = det(24, "psh%d/%s/%d" % (ki, tname, attempt))
                mlen = [16, 32, 48, 64, 80][attempt % 5]
                j = attempt % (mlen // 16)
                where = "final" if attempt % 2 == 0 else "mid"
                r = stream_craft(key, header, mlen, j, tv, where)
                if r is None:
                    continue
                msg, wire = r
                out.append({"key": list(key), "header": list(header), "msg": list(msg), "wire": list(wire), "target": tname, "where": where, "mlen": mlen, "block": j})
                done += 1
                if done >= 3:
                    break
    return out


if __name__ == "__main__":
    sv = stream_vectors()
    print("stream vectors", len(sv))
    v = vectors()
    import collections
    print(len(v), collections.Counter(x["target"] for x in v).most_common(5))
