"""Secretbox / afternm operands whose Poly1305 run over the CIPHERTEXT passes through the accumulator corners of
spec/ref/MCRefPoly1305Corners.tla (accumulator 0..5 and p-6..p-1 after a block, values whose only fully reduced form needs
the final subtraction) and through limb-boundary values of the usual limb layouts (44/44/42 and 5 x 26 bits): the one-time
key is derived from (key, nonce), so the last ciphertext block of each path is SOLVED for the target accumulator
(n = target * r^-1 - h - 2^128 mod p must fit 128 bits, else another prefix is tried), and the plaintext is ciphertext XOR keystream.
Python big integers and the transcription in spec/ref/gen32/ref.py are the only ingredients."""
import hashlib, os, sys
sys.path.insert(0, os.path.join(os.path.dirname(os.path.abspath(__file__)), "..", "spec", "ref", "gen32"))
import ref

P = (1 << 130) - 5


def det(n, tag):
    out = b""
    i = 0
    while len(out) < n:
        out += hashlib.sha256(("%s/%d" % (tag, i)).encode()).digest()
        i += 1
    return out[:n]


def targets():
    t = {}
    for k in range(6):
        t["h=%d" % k] = k
    for k in range(1, 7):
        t["h=p-%d" % k] = P - k
    # limb boundaries: one limb zero / all ones with its lower neighbours all ones (carries ripple on the next addition)
    for name, widths in (("44", (44, 44, 42)), ("26", (26, 26, 26, 26, 26))):
        pos = 0
        for i, w in enumerate(widths[:-1]):
            pos += w
            t["%s:2^%d-1" % (name, pos)] = (1 << pos) - 1          # all limbs below the boundary full
            t["%s:2^%d" % (name, pos)] = 1 << pos                  # exactly the boundary: lower limbs zero
            t["%s:limb%d=0,rest ones" % (name, i + 1)] = ((1 << 130) - 6) & ~(((1 << widths[i + 1]) - 1) << pos) if pos + widths[i + 1] <= 130 else (1 << pos) - 1
    return t


def craft(key, nonce, prefix_blocks, target, tail):
    """ciphertext = prefix blocks, one solved block reaching `target`, then `tail` (bytes); returns (msg, ciphertext) or None"""
    need = 16 * len(prefix_blocks) + 16 + len(tail)
    ks = ref.xsalsa20_stream(key, nonce, 32 + need)
    r = int.from_bytes(ks[:16], "little") & 0x0ffffffc0ffffffc0ffffffc0fffffff
    if r == 0:
        return None
    h = 0
    for b in prefix_blocks:
        h = ((h + int.from_bytes(b + b"\x01", "little")) * r) % P
    n = (target * pow(r, P - 2, P) - h - (1 << 128)) % P
    if n >= 1 << 128:
        return None
    c = b"".join(prefix_blocks) + n.to_bytes(16, "little") + tail
    assert ref.poly1305_acc(ks[:32], c[:16 * len(prefix_blocks) + 16]) == target % P
    msg = bytes(a ^ b for a, b in zip(c, ks[32:]))
    return msg, c


def vectors(nkeys=3):
    out = []
    fixed = {"ff": b"\xff" * 16, "zz": b"\x00" * 16}
    for ki in range(nkeys):
        key = det(32, "pck%d" % ki)
        for tname, tv in sorted(targets().items()):
            done = 0
            for attempt in range(40):
                nonce = det(24, "pcn%d/%s/%d" % (ki, tname, attempt))
                pre = [[], [fixed["ff"]], [det(16, "pb%d" % attempt)], [fixed["zz"], fixed["ff"]]][attempt % 4]
                for tail in (b"", fixed["ff"], fixed["ff"] + b"\xff" * 5):
                    r = craft(key, nonce, pre, tv, tail)
                    if r is None:
                        continue
                    msg, c = r
                    box = ref.secretbox_seal(key, nonce, msg)
                    assert box[16:] == c
                    out.append({"key": list(key), "nonce": list(nonce), "msg": list(msg), "box": list(box), "target": tname, "blocks_before": len(pre), "tail": len(tail)})
                    done += 1
                if done >= 3:
                    break
    return out


if __name__ == "__main__":
    v = vectors()
    import collections
    print(len(v), collections.Counter(x["target"] for x in v).most_common(5))
