"""Shared by C14 / C15 / C19: generate Protected.tla behaviours with TLC and replay them in parallel."""
import json, os, subprocess
from common import *

SHIM = os.path.join(HARNESS, "shim", "libmlockfail.so")


def build_shim():
    src = os.path.join(HARNESS, "shim", "mlockfail.c")
    if not os.path.exists(SHIM) or os.path.getmtime(SHIM) < os.path.getmtime(src):
        sh(["gcc", "-shared", "-fPIC", "-O2", "-o", SHIM, src, "-ldl"], check=True)


def gen_cases(cfg, out, simulate=None, timeout=3000, name=None):
    """Runs GenProtected with the given cfg; writes behaviours to `out` (ndjson); returns (tlc result, count)."""
    g = run_tlc("GenProtected", cfg, workers=1 if simulate else 8, coverage=False, timeout=timeout, simulate=simulate, name=name or cfg)
    n = 0
    with open(out, "w") as f:
        for line in g["out"].splitlines():
            if line.startswith('"['):
                f.write(json.loads(line) + "\n")
                n += 1
    g["out"] = g["out"][-3000:] if n else g["out"]
    return g, n


def replay(cases, outprefix, nproc=12, probe=True, timeout=3000, mode=None, config="nightly", stderr_unwritable=False):
    """Splits the case file over nproc harness processes; returns the merged report."""
    require_lockable_memory()
    build_shim()
    binp = build_harness(config)
    procs = []
    env = dict(os.environ)
    env["LD_PRELOAD"] = SHIM
    if mode:
        env["PROT_MODE"] = mode
    for k in range(nproc):
        o = "%s.%d.json" % (outprefix, k)
        if os.path.exists(o):
            os.remove(o)
        # stderr_unwritable: the process's stderr is /dev/full (every write fails with ENOSPC) - a library that prints a
        # diagnostic with eprintln! on some path panics there
        procs.append((o, subprocess.Popen([binp, "prot-replay", cases, o, str(k), str(nproc), "1" if probe else "0"],
                                          env=env, stdout=subprocess.PIPE, stderr=(open("/dev/full", "w") if stderr_unwritable else subprocess.STDOUT), text=True)))
    merged = {"evaluations": 0, "nfail": 0, "failures": [], "counters": {}, "samples": []}
    for o, p in procs:
        try:
            out, _ = p.communicate(timeout=timeout)
        except subprocess.TimeoutExpired:
            p.kill()
            raise ToolError("prot-replay timed out")
        if p.returncode != 0 or not os.path.exists(o):
            raise ToolError("prot-replay failed (%s):\n%s" % (p.returncode, (out or "")[-2000:]))
        r = json.load(open(o))
        merged["evaluations"] += r["evaluations"]
        merged["nfail"] += r["nfail"]
        merged["failures"] += r["failures"]
        merged["samples"] += r["samples"][:1]
        for kk, v in r["counters"].items():
            merged["counters"][kk] = merged["counters"].get(kk, 0) + v
    return merged


def split_failures(rep):
    """Routes harness failure keys: HARNESS:/MODEL: are tool errors; the rest go to the property they are about."""
    tool = [f for f in rep["failures"] if f["key"].startswith("HARNESS") or f["key"].startswith("MODEL")]
    if tool:
        raise ToolError("harness/model mismatch (not a verdict about the code): %s" % json.dumps(tool[0])[:1500])
    by = {"C14": [], "C15": [], "C19": [], "DRIFT": []}
    for f in rep["failures"]:
        k = f["key"]
        if k.startswith("DRIFT"):
            by["DRIFT"].append(f)
            continue
        budget = (f["detail"].get("case") or [{}])[0].get("op", [None, 99])[1]
        if "not wiped" in k or "never released" in k or "release event" in k or "number of releases" in k:
            by["C15"].append(f)
        elif budget != 99 and ("result" in k or "killed by signal" in k):
            by["C19"].append(f)
        else:
            by["C14"].append(f)
    return by
