#!/bin/bash
# reverify_seeded.sh [glob]: re-runs the quick check of every stored seeded change (seeded/<glob>) against its patch, in a
# scratch worktree bind-mounted over /repo (private mount namespace; /repo is not touched).  Prints one line per change;
# exit 1 if a change that was detected before is no longer detected.
G=${1:-*}
V=$(cd "$(dirname "$0")/.." && pwd)
WT=${REPLAY_WT:-/tmp/mut/replaywt}
[ -d $WT ] || git -C /repo worktree add --detach $WT HEAD > /dev/null 2>&1
[ -f $WT/Cargo.lock ] || cp /repo/Cargo.lock $WT/Cargo.lock 2>/dev/null
BAD=0
for d in $V/seeded/$G/; do
  n=$(basename $d)
  P=$(python3 -c "import json;print(json.load(open('$d/meta.json'))['breaks_property'])")
  AT=$(python3 -c "import json;print(json.load(open('$d/meta.json')).get('applies_to',''))")
  [ -n "$AT" ] && { echo "$n $P skipped (kept as a record; applies to $AT only)"; continue; }
  OUT=$($V/tools/try_mutant_ns.sh $WT $d/patch.diff $P 2>&1)
  RC=$(echo "$OUT" | grep -o "exit=[0-9]*" | head -1)
  echo "$n $P $RC $(echo "$OUT" | grep 'what:' | head -1 | cut -c1-150)"
  [ "$RC" = "exit=1" ] || BAD=1
done
git -C /repo worktree remove --force $WT
exit $BAD
