"""C04: totality of every consuming entry point on untrusted bytes (Untrusted.tla envelope, PwStr.tla grammar)."""
import json, os
from common import *
import pwstr


def run(tier):
    ck = Check("C04", tier, "exploration")
    thorough = tier == "thorough"
    r = run_tlc("Untrusted", workers=4, xss="512m", timeout=600)
    ck.require_tlc_ok(r, "Untrusted.tla (Total, TableTotal)")
    ck.require_actions(r, ["Present"])
    table = [x for x in tlc_printed_json(r["out"]) if isinstance(x, list)]
    if not table:
        raise ToolError("Untrusted.tla printed no table")
    wd = workdir("c04")
    tf = os.path.join(wd, "table.json")
    json.dump(table[0], open(tf, "w"))
    for cfg in ["stable", "nightly", RELEASE]:
        for s in range(12 if thorough and cfg != RELEASE else 1):
            o = os.path.join(wd, "untrusted.json")
            conform(cfg, ["untrusted", tf, o, ck.seed + s, 4 if thorough else 2], timeout=3000)
            _merge(ck, json.load(open(o)))
    o = os.path.join(wd, "tags.json")
    conform("stable", ["untrusted-tags", o, ck.seed])
    _merge(ck, json.load(open(o)))
    # password-hash strings: the grammar of PwStr.tla rendered to text, plus random strings
    pr, pt = pwstr.model()
    ck.add_tlc(pr, "PwStr.tla grammar")
    sf = os.path.join(wd, "strings.ndjson")
    n = 0
    with open(sf, "w") as f:
        for alt in range(4):
            for i, mu in enumerate(pt["mutants"]):
                f.write(json.dumps(pwstr.render(mu["segs"], "m%d" % i, alt)) + "\n")
                n += 1
        for i, v in enumerate(pt["valid"]):
            if v["obj"]["m"] <= 1024:
                f.write(json.dumps(pwstr.render(v["segs"], "v%d" % i)) + "\n")
                n += 1
    o = os.path.join(wd, "pwstr.json")
    conform("stable", ["untrusted-pwstr", sf, o, ck.seed, 100000 if thorough else 2000], timeout=3000)
    _merge(ck, json.load(open(o)))
    entries = len(set(x["e"] for x in table[0]))
    if not ck.cov["distinct_nontrivial"]:
        ck.cov["distinct_nontrivial"] = ck.cov["evaluations"]
    ck.cov["entry_points"] = entries
    ck.cov["grammar_strings"] = n
    ck.cov["rule"] = ("entry points = the table of Untrusted.tla (%d); each with EVERY length 0..2*overhead+64 x {zeros, 0xff, random, valid prefix, valid with one bit flipped, authentic}; "
                      "authentic stream messages with every tag byte 0..255 through classic and object pull; password-hash strings = every single-deviation mutant of PwStr.tla's grammar (x4 renderings) "
                      "plus random strings over the format's alphabet with declared memory <= 1 MiB; outcome classified Ok/Err/Panic (caught unwind, overflow checks on)/Abort (child signal)/HugeAlloc (counting allocator)" % entries)
    ck.assumptions += ["output buffers are sized after the input (len - overhead) or have a fixed size of the receiver's own (family `fixed`); fixed-length items arrive in typed arrays or in a Vec of any length (family `vecheld`)",
                       "byte strings inside a class are sampled (seeded); lengths, tag bytes and the mutation grammar are exhaustive",
                       "password-hash strings declaring more than 1 MiB are outside the property's bounded-cost clause and skipped"]
    return ck.finish()


def _merge(ck, rep):
    tool = [f for f in rep["failures"] if f["key"].startswith("HARNESS")]
    if tool:
        raise ToolError("harness/spec mismatch: %s" % json.dumps(tool[0])[:600])
    ck.add_report(rep)


def replay(path):
    print(open(path).read()[:3000])
    return run("quick")
