--------------------------------- MODULE Rng ---------------------------------
(***************************************************************************)
(* Randomised entry points (property C11).  The specification of "draws    *)
(* fresh randomness on every call" as a history property: per entry point  *)
(* e the set seen[e] of values returned so far; Draw(e, v) is enabled iff  *)
(* v is new and not all-zero.  Used as a TRACE specification: a recording  *)
(* of N calls per entry point of the real library is accepted iff it is a  *)
(* behaviour; Done(e) additionally requires that no byte position stayed   *)
(* constant.  EntryPoints is the complete list of the property; the        *)
(* postcondition requires every one of them to have been drawn and closed, *)
(* so an entry point that is missing from the recording is reported, not   *)
(* silently passed.  FaultEntryPoints are exercised under an injected     *)
(* fault (every lock request refused; the OS random source failing): a     *)
(* call may then return NO value, but a value that is returned is held to  *)
(* the same freshness rule.                                                *)
(***************************************************************************)
EXTENDS Naturals, Sequences, FiniteSets, TLC, Json, IOUtils

CONSTANTS EntryPoints, MinCalls,
          SplitEntryPoints,  \* entry points that return TWO independent values in one call (main key || context of a key-derivation object): the second must not be found inside the first
          FaultEntryPoints   \* entry points exercised while a fault is injected (locks refused): a call may return no value

Rec == ndJsonDeserialize(IOEnv.TRACE)

VARIABLES seen,     \* entry point -> set of values returned so far
          first,    \* entry point -> the first value returned (or <<>>)
          varies,   \* entry point -> set of byte positions that have shown at least two values
          closed, l
vars == <<seen, first, varies, closed, l>>

AllZero(v) == \A i \in 1..Len(v) : v[i] = 0

Init == /\ seen = [e \in EntryPoints |-> {}] /\ first = [e \in EntryPoints |-> <<>>]
        /\ varies = [e \in EntryPoints |-> {}] /\ closed = {} /\ l = 1

\* the last 8 bytes (the context) occur nowhere in what precedes them (the main key): the two outputs of one call are drawn
\* independently, one is not a copy of part of the other
Independent(v) == LET n == Len(v) IN n >= 16 => \A i \in 1..(n - 15) : SubSeq(v, i, i + 7) # SubSeq(v, n - 7, n)
Draw(e, v) ==
  /\ e \in EntryPoints /\ e \notin closed
  /\ (e \in SplitEntryPoints => Independent(v))
  /\ v \notin seen[e]                   \* no value repeats
  /\ ~AllZero(v)                        \* none is all-zero
  /\ seen' = [seen EXCEPT ![e] = @ \cup {v}]
  /\ first' = [first EXCEPT ![e] = IF @ = <<>> THEN v ELSE @]
  /\ varies' = [varies EXCEPT ![e] = IF first[e] = <<>> THEN @
                                     ELSE @ \cup {i \in 1..Len(v) : i <= Len(first[e]) /\ v[i] # first[e][i]}]
  /\ UNCHANGED closed

Done(e) ==
  /\ e \in EntryPoints /\ e \notin closed
  /\ (e \notin FaultEntryPoints => Cardinality(seen[e]) >= MinCalls)
  /\ varies[e] = 1..Len(first[e])       \* no byte position is constant
  /\ closed' = closed \cup {e}
  \* a closed entry point accepts no further draw, so its history is no longer needed (keeps the trace state small)
  /\ seen' = [seen EXCEPT ![e] = {}]
  /\ UNCHANGED <<first, varies>>

IsEv(k) == l <= Len(Rec) /\ Rec[l].ev = k /\ l' = l + 1
TDraw == IsEv("draw") /\ Draw(Rec[l].e, Rec[l].v)
TDone == IsEv("done") /\ Done(Rec[l].e)
\* under an injected fault a call may fail instead of returning a value; the history does not change
NoValue(e) == e \in FaultEntryPoints /\ e \notin closed /\ UNCHANGED <<seen, first, varies, closed>>
TNoValue == IsEv("novalue") /\ NoValue(Rec[l].e)
\* the process forks: a generator that keeps state in memory now has that state in two processes.  The histories do not
\* fork with it - what one process has returned the other must not return (the recording lists the parent's values after
\* the fork, then the child's) - so the event changes nothing and Draw stays as strict as before
Fork(e) == e \in EntryPoints /\ e \notin closed /\ UNCHANGED <<seen, first, varies, closed>>
TFork == IsEv("fork") /\ Fork(Rec[l].e)
\* the process starts further threads that call the same entry point at the same time, each for the first time in its
\* thread (whatever a generator initialises lazily per thread is initialised once in each).  As with Fork there is one
\* history per entry point, not one per thread: the recording lists the threads' values after the event, and a value one
\* thread returned may not be returned by another
Spawn(e) == e \in EntryPoints /\ e \notin closed /\ UNCHANGED <<seen, first, varies, closed>>
TSpawn == IsEv("spawn") /\ Spawn(Rec[l].e)
TNext == TDraw \/ TDone \/ TNoValue \/ TFork \/ TSpawn
TSpec == Init /\ [][TNext]_vars

Accepted == LET d == TLCGet("stats").diameter IN
   IF d - 1 = Len(Rec) THEN TRUE
   ELSE PrintT(<<"REJECT at event", d, [ev |-> Rec[d].ev, e |-> Rec[d].e]>>) /\ FALSE
\* every entry point of the list was exercised and closed
AllCovered == (l = Len(Rec) + 1) => closed = EntryPoints
=============================================================================
