------------------------------ MODULE Untrusted ------------------------------
(***************************************************************************)
(* C04: the totality envelope of every entry point that consumes bytes an  *)
(* attacker can supply.  An entry point e has a fixed overhead Ovh(e) (the *)
(* bytes of tag / signature / header it needs before any payload).  An     *)
(* input is (length class relative to the overhead, content class).  The   *)
(* specification allows only the outcomes Ok and Err, and fixes the        *)
(* outcome in two rows: shorter than the overhead => Err, authentic => Ok. *)
(* Everything else (Panic, Abort, HugeAlloc) is outside the envelope.      *)
(* The table (entry point x length class x content class -> allowed set)   *)
(* is printed for the harness, which expands each length class to EVERY    *)
(* length 0..2*Ovh+64 and each stream tag class to every byte 0..255.      *)
(***************************************************************************)
EXTENDS Naturals, FiniteSets, Sequences, TLC, Json

\* entry point -> [ovh, family]; the list is the property's list, classic and object API
Entries ==
  { [e |-> "crypto_secretbox_open_easy",           ovh |-> 16, fam |-> "aead"],
    [e |-> "crypto_secretbox_open_easy_inplace",   ovh |-> 16, fam |-> "aead"],
    [e |-> "crypto_secretbox_open_detached",       ovh |-> 0,  fam |-> "aead"],
    [e |-> "DryocSecretBox::from_bytes+decrypt",   ovh |-> 16, fam |-> "aead"],
    [e |-> "crypto_box_open_easy",                 ovh |-> 16, fam |-> "aead"],
    [e |-> "crypto_box_open_easy_inplace",         ovh |-> 16, fam |-> "aead"],
    [e |-> "crypto_box_open_detached",             ovh |-> 0,  fam |-> "aead"],
    [e |-> "crypto_box_open_detached_afternm",     ovh |-> 0,  fam |-> "aead"],
    [e |-> "DryocBox::from_bytes+decrypt",         ovh |-> 16, fam |-> "aead"],
    [e |-> "DryocBox::from_bytes+precalc_decrypt", ovh |-> 16, fam |-> "aead"],
    [e |-> "crypto_box_seal_open",                 ovh |-> 48, fam |-> "aead"],
    [e |-> "DryocBox::from_sealed_bytes+unseal",   ovh |-> 48, fam |-> "aead"],
    [e |-> "crypto_secretstream_pull",             ovh |-> 17, fam |-> "stream"],
    [e |-> "DryocStream::pull",                    ovh |-> 17, fam |-> "stream"],
    [e |-> "DryocStream::pull_to_vec",             ovh |-> 17, fam |-> "stream"],
    \* the receiver's state object is not a freshly initialised one: never given a key, or wiped.  No input is authentic for it
    [e |-> "crypto_secretstream_pull (state never initialised)",      ovh |-> 17, fam |-> "stream"],
    [e |-> "crypto_secretstream_pull (state wiped after init_pull)",  ovh |-> 17, fam |-> "stream"],
    [e |-> "DryocStream::pull_to_vec (stream wiped after init_pull)", ovh |-> 17, fam |-> "stream"],
    [e |-> "crypto_sign_open",                     ovh |-> 64, fam |-> "sign"],
    [e |-> "crypto_sign_verify_detached",          ovh |-> 0,  fam |-> "sign"],
    [e |-> "crypto_sign_final_verify",             ovh |-> 0,  fam |-> "sign"],
    [e |-> "SignedMessage::from_bytes+verify",     ovh |-> 64, fam |-> "sign"],
    [e |-> "IncrementalSigner::verify",            ovh |-> 0,  fam |-> "sign"],
    [e |-> "crypto_auth_verify",                   ovh |-> 0,  fam |-> "mac"],
    [e |-> "Auth::compute_and_verify",             ovh |-> 0,  fam |-> "mac"],
    [e |-> "crypto_onetimeauth_verify",            ovh |-> 0,  fam |-> "mac"],
    [e |-> "OnetimeAuth::compute_and_verify",      ovh |-> 0,  fam |-> "mac"],
    [e |-> "crypto_onetimeauth_init/update/final (every split)", ovh |-> 0, fam |-> "mac"],
    [e |-> "OnetimeAuth::new/update/verify (every split)",         ovh |-> 0, fam |-> "mac"],
    [e |-> "Auth::new/update/verify (every split)",                ovh |-> 0, fam |-> "mac"],
    [e |-> "crypto_pwhash_str_verify",             ovh |-> 0,  fam |-> "pwstr"],
    [e |-> "crypto_pwhash_str_needs_rehash",       ovh |-> 0,  fam |-> "pwstr"],
    [e |-> "PwHash::from_string+verify",           ovh |-> 0,  fam |-> "pwstr"],
    [e |-> "PwHash::from_string_with_defaults",    ovh |-> 0,  fam |-> "pwstr"],
    [e |-> "crypto_sign_ed25519_pk_to_curve25519", ovh |-> 0,  fam |-> "key"],
    [e |-> "crypto_scalarmult (peer point)",                    ovh |-> 0, fam |-> "key"],
    [e |-> "crypto_box_beforenm (peer key)",                    ovh |-> 0, fam |-> "key"],
    [e |-> "crypto_box_easy (recipient key)",                   ovh |-> 0, fam |-> "key"],
    [e |-> "crypto_box_seal (recipient key)",                   ovh |-> 0, fam |-> "key"],
    [e |-> "crypto_kx_client_session_keys (server key)",        ovh |-> 0, fam |-> "key"],
    [e |-> "crypto_kx_server_session_keys (client key)",        ovh |-> 0, fam |-> "key"],
    [e |-> "Session::new_client (server key)",                  ovh |-> 0, fam |-> "key"],
    [e |-> "DryocBox::encrypt (recipient key)",                 ovh |-> 0, fam |-> "key"],
    [e |-> "DryocBox::seal (recipient key)",                    ovh |-> 0, fam |-> "key"],
    [e |-> "crypto_sign_ed25519_sk_to_curve25519 (stored key)", ovh |-> 0, fam |-> "key"],
    [e |-> "crypto_sign_detached (stored key)",                 ovh |-> 0, fam |-> "key"],
    [e |-> "SigningKeyPair::from_secret_key (stored key)",      ovh |-> 0, fam |-> "key"],
    [e |-> "KeyPair::from_slices",                 ovh |-> 0,  fam |-> "key"],
    [e |-> "SigningKeyPair::from_slices",          ovh |-> 0,  fam |-> "key"],
    [e |-> "StackByteArray::try_from",             ovh |-> 0,  fam |-> "key"],
    \* the receiver's message buffer has a size of its own (it is not cut to the attacker's input): family "fixed"
    [e |-> "crypto_secretbox_open_easy (receiver buffer of fixed size)",       ovh |-> 16, fam |-> "fixed"],
    [e |-> "crypto_secretbox_open_detached (receiver buffer of fixed size)",   ovh |-> 0,  fam |-> "fixed"],
    [e |-> "crypto_box_open_easy (receiver buffer of fixed size)",             ovh |-> 16, fam |-> "fixed"],
    [e |-> "crypto_box_open_detached (receiver buffer of fixed size)",         ovh |-> 0,  fam |-> "fixed"],
    [e |-> "crypto_box_open_detached_afternm (receiver buffer of fixed size)", ovh |-> 0,  fam |-> "fixed"],
    [e |-> "crypto_box_seal_open (receiver buffer of fixed size)",             ovh |-> 48, fam |-> "fixed"],
    [e |-> "crypto_secretstream_pull (receiver buffer of fixed size)",         ovh |-> 17, fam |-> "fixed"],
    [e |-> "crypto_sign_open (receiver buffer of fixed size)",                 ovh |-> 64, fam |-> "fixed"],
    [e |-> "secretstream Tag::from(u8), every byte",                           ovh |-> 0,  fam |-> "key"],
    \* a fixed-length item (MAC, signature, box tag, stream header) in a container that has no length of its own (Vec): the
    \* object API takes any ByteArray<N>, and what arrives from the wire arrives in a Vec.  ovh is the fixed length: family "vecheld"
    [e |-> "Auth::compute_and_verify (MAC held in a Vec)",                     ovh |-> 32, fam |-> "vecheld"],
    [e |-> "Auth::new/update/verify (MAC held in a Vec)",                      ovh |-> 32, fam |-> "vecheld"],
    [e |-> "OnetimeAuth::compute_and_verify (MAC held in a Vec)",              ovh |-> 16, fam |-> "vecheld"],
    [e |-> "OnetimeAuth::new/update/verify (MAC held in a Vec)",               ovh |-> 16, fam |-> "vecheld"],
    [e |-> "SignedMessage::from_parts+verify (signature held in a Vec)",       ovh |-> 64, fam |-> "vecheld"],
    [e |-> "IncrementalSigner::verify (signature held in a Vec)",              ovh |-> 64, fam |-> "vecheld"],
    [e |-> "DryocSecretBox::from_parts+decrypt (tag held in a Vec)",           ovh |-> 16, fam |-> "vecheld"],
    [e |-> "DryocBox::from_parts+decrypt (tag held in a Vec)",                 ovh |-> 16, fam |-> "vecheld"],
    [e |-> "DryocBox::from_parts+precalc_decrypt (tag held in a Vec)",         ovh |-> 16, fam |-> "vecheld"],
    [e |-> "DryocBox::from_parts+unseal (tag held in a Vec)",                  ovh |-> 16, fam |-> "vecheld"],
    [e |-> "DryocStream::init_pull (header held in a Vec)",                    ovh |-> 24, fam |-> "vecheld"] }

LenClasses == {"empty", "below_overhead", "exactly_overhead", "above_overhead"}
Contents == {"zeros", "ones", "random", "valid_prefix", "valid_mutated", "authentic", "authentic_extended"}
Outcomes == {"Ok", "Err", "Panic", "Abort", "HugeAlloc"}

Possible(en, lc, ct) ==
  /\ (lc = "below_overhead" => en.ovh > 1) /\ (lc = "empty" => TRUE)
  /\ (ct = "authentic" => lc \in {"exactly_overhead", "above_overhead"})
  /\ (en.fam = "vecheld" /\ ct = "authentic" => lc = "exactly_overhead")          \* the genuine item has the fixed length
  /\ (ct = "authentic_extended" => en.fam = "vecheld" /\ lc = "above_overhead")   \* the genuine item, then more bytes

Short(en, lc) == en.ovh > 0 /\ lc \in {"empty", "below_overhead"}

Allowed(en, lc, ct) ==
  IF Short(en, lc) THEN {"Err"}
  ELSE IF en.fam = "vecheld" /\ lc # "exactly_overhead" THEN {"Err"}   \* an item of any other length is refused, whatever it holds
  ELSE IF en.fam = "fixed" THEN {"Ok", "Err"}   \* an authentic box that does not fit the receiver's buffer may be refused
  ELSE IF ct = "authentic" THEN {"Ok"}
  ELSE {"Ok", "Err"}

VARIABLES entry, lenc, content, outcome
vars == <<entry, lenc, content, outcome>>
Init == entry = "none" /\ lenc = "none" /\ content = "none" /\ outcome = "none"
Present(en, lc, ct) == /\ Possible(en, lc, ct)
                       /\ entry' = en.e /\ lenc' = lc /\ content' = ct
                       /\ outcome' \in Allowed(en, lc, ct)
Next == \E en \in Entries, lc \in LenClasses, ct \in Contents : Present(en, lc, ct)
Spec == Init /\ [][Next]_vars

Total == outcome \in {"none", "Ok", "Err"}
TableTotal == \A en \in Entries, lc \in LenClasses, ct \in Contents :
                 Possible(en, lc, ct) => (Allowed(en, lc, ct) # {} /\ Allowed(en, lc, ct) \subseteq {"Ok", "Err"})
ASSUME TableTotal
ASSUME PrintT(ToJson({[e |-> en.e, ovh |-> en.ovh, fam |-> en.fam, len |-> lc, content |-> ct, allowed |-> Allowed(en, lc, ct)] :
                        en \in Entries, lc \in LenClasses, ct \in {c \in Contents : TRUE}}))
=============================================================================
