--------------------------- MODULE MCSignAlgebra ---------------------------
(* Enumerates the inhabited forgery families of SignAlgebra with one witness each, and the accepted mixed-order shape;
   printed as JSON for the conformance harness (tools/c06.py), which must exercise a generator per family. *)
EXTENDS SignAlgebra
Inhabited == { f \in Families : \E x \in Case : Forgery(x) /\ Family(x) = f }
Witness(f) == CHOOSE x \in Case : Forgery(x) /\ Family(x) = f
NStrict == Cardinality({ x \in Case : Strict(x) })
NMixed  == Cardinality({ x \in Case : MixedOrder(x) })
NForged == Cardinality({ x \in Case : Forgery(x) })
ASSUME NStrict > 0 /\ NMixed > 0 /\ NForged > 0
ASSUME PrintT(ToJson([families |-> { [family |-> f, witness |-> Witness(f)] : f \in Inhabited },
                      empty |-> Families \ Inhabited,
                      cofactored_only |-> { CofShape(x) : x \in { y \in Case : CofOnly(y) } },
                      counts |-> [cases |-> Cardinality(Case), strict |-> NStrict, mixed_accepted |-> NMixed, forgeries |-> NForged]]))
\* the tables above are evaluated once (ASSUME); no state exploration is needed in this configuration
OneInit == c = [R |-> <<0, 0>>, A |-> <<0, 0>>, S |-> 0, k |-> 0]
OneSpec == OneInit /\ [][Next]_c
=============================================================================
