SPECIFICATION TSpec
CONSTANTS
  Mode = "Lazy"
  B = 128
  Key = 0
  Tmax = 100000000
INVARIANTS Refines Discipline SameCalls BufIsFunctionOfT
POSTCONDITION Accepted
CHECK_DEADLOCK FALSE
