------------------------------- MODULE IncHash -------------------------------
(***************************************************************************)
(* Incremental interfaces (property C08; buffering part of C18).           *)
(*                                                                         *)
(* Abstract layer: a message of T bytes has been absorbed; Final returns   *)
(* H(msg[0..T)).  Implementation layers, shaped like the code:             *)
(*   Lazy  (BLAKE2b, blake2b_soft.rs / blake2b_simd.rs `update`): block    *)
(*         128, the last full block is held back because it must be        *)
(*         compressed with the final flag;                                 *)
(*   Eager (Poly1305, poly1305_soft.rs `update`): block 16, every full     *)
(*         block is processed as soon as it is complete.                   *)
(* The state records the compress calls issued as <<offset, t, last>>      *)
(* (offset of the block's first message byte, byte counter passed to the   *)
(* compression, final flag) so that "any chunking issues exactly the       *)
(* one-shot function's calls" is checkable.  A keyed BLAKE2b absorbs the   *)
(* padded key as a first 128-byte block (Key = 128), which the counter     *)
(* includes.                                                               *)
(***************************************************************************)
EXTENDS Integers, Sequences, TLC

CONSTANTS Mode,    \* "Lazy" | "Eager"
          B,       \* block size: 128 | 16
          Key,     \* bytes absorbed at init (0, or 128 for keyed BLAKE2b)
          Tmax     \* bound on absorbed bytes

VARIABLES T,       \* bytes absorbed so far (including Key)
          b,       \* buffer fill
          boff,    \* message offset of the first buffered byte
          calls,   \* compress calls so far
          done, n  \* finalised?; size of the last update

vars == <<T, b, boff, calls, done, n>>

Blocks(from, k) == [j \in 1..k |-> <<from + B * (j - 1), from + B * j, FALSE>>]   \* k full blocks starting at offset `from`

Init == /\ T = Key /\ b = Key /\ boff = 0 /\ calls = <<>> /\ done = FALSE /\ n = 0
        /\ (Mode = "Eager" => Key = 0)

(* blake2b `update(input)` with k = |input| ------------------------------------------------ *)
LazyUpdate(k) ==
  IF k = 0 THEN UNCHANGED <<b, boff, calls>>
  ELSE IF k + b <= B THEN b' = b + k /\ UNCHANGED <<boff, calls>>
  ELSE LET start == IF b > 0 /\ b < B THEN B - b ELSE 0        \* top the buffer up to a full block
           rem   == k - start
           end   == IF rem > B /\ rem % B = 0 THEN k - B         \* keep one full block back
                    ELSE IF rem > B THEN k - (rem % B)
                    ELSE start
           nbuf  == IF b > 0 THEN 1 ELSE 0                       \* buf.chunks_exact(B): one block iff the buffer is non-empty (now full)
           cin   == (end - start) \div B
           inoff == T + start                                    \* message offset of input[start]
       IN /\ calls' = calls \o Blocks(boff, nbuf) \o Blocks(inoff, cin)
          /\ b' = k - end
          /\ boff' = T + end

(* poly1305 `update(input)` ----------------------------------------------------------------- *)
EagerUpdate(k) ==
  LET take == IF b > 0 THEN (IF B - b < k THEN B - b ELSE k) ELSE 0
      b1   == b + take
  IN IF b > 0 /\ b1 < B THEN b' = b1 /\ UNCHANGED <<boff, calls>>          \* still not a full block
     ELSE LET flushed == IF b > 0 THEN 1 ELSE 0
              m       == k - take
              full    == m - (m % B)
          IN /\ calls' = calls \o Blocks(boff, flushed) \o Blocks(T + take, full \div B)
             /\ b' = m % B
             /\ boff' = T + take + full

Update(k) == /\ ~done /\ T + k <= Tmax
             /\ T' = T + k /\ n' = k /\ done' = FALSE
             /\ IF Mode = "Lazy" THEN LazyUpdate(k) ELSE EagerUpdate(k)

(* finalisation ------------------------------------------------------------------------------ *)
Final == /\ ~done /\ done' = TRUE /\ n' = 0
         /\ IF Mode = "Lazy"
            THEN \* buffer holds 0..B bytes: one last compression over the zero-padded buffer, t = T
                 calls' = Append(calls, <<boff, T, TRUE>>)
            ELSE \* a partial block is padded with 0x01 0x00.. and processed without the high bit
                 calls' = IF b > 0 THEN Append(calls, <<boff, T, TRUE>>) ELSE calls
         /\ UNCHANGED <<T, b, boff>>

Next == (\E k \in 0..Tmax : Update(k)) \/ Final
Spec == Init /\ [][Next]_vars

(* ---- what the one-shot function does for a message of T bytes ------------------------------- *)
Canonical(t) ==
  IF Mode = "Lazy"
  THEN LET full == IF t = 0 THEN 0 ELSE (t - 1) \div B      \* all blocks but the last (the last may be full)
       IN Blocks(0, full) \o << <<B * full, t, TRUE>> >>
  ELSE LET full == t \div B
       IN Blocks(0, full) \o (IF t % B > 0 THEN << <<B * full, t, TRUE>> >> ELSE <<>>)

(* ---- properties ------------------------------------------------------------------------------ *)
TypeOK == T \in 0..Tmax /\ b \in 0..B /\ boff \in 0..Tmax

\* refinement: the buffered bytes are exactly the unprocessed tail of the message
Refines == /\ boff + b = T
           /\ boff % B = 0
           /\ boff = B * Len(SelectSeq(calls, LAMBDA c : ~c[3]))

\* the buffer discipline: lazy never leaves an empty buffer once bytes arrived; eager never a full one
Discipline == IF Mode = "Lazy" THEN (T > 0 => b \in 1..B) ELSE b \in 0..(B - 1)

\* any chunking issues the one-shot function's compress calls, in order, with the same counters
SameCalls == done => calls = Canonical(T)
PrefixCalls == ~done => (Len(calls) <= Len(Canonical(T)) /\ \A i \in 1..Len(calls) : calls[i] = Canonical(T)[i])

\* the table the harness compares the real buffer fill with (hook H3)
BufOf(t) == IF Mode = "Lazy" THEN (IF t = 0 THEN 0 ELSE ((t - 1) % B) + 1) ELSE t % B
BufIsFunctionOfT == b = BufOf(T)
=============================================================================
