------------------------------- MODULE MCAead -------------------------------
EXTENDS Aead, Json
\* the (construction, encrypt variant, fault kind, open variant) matrix with the verdict the specification
\* derives, exported for replay: one line per completed behaviour
Case == [cons |-> cons, enc |-> encv, open |-> openv, mlen |-> mlen, room |-> room, fault |-> fault, fpos |-> fpos,
         res |-> result.res, wirelen |-> Len(Combined(wire))]
Emit == (phase = "done") => PrintT(ToJson(Case))
=============================================================================
