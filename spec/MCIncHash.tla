------------------------------ MODULE MCIncHash ------------------------------
EXTENDS IncHash, Json
\* the buffer-fill table exported to the harness: entry t+1 = fill after t bytes (checked against every
\* reachable state by the invariant BufIsFunctionOfT)
TableMax == IF Tmax < 1500 THEN Tmax ELSE 1500
ASSUME PrintT(ToJson([mode |-> Mode, key |-> Key, buf |-> [i \in 1..(TableMax + 1) |-> BufOf(i - 1)]]))
=============================================================================
