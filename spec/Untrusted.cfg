SPECIFICATION Spec
INVARIANTS Total
CHECK_DEADLOCK FALSE
