SPECIFICATION GSpec
CONSTANTS
  MaxPush = 4
  MaxWrong = 1
  MaxRekey = 1
  Bases = {"One", "Mid", "MaxM1", "Max"}
  Tags = {0, 1, 2, 3}
  Ads = {0}
  Muts = {"ad", "flip", "foreign", "shortbuf"}
INVARIANTS Emit
CHECK_DEADLOCK FALSE
