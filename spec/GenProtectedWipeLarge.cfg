SPECIFICATION GSpec
CONSTANTS
  P = 4096
  Lens = {16, 65536, 70000, 100000, 131072}
  Handles = {1, 2}
  MaxAllocs = 5
  MaxOps = 3
  Budgets = {99}
  Focus = "wipe_large"
INVARIANTS Emit
CHECK_DEADLOCK FALSE
