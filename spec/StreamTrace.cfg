SPECIFICATION TSpec
CONSTANTS
  MaxPush = 1000000
  MaxWrong = 1000000
  MaxRekey = 1000000
  Bases = {"One", "Mid", "MaxM1", "Max"}
  Tags = {0}
  Ads = {0}
  Muts = {"ad", "flip", "foreign", "shortbuf"}
INVARIANTS CounterNeverZero Lockstep PrefixAuth TagDelivered
PROPERTIES RejectIsStutter
POSTCONDITION Accepted
CHECK_DEADLOCK FALSE
