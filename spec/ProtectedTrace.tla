--------------------------- MODULE ProtectedTrace ---------------------------
(***************************************************************************)
(* Trace validation (impl -> spec) for protected memory: operation         *)
(* sequences chosen at random by a Rust-side driver (not by the            *)
(* specification) are recorded with, after every call, the observed type   *)
(* state of both handles, the page table of every live allocation          *)
(* (/proc/self/smaps), the allocation sizes and the release events; the    *)
(* recording is accepted iff every event is the corresponding action of    *)
(* Protected.tla AND the primed variables project onto the observation.    *)
(***************************************************************************)
EXTENDS Protected, Json, IOUtils
Rec == ndJsonDeserialize(IOEnv.TRACE)
VARIABLE l
tvars == <<vars, l>>

PgCode(p) == (CASE p.prot = "rw" -> 0 [] p.prot = "r" -> 1 [] p.prot = "none" -> 2) + (IF p.locked THEN 4 ELSE 0)
FormOf(f) == CHOOSE fm \in Forms : fm.f = f

RegMatches(r, o) ==
  IF ~o.alive THEN ~r.alive
  ELSE /\ r.alive /\ r.wrap = o.wrap
       /\ (r.wrap = "Prot" => (r.pm = o.pm /\ r.lm = o.lm))
       /\ (o.len >= 0 => r.len = o.len)          \* no view of a no-access region: length not observable
       /\ o.contents_ok                          \* transitions, clones and resizes keep the bytes
AllocMatches(a, o) ==
  /\ a.cap = o.cap /\ a.live = o.live
  /\ (o.live => (Len(o.pages) = Len(a.pages) /\ \A i \in 1..Len(a.pages) : PgCode(a.pages[i]) = o.pages[i]))
ObsMatches(o) ==
  /\ \A h \in Handles : RegMatches(regs'[h], o.regs[h])
  /\ Len(allocs') = Len(o.allocs) /\ \A a \in 1..Len(allocs') : AllocMatches(allocs'[a], o.allocs[a])
  /\ Len(released') = Len(o.rel)
  /\ \A i \in 1..Len(released') : (released'[i].size = o.rel[i].size /\ o.rel[i].nz = 0)     \* C15

IsEv(k) == l <= Len(Rec) /\ Rec[l].ev = k /\ l' = l + 1

TInit == Init /\ l = 1
TReset == /\ IsEv("reset")
          /\ regs' = [h \in Handles |-> Dead] /\ allocs' = <<>> /\ released' = <<>> /\ nops' = 0
          /\ budget' = 99 /\ res' = "init" /\ lastop' = <<"init">>

Act(op) ==
  CASE op[1] = "ctor"       -> Ctor(op[2], FormOf(op[3]), op[4], op[5])
    [] op[1] = "heap_mlock" -> HeapMlock(op[2])
    [] op[1] = "mlock"      -> Lock(op[2])
    [] op[1] = "munlock"    -> Unlock(op[2])
    [] op[1] = "mprotect"   -> Protect(op[2], op[3])
    [] op[1] = "clone"      -> Clone(op[2], op[3])
    [] op[1] = "resize"     -> Resize(op[2], op[3])
    [] op[1] = "fill"       -> Fill(op[2])
    [] op[1] = "drop"       -> Drop(op[2])
    [] op[1] = "composite"  -> Composite(CHOOSE cf \in CompForms : cf.f = op[3])
    [] op[1] = "deserialize" -> Deserialize(CHOOSE df \in DeserForms : df.f = op[3])

TOp == /\ IsEv("op")
       /\ Act(Rec[l].op)
       /\ res' = Rec[l].res
       /\ ObsMatches(Rec[l].obs)

\* end of a run: the driver dropped what was left; nothing may remain allocated, locked or protected
TEnd == /\ IsEv("end")
        /\ \A a \in 1..Len(Rec[l].obs.allocs) : ~Rec[l].obs.allocs[a].live
        /\ \A i \in 1..Len(Rec[l].obs.rel) : Rec[l].obs.rel[i].nz = 0
        /\ Rec[l].vmlck_kb = 0
        /\ UNCHANGED vars

TNext == TReset \/ TOp \/ TEnd
TSpec == TInit /\ [][TNext]_tvars

Accepted == LET d == TLCGet("stats").diameter IN
   IF d - 1 = Len(Rec) THEN TRUE
   ELSE PrintT(<<"REJECT at event", d, IF Rec[d].ev = "op" THEN [ev |-> "op", op |-> Rec[d].op, res |-> Rec[d].res] ELSE [ev |-> Rec[d].ev]>>) /\ FALSE
=============================================================================
