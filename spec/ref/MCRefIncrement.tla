-------------------------- MODULE MCRefIncrement --------------------------
(* Checks for Increment.tla (libsodium sodium_increment / sodium_is_zero semantics). *)
EXTENDS Increment, TLC

NTests == 8
Test(k) ==
  CASE k = 1 -> Increment(<<>>) = <<>> /\ IsZero(<<>>)   \* empty
    [] k = 2 -> Increment(<<0>>) = <<1>> /\ Increment(<<254, 7>>) = <<255, 7>>   \* simple
    [] k = 3 -> Increment(<<255, 7>>) = <<0, 8>> /\ Increment(<<255, 255, 0>>) = <<0, 0, 1>>   \* carry
    [] k = 4 -> Increment(<<255>>) = <<0>> /\ Increment([i \in 1..24 |-> 255]) = [i \in 1..24 |-> 0]   \* wrap
    [] k = 5 -> IsZero(<<0, 0, 0>>) /\ ~IsZero(<<0, 0, 1>>) /\ ~IsZero(<<128>>) /\ IsZero(Increment(<<255, 255>>))   \* is zero
    [] k = 6 -> Increment(<<255,255,255,255,255,255,255,255,0,0,0,0>>) = <<0,0,0,0,0,0,0,0,1,0,0,0>>   \* 12-byte nonce
    [] k = 7 -> (\A a, b \in 0..255 : Increment(<<a, b>>) = IncrementSpec(<<a, b>>)) /\ (\A s \in [1..4 -> {0, 254, 255}] : Increment(s) = IncrementSpec(s))   \* exhaustive over 2-byte strings and a 3-digit alphabet on 4 bytes vs declarative spec
    [] k = 8 -> \A a, b \in 0..255 : LET r == Increment(<<a, b>>) IN r[1] + 256 * r[2] = (a + 256 * b + 1) % 65536   \* 2-byte increment is +1 mod 65536

\* Each vector is checked by the invariant on a non-initial state, i.e. on a TLC worker
\* thread (workers honour -Xss from JAVA_TOOL_OPTIONS; the main thread that evaluates
\* ASSUMEs and constant definitions keeps its 1 MB default unless JDK_JAVA_OPTIONS is used).
\* A failing vector shows up as a violation of AllPass with tn = its number.
VARIABLE tn
Init == tn = 0
\* four interleaved chains 0 -> j -> j+4 -> j+8 ... so that 4 workers share the vectors
Lanes == 4
Next == \/ tn = 0 /\ tn' \in 1..(IF NTests < Lanes THEN NTests ELSE Lanes)
        \/ tn > 0 /\ tn + Lanes <= NTests /\ tn' = tn + Lanes
Spec == Init /\ [][Next]_tn
AllPass == tn > 0 => Test(tn)
============================================================================
