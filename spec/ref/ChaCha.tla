----------------------------- MODULE ChaCha -----------------------------
(* ChaCha20 (RFC 8439 section 2.1 - 2.4, IETF variant: 32-bit counter,   *)
(* 96-bit nonce) and HChaCha20 (draft-irtf-cfrg-xchacha section 2.2).    *)
(* State: sequence of 16 Words32 words, index 1..16 = RFC words 0..15.   *)
EXTENDS Naturals, Sequences, Words32
LOCAL INSTANCE SequencesExt

\* "expand 32-byte k"
ChaChaSigma == <<101, 120, 112, 97, 110, 100, 32, 51, 50, 45, 98, 121, 116, 101, 32, 107>>

\* RFC 8439 2.1 quarter round on four words; result <<a, b, c, d>>
ChaChaQR(a, b, c, d) ==
    LET a1 == W32Add(a, b)
        d1 == W32Rotl(W32Xor(d, a1), 16)
        c1 == W32Add(c, d1)
        b1 == W32Rotl(W32Xor(b, c1), 12)
        a2 == W32Add(a1, b1)
        d2 == W32Rotl(W32Xor(d1, a2), 8)
        c2 == W32Add(c1, d2)
        b2 == W32Rotl(W32Xor(b1, c2), 7)
    IN <<a2, b2, c2, d2>>

\* RFC 8439 2.3: one column round followed by one diagonal round
ChaChaDoubleRound(s) ==
    LET c0 == ChaChaQR(s[1], s[5], s[9],  s[13])
        c1 == ChaChaQR(s[2], s[6], s[10], s[14])
        c2 == ChaChaQR(s[3], s[7], s[11], s[15])
        c3 == ChaChaQR(s[4], s[8], s[12], s[16])
        \* state after the column round
        t  == <<c0[1], c1[1], c2[1], c3[1],
                c0[2], c1[2], c2[2], c3[2],
                c0[3], c1[3], c2[3], c3[3],
                c0[4], c1[4], c2[4], c3[4]>>
        d0 == ChaChaQR(t[1], t[6], t[11], t[16])
        d1 == ChaChaQR(t[2], t[7], t[12], t[13])
        d2 == ChaChaQR(t[3], t[8], t[9],  t[14])
        d3 == ChaChaQR(t[4], t[5], t[10], t[15])
    IN <<d0[1], d1[1], d2[1], d3[1],
         d3[2], d0[2], d1[2], d2[2],
         d2[3], d3[3], d0[3], d1[3],
         d1[4], d2[4], d3[4], d0[4]>>

\* the 20-round permutation (10 double rounds), no feed-forward.  FoldLeft is Java-overridden:
\* iterative and strict per step, so no deep lazy chain builds up across rounds.
ChaCha20Perm(s) == FoldLeft(LAMBDA acc, i : ChaChaDoubleRound(acc), s, <<1, 2, 3, 4, 5, 6, 7, 8, 9, 10>>)

\* block function with the counter given as a Words32 word
ChaCha20BlockW(key32, counterW, nonce12) ==
    LET init == W32SeqFromBytesLE(ChaChaSigma) \o W32SeqFromBytesLE(key32)
                \o <<counterW>> \o W32SeqFromBytesLE(nonce12)
        w    == ChaCha20Perm(init)
    IN W32SeqToBytesLE(Strict([i \in 1..16 |-> W32Add(w[i], init[i])]))

\* RFC 8439 2.3; counterNat < 2^31 (TLC integer range)
ChaCha20Block(key32, counterNat, nonce12) == ChaCha20BlockW(key32, W32FromNat(counterNat), nonce12)

\* RFC 8439 2.4: bytes XOR keystream; block j uses counter initialCounter + j (mod 2^32)
ChaCha20XorW(key32, nonce12, counterW, bytes) ==
    LET nb == (Len(bytes) + 63) \div 64
        ks == Strict([j \in 1..nb |-> ChaCha20BlockW(key32, W32Add(counterW, W32FromNat(j - 1)), nonce12)])
    IN Strict([i \in 1..Len(bytes) |-> bytes[i] ^^ ks[((i - 1) \div 64) + 1][((i - 1) % 64) + 1]])

ChaCha20Xor(key32, nonce12, initialCounter, bytes) ==
    ChaCha20XorW(key32, nonce12, W32FromNat(initialCounter), bytes)

\* HChaCha20 with explicit constant (libsodium crypto_core_hchacha20 optional c):
\* words 0..3 and 12..15 of the permuted state, no feed-forward
HChaCha20C(key32, in16, const16) ==
    LET w == ChaCha20Perm(W32SeqFromBytesLE(const16) \o W32SeqFromBytesLE(key32) \o W32SeqFromBytesLE(in16))
    IN W32SeqToBytesLE(<<w[1], w[2], w[3], w[4], w[13], w[14], w[15], w[16]>>)

HChaCha20(key32, in16) == HChaCha20C(key32, in16, ChaChaSigma)
=========================================================================
