------------------------------- MODULE Sha512 -------------------------------
(***************************************************************************)
(* SHA-512, FIPS 180-4.                                                    *)
(*                                                                         *)
(*   Sha512(msg)  msg: byte sequence (length < 2^31 - 144)  ->  64 bytes   *)
(*                                                                         *)
(* Words are Words64 words (four 16-bit limbs, little-endian limb order);  *)
(* SHA-512 itself is big-endian at the byte level.                         *)
(*                                                                         *)
(* TLC evaluation strategy: see the note in Blake2b.tla.  All loops use    *)
(* FoldLeft (Java-overridden, iterative and strict) from SequencesExt, so  *)
(* no deep Java stack is needed.                                           *)
(***************************************************************************)
EXTENDS Naturals, Sequences, Words64
LOCAL INSTANCE SequencesExt

\* FIPS 180-4 section 4.2.3: first 64 bits of the fractional parts of the cube
\* roots of the first eighty primes.
Sha512K == <<
  W64Lit(\h428a, \h2f98, \hd728, \hae22), W64Lit(\h7137, \h4491, \h23ef, \h65cd),
  W64Lit(\hb5c0, \hfbcf, \hec4d, \h3b2f), W64Lit(\he9b5, \hdba5, \h8189, \hdbbc),
  W64Lit(\h3956, \hc25b, \hf348, \hb538), W64Lit(\h59f1, \h11f1, \hb605, \hd019),
  W64Lit(\h923f, \h82a4, \haf19, \h4f9b), W64Lit(\hab1c, \h5ed5, \hda6d, \h8118),
  W64Lit(\hd807, \haa98, \ha303, \h0242), W64Lit(\h1283, \h5b01, \h4570, \h6fbe),
  W64Lit(\h2431, \h85be, \h4ee4, \hb28c), W64Lit(\h550c, \h7dc3, \hd5ff, \hb4e2),
  W64Lit(\h72be, \h5d74, \hf27b, \h896f), W64Lit(\h80de, \hb1fe, \h3b16, \h96b1),
  W64Lit(\h9bdc, \h06a7, \h25c7, \h1235), W64Lit(\hc19b, \hf174, \hcf69, \h2694),
  W64Lit(\he49b, \h69c1, \h9ef1, \h4ad2), W64Lit(\hefbe, \h4786, \h384f, \h25e3),
  W64Lit(\h0fc1, \h9dc6, \h8b8c, \hd5b5), W64Lit(\h240c, \ha1cc, \h77ac, \h9c65),
  W64Lit(\h2de9, \h2c6f, \h592b, \h0275), W64Lit(\h4a74, \h84aa, \h6ea6, \he483),
  W64Lit(\h5cb0, \ha9dc, \hbd41, \hfbd4), W64Lit(\h76f9, \h88da, \h8311, \h53b5),
  W64Lit(\h983e, \h5152, \hee66, \hdfab), W64Lit(\ha831, \hc66d, \h2db4, \h3210),
  W64Lit(\hb003, \h27c8, \h98fb, \h213f), W64Lit(\hbf59, \h7fc7, \hbeef, \h0ee4),
  W64Lit(\hc6e0, \h0bf3, \h3da8, \h8fc2), W64Lit(\hd5a7, \h9147, \h930a, \ha725),
  W64Lit(\h06ca, \h6351, \he003, \h826f), W64Lit(\h1429, \h2967, \h0a0e, \h6e70),
  W64Lit(\h27b7, \h0a85, \h46d2, \h2ffc), W64Lit(\h2e1b, \h2138, \h5c26, \hc926),
  W64Lit(\h4d2c, \h6dfc, \h5ac4, \h2aed), W64Lit(\h5338, \h0d13, \h9d95, \hb3df),
  W64Lit(\h650a, \h7354, \h8baf, \h63de), W64Lit(\h766a, \h0abb, \h3c77, \hb2a8),
  W64Lit(\h81c2, \hc92e, \h47ed, \haee6), W64Lit(\h9272, \h2c85, \h1482, \h353b),
  W64Lit(\ha2bf, \he8a1, \h4cf1, \h0364), W64Lit(\ha81a, \h664b, \hbc42, \h3001),
  W64Lit(\hc24b, \h8b70, \hd0f8, \h9791), W64Lit(\hc76c, \h51a3, \h0654, \hbe30),
  W64Lit(\hd192, \he819, \hd6ef, \h5218), W64Lit(\hd699, \h0624, \h5565, \ha910),
  W64Lit(\hf40e, \h3585, \h5771, \h202a), W64Lit(\h106a, \ha070, \h32bb, \hd1b8),
  W64Lit(\h19a4, \hc116, \hb8d2, \hd0c8), W64Lit(\h1e37, \h6c08, \h5141, \hab53),
  W64Lit(\h2748, \h774c, \hdf8e, \heb99), W64Lit(\h34b0, \hbcb5, \he19b, \h48a8),
  W64Lit(\h391c, \h0cb3, \hc5c9, \h5a63), W64Lit(\h4ed8, \haa4a, \he341, \h8acb),
  W64Lit(\h5b9c, \hca4f, \h7763, \he373), W64Lit(\h682e, \h6ff3, \hd6b2, \hb8a3),
  W64Lit(\h748f, \h82ee, \h5def, \hb2fc), W64Lit(\h78a5, \h636f, \h4317, \h2f60),
  W64Lit(\h84c8, \h7814, \ha1f0, \hab72), W64Lit(\h8cc7, \h0208, \h1a64, \h39ec),
  W64Lit(\h90be, \hfffa, \h2363, \h1e28), W64Lit(\ha450, \h6ceb, \hde82, \hbde9),
  W64Lit(\hbef9, \ha3f7, \hb2c6, \h7915), W64Lit(\hc671, \h78f2, \he372, \h532b),
  W64Lit(\hca27, \h3ece, \hea26, \h619c), W64Lit(\hd186, \hb8c7, \h21c0, \hc207),
  W64Lit(\heada, \h7dd6, \hcde0, \heb1e), W64Lit(\hf57d, \h4f7f, \hee6e, \hd178),
  W64Lit(\h06f0, \h67aa, \h7217, \h6fba), W64Lit(\h0a63, \h7dc5, \ha2c8, \h98a6),
  W64Lit(\h113f, \h9804, \hbef9, \h0dae), W64Lit(\h1b71, \h0b35, \h131c, \h471b),
  W64Lit(\h28db, \h77f5, \h2304, \h7d84), W64Lit(\h32ca, \hab7b, \h40c7, \h2493),
  W64Lit(\h3c9e, \hbe0a, \h15c9, \hbebc), W64Lit(\h431d, \h67c4, \h9c10, \h0d4c),
  W64Lit(\h4cc5, \hd4be, \hcb3e, \h42b6), W64Lit(\h597f, \h299c, \hfc65, \h7e2a),
  W64Lit(\h5fcb, \h6fab, \h3ad6, \hfaec), W64Lit(\h6c44, \h198c, \h4a47, \h5817) >>

\* FIPS 180-4 section 5.3.5: first 64 bits of the fractional parts of the square
\* roots of the first eight primes.
Sha512H0 == <<
  W64Lit(\h6a09, \he667, \hf3bc, \hc908), W64Lit(\hbb67, \hae85, \h84ca, \ha73b),
  W64Lit(\h3c6e, \hf372, \hfe94, \hf82b), W64Lit(\ha54f, \hf53a, \h5f1d, \h36f1),
  W64Lit(\h510e, \h527f, \hade6, \h82d1), W64Lit(\h9b05, \h688c, \h2b3e, \h6c1f),
  W64Lit(\h1f83, \hd9ab, \hfb41, \hbd6b), W64Lit(\h5be0, \hcd19, \h137e, \h2179) >>

\* FIPS 180-4 section 4.1.3
Sha512Ch(x, y, z)  == W64Xor(W64And(x, y), W64And(W64Not(x), z))
Sha512Maj(x, y, z) == W64Xor(W64Xor(W64And(x, y), W64And(x, z)), W64And(y, z))
Sha512BSig0(x) == W64Xor(W64Xor(W64Rotr(x, 28), W64Rotr(x, 34)), W64Rotr(x, 39))
Sha512BSig1(x) == W64Xor(W64Xor(W64Rotr(x, 14), W64Rotr(x, 18)), W64Rotr(x, 41))
Sha512SSig0(x) == W64Xor(W64Xor(W64Rotr(x, 1),  W64Rotr(x, 8)),  W64Shr(x, 7))
Sha512SSig1(x) == W64Xor(W64Xor(W64Rotr(x, 19), W64Rotr(x, 61)), W64Shr(x, 6))

(***************************************************************************)
(* Message schedule (section 6.4.2 step 1) of the 128-byte block at        *)
(* 0-based offset off of bs: an 80-tuple w with w[t + 1] = W_t.            *)
(*   W_t = M_t                                               0 <= t <= 15  *)
(*   W_t = ssig1(W_{t-2}) + W_{t-7} + ssig0(W_{t-15}) + W_{t-16}   t >= 16 *)
(***************************************************************************)
Sha512Schedule(bs, off) ==
  FoldLeft(LAMBDA w, t :
             Append(w, W64Add(W64Add(Sha512SSig1(w[t - 1]), w[t - 6]),
                              W64Add(Sha512SSig0(w[t - 14]), w[t - 15]))),
           [k \in 1..16 |-> W64AtBE(bs, off + 8 * (k - 1))],
           [i \in 1..64 |-> 15 + i])          \* t = 16 .. 79; W_{t-j} = w[t - j + 1]

\* One round t (0-based), section 6.4.2 step 3, on s = <<a, b, c, d, e, f, g, h>>.
Sha512Round(s, w, t) ==
  LET T1 == W64Add(W64Add(W64Add(s[8], Sha512BSig1(s[5])), Sha512Ch(s[5], s[6], s[7])),
                   W64Add(Sha512K[t + 1], w[t + 1]))
      T2 == W64Add(Sha512BSig0(s[1]), Sha512Maj(s[1], s[2], s[3]))
  IN IF Len(T1) = 4 /\ Len(T2) = 4       \* always true; evaluates T1, T2 one after the other
     THEN << W64Add(T1, T2), s[1], s[2], s[3], W64Add(s[4], T1), s[5], s[6], s[7] >>
     ELSE <<>>

\* Section 6.4.2: process the 128-byte block at 0-based offset off of bs.
Sha512Compress(h, bs, off) ==
  LET w == Sha512Schedule(bs, off)
      s == FoldLeft(LAMBDA acc, t : Sha512Round(acc, w, t), h, [i \in 1..80 |-> i - 1])
  IN IF Len(w) = 80           \* always true; evaluates the schedule before the rounds start
     THEN << W64Add(h[1], s[1]), W64Add(h[2], s[2]), W64Add(h[3], s[3]), W64Add(h[4], s[4]),
             W64Add(h[5], s[5]), W64Add(h[6], s[6]), W64Add(h[7], s[7]), W64Add(h[8], s[8]) >>
     ELSE <<>>

(***************************************************************************)
(* Section 5.1.2 padding: 0x80, then k zero bytes with                     *)
(* Len + 1 + k = 112 (mod 128), then the bit length as a 128-bit           *)
(* big-endian integer.  The bit length 8 * n is written without ever       *)
(* forming 8 * n (n may be close to 2^31): its bytes are                   *)
(*   ... (n \div 2^21) % 256, (n \div 2^13) % 256, (n \div 2^5) % 256,     *)
(*   (n % 32) * 8.                                                         *)
(***************************************************************************)
Sha512Pad(msg) ==
  LET n == Len(msg)
      k == (239 - (n % 128)) % 128
  IN msg \o <<128>> \o [i \in 1..k |-> 0]
         \o <<0, 0, 0, 0, 0, 0, 0, 0, 0, 0, 0,
              (n \div 536870912) % 256, (n \div 2097152) % 256,
              (n \div 8192) % 256, (n \div 32) % 256, (n % 32) * 8>>

Sha512StateBytes(h) ==
  W64ToBytesBE(h[1]) \o W64ToBytesBE(h[2]) \o W64ToBytesBE(h[3]) \o W64ToBytesBE(h[4]) \o
  W64ToBytesBE(h[5]) \o W64ToBytesBE(h[6]) \o W64ToBytesBE(h[7]) \o W64ToBytesBE(h[8])

Sha512(msg) ==
  LET padded == Sha512Pad(msg)
      h == FoldLeft(LAMBDA acc, k : Sha512Compress(acc, padded, 128 * k),
                    Sha512H0, [k \in 1..(Len(padded) \div 128) |-> k - 1])
  IN Sha512StateBytes(h)

=============================================================================
