SPECIFICATION Spec
INVARIANT Report
INVARIANT Consistent
CHECK_DEADLOCK FALSE
