----------------------------- MODULE BigNat -----------------------------
(* Arbitrary-size naturals for TLC (32-bit signed integers).              *)
(* A BigNat is a little-endian sequence of 13-bit limbs (0..8191) with no *)
(* most-significant zero limb; zero is <<>>.  13 bits keep limb products  *)
(* below 2^26 and sums of up to 31 products (plus carry) below 2^31.      *)
(* All results are concrete tuples (never unevaluated TLC lambdas).       *)
(* Loops use the Java-overridden FoldLeft: iterative and strict, so the   *)
(* operators are usable from the 1 MB main thread (ASSUME, constants).    *)
EXTENDS Naturals, Sequences
LOCAL INSTANCE SequencesExt

BNBase == 8192
BNZero == <<>>
BNOne  == <<1>>

BNGet(a, i) == IF i <= Len(a) THEN a[i] ELSE 0
BNMax(x, y) == IF x > y THEN x ELSE y
BNMin(x, y) == IF x < y THEN x ELSE y
\* <<lo, lo+1, ..., hi>> as a sequence (empty if hi < lo)
BNRange(lo, hi) == [t \in 1..(IF hi >= lo THEN hi - lo + 1 ELSE 0) |-> lo + t - 1]

IsBN(a) == /\ a \in Seq(0..(BNBase - 1))
           /\ Len(a) > 0 => a[Len(a)] # 0

\* drop most-significant zero limbs
BNTrim(a) == LET top == FoldLeft(LAMBDA acc, i : IF a[i] # 0 THEN i ELSE acc, 0, BNRange(1, Len(a)))
             IN SubSeq(a, 1, top)

\* carry-propagate a sequence of column values (each < 2^31 - 2^18) into limbs, trimmed
BNNorm(cols) ==
    LET step(acc, v) == LET t == v + acc[2] IN <<Append(acc[1], t % BNBase), t \div BNBase>>
        r == FoldLeft(step, << <<>>, 0 >>, cols \o <<0, 0>>)    \* final carry < 2^18: two more limbs
    IN BNTrim(r[1])

\* n < 2^31
BNFromNat(n) == BNTrim(<<n % BNBase, (n \div BNBase) % BNBase, n \div (BNBase * BNBase)>>)

BNAdd(a, b) == BNNorm([i \in 1..BNMax(Len(a), Len(b)) |-> BNGet(a, i) + BNGet(b, i)])

\* k < 2^17
BNMulSmall(a, k) == BNNorm([i \in 1..Len(a) |-> a[i] * k])
BNAddSmall(a, k) == BNAdd(a, BNFromNat(k))

\* requires BNMin(Len(a), Len(b)) <= 31  (i.e. the smaller factor < 2^403)
BNMul(a, b) ==
    LET la == Len(a)
        lb == Len(b)
        col(k) == LET lo == BNMax(1, k + 1 - lb)
                      hi == BNMin(k, la)
                  IN FoldLeft(LAMBDA acc, i : acc + a[i] * b[k + 1 - i], 0, BNRange(lo, hi))
    IN IF la = 0 \/ lb = 0 THEN <<>> ELSE BNNorm([k \in 1..(la + lb - 1) |-> col(k)])

\* comparison: 0 if a < b, 1 if a = b, 2 if a > b
BNCmp(a, b) == FoldLeft(LAMBDA acc, i : IF BNGet(a, i) > BNGet(b, i) THEN 2
                                        ELSE IF BNGet(a, i) < BNGet(b, i) THEN 0 ELSE acc,
                        1, BNRange(1, BNMax(Len(a), Len(b))))
BNGeq(a, b) == BNCmp(a, b) >= 1
BNEq(a, b) == BNCmp(a, b) = 1

\* a - b, requires a >= b
BNSub(a, b) ==
    LET step(acc, i) == LET v == a[i] + BNBase - BNGet(b, i) - acc[2]
                        IN <<Append(acc[1], v % BNBase), IF v < BNBase THEN 1 ELSE 0>>
        r == FoldLeft(step, << <<>>, 0 >>, BNRange(1, Len(a)))
    IN BNTrim(r[1])

\* limbs lo..hi of a (1-based, inclusive) as a BigNat: floor(a / 2^(13(lo-1))) mod 2^(13(hi-lo+1))
BNLimbs(a, lo, hi) == BNTrim(SubSeq(a, lo, BNMin(hi, Len(a))))

\* little-endian byte string -> BigNat.  Limb j (0-based) holds bits 13j .. 13j+12, which
\* lie within bytes floor(13j/8) .. floor(13j/8)+2.
BNFromBytesLE(bs) ==
    LET n == Len(bs)
        byte(i) == IF i <= n THEN bs[i] ELSE 0                \* 1-based
        limb(j) == LET q == (13 * j) \div 8
                       s == (13 * j) % 8
                       v == byte(q + 1) + 256 * byte(q + 2) + 65536 * byte(q + 3)
                   IN (v \div (2 ^ s)) % BNBase
    IN BNTrim([j \in 1..(((8 * n) + 12) \div 13) |-> limb(j - 1)] \o <<>>)

\* BigNat -> n bytes little-endian (value mod 256^n).  Byte i (0-based) holds bits
\* 8i .. 8i+7, which lie within limbs floor(8i/13) and floor(8i/13)+1.
BNToBytesLE(a, n) ==
    LET byte(i) == LET q == (8 * i) \div 13
                       s == (8 * i) % 13
                       v == BNGet(a, q + 1) + BNBase * BNGet(a, q + 2)
                   IN (v \div (2 ^ s)) % 256
    IN [i \in 1..n |-> byte(i - 1)] \o <<>>

\* bit k (0-based) of a
BNBit(a, k) == (BNGet(a, (k \div 13) + 1) \div (2 ^ (k % 13))) % 2
=========================================================================
