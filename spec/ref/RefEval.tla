------------------------------- MODULE RefEval -------------------------------
(***************************************************************************)
(* Batch evaluator: the executable reference modules as an oracle.  Jobs   *)
(* are read from an ndjson file (IOEnv.JOBS), one record per line with a   *)
(* field "fn" naming the function and its operands as sequences of bytes;  *)
(* every job's value is printed as one JSON line [id, out].  Jobs are      *)
(* spread over a two-level state graph so that TLC's workers evaluate them *)
(* in parallel (and on worker threads, which have the large stack).        *)
(* Values depend on the specification only, never on the code under test.  *)
(***************************************************************************)
EXTENDS Naturals, Sequences, TLC, Json, IOUtils,
        Blake2b, Sha512, Hmac, SipHash, Kdf, Argon2, ChaCha, Salsa, Poly1305, X25519, Increment

Jobs == ndJsonDeserialize(IOEnv.JOBS)
N == Len(Jobs)
G == 64                                   \* group size

Eval(j) ==
  CASE j.fn = "blake2b"      -> Blake2b(j.msg, j.key, j.outlen, j.salt, j.personal)
    [] j.fn = "sha512"       -> Sha512(j.msg)
    [] j.fn = "hmacsha512256" -> HmacSha512256(j.key, j.msg)
    [] j.fn = "siphash24"    -> SipHash24(j.key, j.msg)
    [] j.fn = "kdf"          -> KdfDerive(j.outlen, j.subkey_id, j.ctx, j.key)
    [] j.fn = "argon2"       -> Argon2(j.type, j.pwd, j.salt, j.t, j.m, j.outlen)
    [] j.fn = "hchacha20"    -> IF Len(j.const) = 16 THEN HChaCha20C(j.key, j.input, j.const) ELSE HChaCha20(j.key, j.input)
    [] j.fn = "hsalsa20"     -> IF Len(j.const) = 16 THEN HSalsa20C(j.key, j.input, j.const) ELSE HSalsa20(j.key, j.input)
    [] j.fn = "secretbox"    -> SecretboxSeal(j.key, j.nonce, j.msg)
    [] j.fn = "poly1305"     -> Poly1305(j.key, j.msg)
    [] j.fn = "x25519"       -> X25519(j.scalar, j.point)
    [] j.fn = "x25519base"   -> X25519Base(j.scalar)
    [] j.fn = "increment"    -> Increment(j.msg)
    [] j.fn = "chacha20xor"  -> ChaCha20Xor(j.key, j.nonce, j.counter, j.msg)

VARIABLES g, i
Init == g = 0 /\ i = 0
Next == \/ g = 0 /\ i = 0 /\ \E k \in 1..((N + G - 1) \div G) : g' = k /\ i' = 0
        \/ g > 0 /\ i = 0 /\ \E k \in ((g - 1) * G + 1)..(IF g * G < N THEN g * G ELSE N) : i' = k /\ g' = g
Spec == Init /\ [][Next]_<<g, i>>
Emit == (i > 0) => PrintT(ToJson([id |-> Jobs[i].id, out |-> Eval(Jobs[i])]))
=============================================================================
