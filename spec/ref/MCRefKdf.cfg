SPECIFICATION Spec
