---- MODULE Poly ----
EXTENDS Naturals, Sequences, Bitwise, TLC
\* big naturals as little-endian sequences of 13-bit limbs
B == 8192
Get(a, i) == IF i <= Len(a) THEN a[i] ELSE 0
Max(x, y) == IF x > y THEN x ELSE y
RECURSIVE Carry(_, _, _)
Carry(cols, i, c) == IF i > Len(cols) THEN (IF c = 0 THEN <<>> ELSE <<c % B>> \o Carry(cols, i, c \div B))
                     ELSE LET v == cols[i] + c IN <<v % B>> \o Carry(cols, i + 1, v \div B)
RECURSIVE Trim(_)
Trim(a) == IF Len(a) > 0 /\ a[Len(a)] = 0 THEN Trim(SubSeq(a, 1, Len(a) - 1)) ELSE a
Norm(cols) == Trim(Carry(cols, 1, 0))
Add(a, b) == Norm([i \in 1..Max(Len(a), Len(b)) |-> Get(a, i) + Get(b, i)])
MulSmall(a, k) == Norm([i \in 1..Len(a) |-> a[i] * k])        \* k < 2^17
AddSmall(a, k) == Add(a, <<k>>)
Col(a, b, k) == LET lo == Max(1, k + 1 - Len(b))
                    hi == IF k < Len(a) THEN k ELSE Len(a)
                    RECURSIVE S(_)
                    S(i) == IF i > hi THEN 0 ELSE a[i] * b[k + 1 - i] + S(i + 1)
                IN S(lo)
Mul(a, b) == IF Len(a) = 0 \/ Len(b) = 0 THEN <<>> ELSE Norm([k \in 1..(Len(a) + Len(b) - 1) |-> Col(a, b, k)])
RECURSIVE GeqFrom(_, _, _)
GeqFrom(a, b, i) == IF i = 0 THEN TRUE ELSE IF Get(a, i) > Get(b, i) THEN TRUE ELSE IF Get(a, i) < Get(b, i) THEN FALSE ELSE GeqFrom(a, b, i - 1)
Geq(a, b) == GeqFrom(a, b, Max(Len(a), Len(b)))
\* a - b for a >= b
RECURSIVE SubFrom(_, _, _, _)
SubFrom(a, b, i, bw) == IF i > Len(a) THEN <<>>
                        ELSE LET v == a[i] + B - Get(b, i) - bw IN <<v % B>> \o SubFrom(a, b, i + 1, IF v < B THEN 1 ELSE 0)
Sub(a, b) == Trim(SubFrom(a, b, 1, 0))
\* p = 2^130 - 5 : ten limbs, all 8191 except the lowest = 8187
PL == <<8187, 8191, 8191, 8191, 8191, 8191, 8191, 8191, 8191, 8191>>
RECURSIVE Fold(_)
Fold(x) == IF Len(x) <= 10 THEN x ELSE Fold(Add(SubSeq(x, 1, 10), MulSmall(SubSeq(x, 11, Len(x)), 5)))
ModP(x) == LET f == Fold(Trim(x)) IN IF Geq(f, PL) THEN Sub(f, PL) ELSE f
\* bytes (little-endian) -> number
RECURSIVE FromBytesR(_, _)
FromBytesR(bs, i) == IF i = 0 THEN <<>> ELSE AddSmall(MulSmall(FromBytesR(bs, i - 1), 256), bs[Len(bs) + 1 - i])
\* Horner from the most significant byte: process bs[Len], bs[Len-1], ...
RECURSIVE Horner(_, _)
Horner(bs, i) == IF i > Len(bs) THEN <<>> ELSE AddSmall(MulSmall(Horner(bs, i + 1), 256), bs[i])
FromBytes(bs) == Horner(bs, 1)
\* number -> n bytes little-endian (mod 256^n)
Bit(a, k) == (Get(a, (k \div 13) + 1) \div (2 ^ (k % 13))) % 2
ByteAt(a, j) == LET RECURSIVE Sum(_)
                    Sum(t) == IF t = 8 THEN 0 ELSE Bit(a, 8 * j + t) * (2 ^ t) + Sum(t + 1)
                IN Sum(0)
ToBytes(a, n) == [j \in 1..n |-> ByteAt(a, j - 1)]
Clamp(rb) == [i \in 1..16 |-> IF i \in {4, 8, 12, 16} THEN rb[i] & 15 ELSE IF i \in {5, 9, 13} THEN rb[i] & 252 ELSE rb[i]]
RECURSIVE Blocks(_, _, _, _)
Blocks(h, r, msg, off) == IF off >= Len(msg) THEN h
                          ELSE LET e == IF off + 16 <= Len(msg) THEN off + 16 ELSE Len(msg)
                                   n == FromBytes(SubSeq(msg, off + 1, e) \o <<1>>)
                               IN Blocks(ModP(Mul(Add(h, n), r)), r, msg, e)
Poly1305(key, msg) == LET r == FromBytes(Clamp(SubSeq(key, 1, 16)))
                          s == FromBytes(SubSeq(key, 17, 32))
                          h == Blocks(<<>>, r, msg, 0)
                      IN ToBytes(Add(h, s), 16)
\* RFC 8439 2.5.2
RfcKey == <<133,214,190,120,87,85,109,51,127,68,82,254,66,213,6,168,1,3,128,138,251,13,178,253,74,191,246,175,65,73,245,27>>
RfcMsg == <<67,114,121,112,116,111,103,114,97,112,104,105,99,32,70,111,114,117,109,32,82,101,115,101,97,114,99,104,32,71,114,111,117,112>>
RfcTag == <<168,6,29,193,48,81,54,198,194,43,139,175,12,1,39,169>>

\* ---- corner search: r = 1, blocks from a crafted alphabet; report math-h near 0 / p
Blk(kind) == CASE kind = "ff"  -> [i \in 1..16 |-> 255]
               [] kind = "00"  -> [i \in 1..16 |-> 0]
               [] kind = "fb"  -> <<251>> \o [i \in 1..15 |-> 255]   \* 2^128 - 5
               [] kind = "fa"  -> <<250>> \o [i \in 1..15 |-> 255]   \* 2^128 - 6
               [] kind = "fc"  -> <<252>> \o [i \in 1..15 |-> 255]   \* 2^128 - 4
               [] kind = "01"  -> <<1>> \o [i \in 1..15 |-> 0]
Kinds == {"ff", "00", "fb", "fa", "fc", "01"}
VARIABLES path, h
R1 == <<1>>
Init == path = <<>> /\ h = <<>>
Next == /\ Len(path) < 4
        /\ \E k \in Kinds : /\ path' = Append(path, k)
                            /\ h' = ModP(Mul(Add(h, FromBytes(Blk(k) \o <<1>>)), R1))
Spec == Init /\ [][Next]_<<path, h>>
NearZero == Len(h) <= 1 /\ Get(h, 1) <= 5
NearP == Geq(Add(h, <<6>>), PL)
Report == (Len(path) > 0 /\ (NearZero \/ NearP)) => PrintT(<<"CORNER", path, h>>)
====
