SPECIFICATION Spec
