SPECIFICATION Spec
