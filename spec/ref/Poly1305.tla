---------------------------- MODULE Poly1305 ----------------------------
(* Poly1305 one-time authenticator, RFC 8439 section 2.5.                 *)
(* Arithmetic on BigNat (13-bit limbs): p = 2^130 - 5 is ten limbs.       *)
EXTENDS Naturals, Sequences, Bitwise, BigNat
LOCAL INSTANCE SequencesExt

\* p = 2^130 - 5
PolyP == <<8187, 8191, 8191, 8191, 8191, 8191, 8191, 8191, 8191, 8191>>

\* one folding step at bit 130 = limb boundary 10: lo + 2^130 * hi  ==  lo + 5 * hi  (mod p)
PolyFoldOnce(x) == BNAdd(BNLimbs(x, 1, 10), BNMulSmall(BNLimbs(x, 11, Len(x)), 5))

\* fold until below 2^130 (at most 3 steps for a 260-bit product)
RECURSIVE PolyFold(_)
PolyFold(x) == IF Len(x) <= 10 THEN x ELSE PolyFold(PolyFoldOnce(x))

\* canonical residue mod p: after folding x < 2^130 < 2p, one conditional subtraction
PolyModP(x) == LET f == PolyFold(x) IN IF BNGeq(f, PolyP) THEN BNSub(f, PolyP) ELSE f

\* RFC 8439 2.5: r &= 0x0ffffffc0ffffffc0ffffffc0fffffff  (on the 16 little-endian bytes)
PolyClamp(rb) == [i \in 1..16 |-> IF i \in {4, 8, 12, 16} THEN rb[i] & 15
                                  ELSE IF i \in {5, 9, 13} THEN rb[i] & 252
                                  ELSE rb[i]] \o <<>>

PolyR(key32) == BNFromBytesLE(PolyClamp(SubSeq(key32, 1, 16)))
PolyS(key32) == BNFromBytesLE(SubSeq(key32, 17, 32))

\* number of 16-byte blocks (the last may be short)
PolyNumBlocks(msg) == (Len(msg) + 15) \div 16
\* block j (1-based) as a number: its bytes little-endian with a 1 byte appended
PolyBlockNat(msg, j) ==
    LET e == IF 16 * j <= Len(msg) THEN 16 * j ELSE Len(msg)
    IN BNFromBytesLE(SubSeq(msg, 16 * j - 15, e) \o <<1>>)

\* absorb one block value n:  h <- (h + n) * r mod p   (h kept fully reduced)
PolyStep(h, r, n) == PolyModP(BNMul(BNAdd(h, n), r))

\* absorb all blocks of msg starting from accumulator h
Poly1305Blocks(h, r, msg) ==
    FoldLeft(LAMBDA acc, j : PolyStep(acc, r, PolyBlockNat(msg, j)), h, BNRange(1, PolyNumBlocks(msg)))

\* the accumulator (fully reduced mod p, as a BigNat) after absorbing msg, before adding s
PolyAccAfter(key32, msg) == Poly1305Blocks(BNZero, PolyR(key32), msg)

\* tag = (h + s) mod 2^128, 16 bytes little-endian
PolyFinish(h, s) == BNToBytesLE(BNAdd(h, s), 16)
Poly1305(key32, msg) == PolyFinish(PolyAccAfter(key32, msg), PolyS(key32))
=========================================================================
