SPECIFICATION Spec
