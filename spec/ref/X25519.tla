----------------------------- MODULE X25519 -----------------------------
(* X25519 (RFC 7748 section 5) over GF(p), p = 2^255 - 19, on BigNat.     *)
(*                                                                        *)
(* Field elements are BigNats below 2^260 (at most 20 limbs of 13 bits),  *)
(* NOT necessarily canonical: since 2^260 = 2^5 * 2^255 == 32 * 19 = 608  *)
(* (mod p), a value lo + 2^260 * hi is folded to lo + 608 * hi at the     *)
(* 20-limb boundary.  F25519Canon gives the canonical residue in [0, p).  *)
EXTENDS Naturals, Sequences, Bitwise, BigNat
LOCAL INSTANCE SequencesExt

\* p = 2^255 - 19: limbs 1..19 are full (247 bits), limb 20 holds the top 8 bits
F25519P == <<8173, 8191, 8191, 8191, 8191, 8191, 8191, 8191, 8191, 8191,
             8191, 8191, 8191, 8191, 8191, 8191, 8191, 8191, 8191, 255>>
\* 64 p = 2^261 - 1216 > 2^260: added before subtracting so the difference stays non-negative
F25519P64 == BNMulSmall(F25519P, 64)

\* fold at bit 260 until the value has at most 20 limbs (congruent mod p)
RECURSIVE F25519Fold(_)
F25519Fold(x) == IF Len(x) <= 20 THEN x
                 ELSE F25519Fold(BNAdd(BNLimbs(x, 1, 20), BNMulSmall(BNLimbs(x, 21, Len(x)), 608)))

\* arguments below 2^260, results below 2^260
FMul(a, b) == F25519Fold(BNMul(a, b))
FSqr(a)    == F25519Fold(BNMul(a, a))
FAdd(a, b) == F25519Fold(BNAdd(a, b))
FSub(a, b) == F25519Fold(BNSub(BNAdd(a, F25519P64), b))
\* k < 2^17
FMulSmall(a, k) == F25519Fold(BNMulSmall(a, k))

\* canonical residue of x < 2^260: split at bit 255 (bit 8 of limb 20), 2^255 == 19, then
\* y < 2^255 + 19 * 32 < 2p so one conditional subtraction suffices
F25519Canon(x) ==
    LET top == BNGet(x, 20)
        lo  == BNTrim([i \in 1..Len(x) |-> IF i = 20 THEN top % 256 ELSE x[i]] \o <<>>)
        y   == BNAdd(lo, BNFromNat(19 * (top \div 256)))
    IN IF BNGeq(y, F25519P) THEN BNSub(y, F25519P) ELSE y

\* z^(p-2) by left-to-right square-and-multiply.  p - 2 = 2^255 - 21: all of bits 0..254
\* are set except bits 2 and 4.
F25519PMinus2Bit(t) == IF t = 2 \/ t = 4 THEN 0 ELSE 1
FInv(z) == FoldLeft(LAMBDA acc, t : LET sq == FSqr(acc)
                                    IN IF F25519PMinus2Bit(t) = 1 THEN FMul(sq, z) ELSE sq,
                    BNOne, [i \in 1..255 |-> 255 - i])

\* RFC 7748 section 5: decodeScalar25519
X25519Clamp(scalar32) == [i \in 1..32 |-> IF i = 1 THEN scalar32[i] & 248
                                          ELSE IF i = 32 THEN (scalar32[i] & 127) | 64
                                          ELSE scalar32[i]] \o <<>>
\* bit t (0-based) of a little-endian byte string
BytesBit(bs, t) == (bs[(t \div 8) + 1] \div (2 ^ (t % 8))) % 2

\* decodeUCoordinate: mask the top bit; non-canonical values (p .. 2^255-1) are accepted
\* and reduced mod p
X25519DecodeU(u32) ==
    F25519Canon(BNFromBytesLE([i \in 1..32 |-> IF i = 32 THEN u32[i] & 127 ELSE u32[i]] \o <<>>))

\* one Montgomery ladder step; st = <<x2, z2, x3, z3, swap>>, kt = current scalar bit
X25519Step(x1, st, kt) ==
    LET sw == (st[5] + kt) % 2                       \* swap ^= k_t
        x2 == IF sw = 1 THEN st[3] ELSE st[1]        \* cswap
        x3 == IF sw = 1 THEN st[1] ELSE st[3]
        z2 == IF sw = 1 THEN st[4] ELSE st[2]
        z3 == IF sw = 1 THEN st[2] ELSE st[4]
        A  == FAdd(x2, z2)
        AA == FSqr(A)
        B  == FSub(x2, z2)
        BB == FSqr(B)
        E  == FSub(AA, BB)
        C  == FAdd(x3, z3)
        D  == FSub(x3, z3)
        DA == FMul(D, A)
        CB == FMul(C, B)
        nx3 == FSqr(FAdd(DA, CB))
        nz3 == FMul(x1, FSqr(FSub(DA, CB)))
        nx2 == FMul(AA, BB)
        nz2 == FMul(E, FAdd(AA, FMulSmall(E, 121665)))   \* a24 = 121665
    IN <<nx2, nz2, nx3, nz3, kt>>

\* the ladder over bits 254 .. 0 of the clamped scalar k (byte string), x1 a field element;
\* result <<x2, z2>> after the final cswap
X25519Ladder(k, x1) ==
    LET st == FoldLeft(LAMBDA acc, t : X25519Step(x1, acc, BytesBit(k, t)),
                       <<BNOne, BNZero, x1, BNOne, 0>>, [i \in 1..255 |-> 255 - i])
    IN IF st[5] = 1 THEN <<st[3], st[4]>> ELSE <<st[1], st[2]>>

X25519(scalar32, u32) ==
    LET k  == X25519Clamp(scalar32)
        x1 == X25519DecodeU(u32)
        r  == X25519Ladder(k, x1)
    IN BNToBytesLE(F25519Canon(FMul(r[1], FInv(r[2]))), 32)

X25519BasePoint == <<9>> \o [i \in 1..31 |-> 0]
X25519Base(scalar32) == X25519(scalar32, X25519BasePoint)
=========================================================================
