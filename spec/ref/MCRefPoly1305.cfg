SPECIFICATION Spec
INVARIANT AllPass
CHECK_DEADLOCK FALSE
