SPECIFICATION Spec
