------------------------------- MODULE Argon2 -------------------------------
(***************************************************************************)
(* Argon2i and Argon2id, RFC 9106, version 0x13, restricted to             *)
(* parallelism p = 1, no secret value K and no associated data X           *)
(* (= libsodium crypto_pwhash with alg 1 / 2).                             *)
(*                                                                         *)
(*   Argon2(type, pwd, salt, t, mKiB, outlen)                              *)
(*     type    1 = Argon2i, 2 = Argon2id                                   *)
(*     pwd     byte sequence (any length)                                  *)
(*     salt    byte sequence (libsodium: 16 bytes)                         *)
(*     t       number of passes, >= 1                                      *)
(*     mKiB    memory size m in KiB, >= 8; m' = 4 * floor(m / 4) blocks    *)
(*             are used, but m itself is what is hashed into H0            *)
(*     outlen  tag length T >= 4                                           *)
(*   result: byte sequence of length outlen.                               *)
(*                                                                         *)
(* A 1 KiB block is a 128-tuple of Words64 words.  With p = 1 there is one *)
(* lane of q = m' columns in 4 slices of SL = q / 4 columns each.          *)
(*                                                                         *)
(* TLC evaluation strategy: see the note in Blake2b.tla (FoldLeft loops,   *)
(* explicit tuples, "always true" conjunction lists that merely sequence   *)
(* the evaluation of LET definitions).                                     *)
(***************************************************************************)
EXTENDS Naturals, Sequences, Words64, Blake2b
LOCAL INSTANCE SequencesExt

\* LE32(n): 4-byte little-endian encoding of n < 2^31.
Argon2LE32(n) == << n % 256, (n \div 256) % 256, (n \div 65536) % 256, (n \div 16777216) % 256 >>

(***************************************************************************)
(* RFC 9106 section 3.3: variable-length hash function H'.                 *)
(*   T <= 64:  H^T(LE32(T) || A)                                           *)
(*   T  > 64:  r = ceil(T/32) - 2                                          *)
(*             V_1 = H^64(LE32(T) || A),  V_i = H^64(V_{i-1}), i = 2..r,   *)
(*             V_{r+1} = H^(T - 32 r)(V_r)                                 *)
(*             result = W_1 || ... || W_r || V_{r+1},  W_i = V_i[0..31]    *)
(***************************************************************************)
Blake2bLong(input, outlen) ==
  IF Len(input) >= 0 /\ outlen <= 64        \* Len(input) >= 0: evaluates input up front
  THEN Blake2bHash(Argon2LE32(outlen) \o input, outlen)
  ELSE LET r  == (outlen + 31) \div 32 - 2
           v1 == Blake2bHash(Argon2LE32(outlen) \o input, 64)
           \* fold state <<V_i, W_1 || ... || W_i>> for i = 1 .. r
           st == FoldLeft(LAMBDA s, i : LET v == Blake2bHash(s[1], 64)
                                        IN <<v, s[2] \o SubSeq(v, 1, 32)>>,
                          <<v1, SubSeq(v1, 1, 32)>>,
                          [i \in 1..(r - 1) |-> i + 1])
       IN IF Len(v1) = 64 /\ Len(st) = 2     \* always true; sequencing only
          THEN st[2] \o Blake2bHash(st[1], outlen - 32 * r)
          ELSE <<>>

(***************************************************************************)
(* RFC 9106 section 3.6: the BlaMka-based permutation P.                   *)
(*   GB(a, b, c, d):                                                       *)
(*     a = (a + b + 2 * trunc(a) * trunc(b)) mod 2^64;  d = (d xor a) >>> 32*)
(*     c = (c + d + 2 * trunc(c) * trunc(d)) mod 2^64;  b = (b xor c) >>> 24*)
(*     a = (a + b + 2 * trunc(a) * trunc(b)) mod 2^64;  d = (d xor a) >>> 16*)
(*     c = (c + d + 2 * trunc(c) * trunc(d)) mod 2^64;  b = (b xor c) >>> 63*)
(*   where trunc(x) = x mod 2^32.                                          *)
(***************************************************************************)
\* a + b + 2 * lo32(a) * lo32(b)  mod 2^64
Argon2BlaMka(a, b) ==
  LET m  == W64MulLo32(a, b)
      s1 == a[1] + b[1] + 2 * m[1]
      s2 == a[2] + b[2] + 2 * m[2] + s1 \div M16
      s3 == a[3] + b[3] + 2 * m[3] + s2 \div M16
      s4 == a[4] + b[4] + 2 * m[4] + s3 \div M16
  IN <<s1 % M16, s2 % M16, s3 % M16, s4 % M16>>

Argon2GB(a, b, c, d) ==
  LET a1 == Argon2BlaMka(a, b)      d1 == W64Rotr(W64Xor(d, a1), 32)
      c1 == Argon2BlaMka(c, d1)     b1 == W64Rotr(W64Xor(b, c1), 24)
      a2 == Argon2BlaMka(a1, b1)    d2 == W64Rotr(W64Xor(d1, a2), 16)
      c2 == Argon2BlaMka(c1, d2)    b2 == W64Rotr(W64Xor(b1, c2), 63)
  IN IF /\ Len(a1) = 4       \* always true; evaluates the LETs in dependency order
        /\ Len(d1) = 4
        /\ Len(c1) = 4
        /\ Len(b1) = 4
        /\ Len(a2) = 4
        /\ Len(d2) = 4
        /\ Len(c2) = 4
     THEN <<a2, b2, c2, d2>>
     ELSE <<>>

(***************************************************************************)
(* P on eight 16-byte registers S_0..S_7 = sixteen words v_0..v_15         *)
(* (S_i = v_{2i+1} || v_{2i}); v is the 16-tuple with v[k + 1] = v_k.      *)
(*   GB(v0,v4,v8,v12) GB(v1,v5,v9,v13) GB(v2,v6,v10,v14) GB(v3,v7,v11,v15) *)
(*   GB(v0,v5,v10,v15) GB(v1,v6,v11,v12) GB(v2,v7,v8,v13) GB(v3,v4,v9,v14) *)
(***************************************************************************)
Argon2P(v) ==
  LET c0 == Argon2GB(v[1], v[5], v[9],  v[13])      \* new v0, v4, v8,  v12
      c1 == Argon2GB(v[2], v[6], v[10], v[14])      \* new v1, v5, v9,  v13
      c2 == Argon2GB(v[3], v[7], v[11], v[15])      \* new v2, v6, v10, v14
      c3 == Argon2GB(v[4], v[8], v[12], v[16])      \* new v3, v7, v11, v15
      d0 == Argon2GB(c0[1], c1[2], c2[3], c3[4])    \* v0, v5, v10, v15
      d1 == Argon2GB(c1[1], c2[2], c3[3], c0[4])    \* v1, v6, v11, v12
      d2 == Argon2GB(c2[1], c3[2], c0[3], c1[4])    \* v2, v7, v8,  v13
      d3 == Argon2GB(c3[1], c0[2], c1[3], c2[4])    \* v3, v4, v9,  v14
  IN IF /\ Len(c0) = 4 /\ Len(c1) = 4 /\ Len(c2) = 4 /\ Len(c3) = 4   \* always true
     THEN << d0[1], d1[1], d2[1], d3[1],      \* v0  v1  v2  v3
             d3[2], d0[2], d1[2], d2[2],      \* v4  v5  v6  v7
             d2[3], d3[3], d0[3], d1[3],      \* v8  v9  v10 v11
             d1[4], d2[4], d3[4], d0[4] >>    \* v12 v13 v14 v15
     ELSE <<>>

Argon2ZeroBlock == [i \in 1..128 |-> W64Zero] \o <<>>

\* ( \o <<>>  turns a function into an explicit, fully evaluated tuple.)
Argon2XorBlock(X, Y) == [i \in 1..128 |-> W64Xor(X[i], Y[i])] \o <<>>

(***************************************************************************)
(* RFC 9106 section 3.5: compression function G(X, Y).                     *)
(*   R = X xor Y, viewed as an 8 x 8 matrix of 16-byte registers, i.e. as  *)
(*   8 rows of 16 words (row i = words 16 i .. 16 i + 15).                 *)
(*   Q = P applied to each row of R.                                       *)
(*   Z = P applied to each column of Q; column i consists of the registers *)
(*       (row r, column i), r = 0..7 = words 16 r + 2 i, 16 r + 2 i + 1.   *)
(*   G = Z xor R.                                                          *)
(***************************************************************************)
Argon2G(X, Y) ==
  LET R == Argon2XorBlock(X, Y)
      Row(i) == Argon2P(SubSeq(R, 16 * i + 1, 16 * i + 16))
      Q == Row(0) \o Row(1) \o Row(2) \o Row(3) \o Row(4) \o Row(5) \o Row(6) \o Row(7)
      Col(i) == Argon2P(<< Q[2 * i + 1],   Q[2 * i + 2],   Q[2 * i + 17],  Q[2 * i + 18],
                           Q[2 * i + 33],  Q[2 * i + 34],  Q[2 * i + 49],  Q[2 * i + 50],
                           Q[2 * i + 65],  Q[2 * i + 66],  Q[2 * i + 81],  Q[2 * i + 82],
                           Q[2 * i + 97],  Q[2 * i + 98],  Q[2 * i + 113], Q[2 * i + 114] >>)
      C == << Col(0), Col(1), Col(2), Col(3), Col(4), Col(5), Col(6), Col(7) >>
      \* 0-based word k = 16 r + 2 i + b  is word 2 r + b of the permuted column i
      Z(k) == C[((k % 16) \div 2) + 1][2 * (k \div 16) + (k % 2) + 1]
  IN IF Len(R) = 128 /\ Len(Q) = 128 /\ Len(C) = 8          \* always true (sequencing only)
     THEN [k \in 1..128 |-> W64Xor(Z(k - 1), R[k])] \o <<>>
     ELSE <<>>

\* 1024 bytes <-> block (words are little-endian, RFC 9106 section 3.2 / 3.4)
Argon2BlockFromBytes(bs) == [k \in 1..128 |-> W64AtLE(bs, 8 * (k - 1))] \o <<>>
Argon2BlockToBytes(blk) ==
  [k \in 1..1024 |-> LET limb == blk[((k - 1) \div 8) + 1][(((k - 1) % 8) \div 2) + 1]
                     IN IF (k - 1) % 2 = 0 THEN limb % 256 ELSE limb \div 256] \o <<>>

(***************************************************************************)
(* RFC 9106 section 3.4.1.2 (data-independent addressing): the address     *)
(* block number ctr >= 1 of segment (pass r, lane 0, slice s) is           *)
(*   G(ZERO, G(ZERO, LE64(r) || LE64(l) || LE64(sl) || LE64(m') ||         *)
(*                   LE64(t) || LE64(y) || LE64(ctr) || ZERO(968)))        *)
(* It provides J_1 || J_2 (low / high 32 bits of each word) for the 128    *)
(* segment positions i with i \div 128 + 1 = ctr; position i uses word     *)
(* i mod 128 (positions 0 and 1 of pass 0 / slice 0 are simply unused).    *)
(***************************************************************************)
Argon2AddressBlock(r, s, mp, t, y, ctr) ==
  LET input == << W64FromNat(r), W64Zero, W64FromNat(s), W64FromNat(mp),
                  W64FromNat(t), W64FromNat(y), W64FromNat(ctr) >>
               \o [i \in 1..121 |-> W64Zero]
  IN Argon2G(Argon2ZeroBlock, Argon2G(Argon2ZeroBlock, input))

(***************************************************************************)
(* RFC 9106 section 3.4.2, specialised to a single lane (so the reference  *)
(* block is always in the current lane and l = J_2 mod p = 0; J_2 is       *)
(* unused).  For position i of slice s in pass r, current column           *)
(* j = s * SL + i:                                                         *)
(*   reference area W (all blocks computed so far in this lane that are    *)
(*   not in the current segment's future, minus the previous block B[j-1]):*)
(*     pass 0:   |W| = j - 1            starting at column 0               *)
(*     pass > 0: |W| = q - SL + i - 1   starting at column (s + 1) * SL    *)
(*                                      mod q (the oldest slice)           *)
(*   x = J_1^2 \div 2^32;  y = (|W| * x) \div 2^32;  zz = |W| - 1 - y      *)
(*   reference column = (start + zz) mod q                                 *)
(* Returns the 0-based reference column.                                   *)
(***************************************************************************)
Argon2RefIndex(J1, r, s, i, q, SL) ==
  LET j     == s * SL + i
      area  == IF r = 0 THEN j - 1 ELSE q - SL + i - 1
      x     == W64MulLo32(J1, J1)                                   \* J_1^2, 64 bits
      yy    == W64MulLo32(W64FromNat(area), <<x[3], x[4], 0, 0>>)   \* |W| * (x >> 32)
      zz    == area - 1 - (yy[3] + M16 * yy[4])                     \* yy >> 32 < |W|
      start == IF r = 0 \/ s = 3 THEN 0 ELSE (s + 1) * SL
  IN (start + zz) % q

(***************************************************************************)
(* One block: B[j] = G(B[j-1], B[ref])            in pass 0,               *)
(*            B[j] = G(B[j-1], B[ref]) xor B[j]   in later passes (v 0x13).*)
(* B is the q-tuple of blocks (B[j + 1] = column j); addrs is the tuple of *)
(* address blocks of the segment (only used when indep).                   *)
(***************************************************************************)
Argon2FillBlock(B, r, s, i, q, SL, indep, addrs) ==
  LET j    == s * SL + i
      prev == B[((j + q - 1) % q) + 1]
      w    == IF indep THEN addrs[(i \div 128) + 1][(i % 128) + 1] ELSE prev[1]
      ref  == Argon2RefIndex(<<w[1], w[2], 0, 0>>, r, s, i, q, SL)
      g    == Argon2G(prev, B[ref + 1])
      new  == IF r = 0 THEN g ELSE Argon2XorBlock(g, B[j + 1])
  IN IF Len(prev) = 128 /\ ref >= 0 /\ Len(g) = 128      \* always true; sequencing only
     THEN [B EXCEPT ![j + 1] = new]
     ELSE <<>>

(***************************************************************************)
(* One segment (pass r, slice s).  Addressing is data-independent for      *)
(* Argon2i (y = 1) always and for Argon2id (y = 2) in the first two slices *)
(* of pass 0.  Pass 0 / slice 0 starts at position 2 (columns 0 and 1 come *)
(* from H0).                                                               *)
(***************************************************************************)
Argon2FillSegment(B, r, s, q, SL, t, y) ==
  LET indep == (y = 1) \/ (y = 2 /\ r = 0 /\ s < 2)
      addrs == IF indep
               THEN [c \in 1..((SL + 127) \div 128) |-> Argon2AddressBlock(r, s, q, t, y, c)] \o <<>>
               ELSE <<>>
      first == IF r = 0 /\ s = 0 THEN 2 ELSE 0
  IN IF Len(addrs) >= 0          \* always true; evaluates the address blocks once, up front
     THEN FoldLeft(LAMBDA acc, i : Argon2FillBlock(acc, r, s, i, q, SL, indep, addrs),
                   B, [k \in 1..(SL - first) |-> first + k - 1])
     ELSE <<>>

(***************************************************************************)
(* RFC 9106 section 3.2.                                                   *)
(*   H0 = H^64(LE32(p) || LE32(T) || LE32(m) || LE32(t) || LE32(v) ||      *)
(*             LE32(y) || LE32(|P|) || P || LE32(|S|) || S ||              *)
(*             LE32(|K|) || K || LE32(|X|) || X),  p = 1, v = 0x13, K = X = ""*)
(*   B[0] = H'^1024(H0 || LE32(0) || LE32(lane 0))                         *)
(*   B[1] = H'^1024(H0 || LE32(1) || LE32(lane 0))                         *)
(*   fill the remaining columns, t passes of 4 slices                      *)
(*   tag = H'^T(B[q - 1])                                                  *)
(***************************************************************************)
Argon2H0(type, pwd, salt, t, mKiB, outlen) ==
  Blake2bHash(Argon2LE32(1) \o Argon2LE32(outlen) \o Argon2LE32(mKiB) \o Argon2LE32(t)
              \o Argon2LE32(19) \o Argon2LE32(type)
              \o Argon2LE32(Len(pwd)) \o pwd \o Argon2LE32(Len(salt)) \o salt
              \o Argon2LE32(0) \o Argon2LE32(0), 64)

\* The final memory (q-tuple of blocks); exported for debugging / finer-grained comparison.
Argon2Memory(type, pwd, salt, t, mKiB, outlen) ==
  LET h0 == Argon2H0(type, pwd, salt, t, mKiB, outlen)
      q  == 4 * (mKiB \div 4)                  \* m' (p = 1): number of blocks = lane length
      SL == q \div 4                           \* segment length
      b0 == Argon2BlockFromBytes(Blake2bLong(h0 \o Argon2LE32(0) \o Argon2LE32(0), 1024))
      b1 == Argon2BlockFromBytes(Blake2bLong(h0 \o Argon2LE32(1) \o Argon2LE32(0), 1024))
      B0 == <<b0, b1>> \o [k \in 1..(q - 2) |-> Argon2ZeroBlock]
  IN IF Len(h0) = 64 /\ Len(b0) = 128 /\ Len(b1) = 128    \* always true; sequencing only
     THEN \* segment number n = 4 r + s
          FoldLeft(LAMBDA acc, n : Argon2FillSegment(acc, n \div 4, n % 4, q, SL, t, type),
                   B0, [k \in 1..(4 * t) |-> k - 1])
     ELSE <<>>

Argon2(type, pwd, salt, t, mKiB, outlen) ==
  LET B == Argon2Memory(type, pwd, salt, t, mKiB, outlen)
  IN IF Len(B) > 0              \* always true; fills the memory before the tag is computed
     THEN Blake2bLong(Argon2BlockToBytes(B[Len(B)]), outlen)
     ELSE <<>>

Argon2i(pwd, salt, t, mKiB, outlen)  == Argon2(1, pwd, salt, t, mKiB, outlen)
Argon2id(pwd, salt, t, mKiB, outlen) == Argon2(2, pwd, salt, t, mKiB, outlen)

=============================================================================
