---------------------------- MODULE Increment ----------------------------
(* libsodium sodium_increment / sodium_is_zero on byte strings of any     *)
(* length: the string is an unsigned little-endian number; increment      *)
(* wraps around to all-zero.                                              *)
EXTENDS Naturals, Sequences
LOCAL INSTANCE SequencesExt

\* TRUE iff every byte is zero (vacuously TRUE for the empty string)
IsZero(bs) == \A i \in 1..Len(bs) : bs[i] = 0

\* bs + 1 mod 256^Len(bs)
Increment(bs) ==
    LET step(acc, i) == LET v == bs[i] + acc[2] IN <<Append(acc[1], v % 256), v \div 256>>
    IN FoldLeft(step, << <<>>, 1 >>, [i \in 1..Len(bs) |-> i])[1]

\* declarative characterisation used by the tests: carry runs through the leading 255s
IncrementSpec(bs) ==
    [i \in 1..Len(bs) |-> IF \A j \in 1..(i - 1) : bs[j] = 255 THEN (bs[i] + 1) % 256 ELSE bs[i]]
==========================================================================
