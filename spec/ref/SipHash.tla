------------------------------- MODULE SipHash -------------------------------
(***************************************************************************)
(* SipHash-2-4 with 64-bit output (Aumasson & Bernstein, "SipHash: a fast  *)
(* short-input PRF", 2012), = libsodium crypto_shorthash.                  *)
(*                                                                         *)
(*   SipHash24(key16, msg)  key16: 16 bytes, msg: byte sequence with       *)
(*                          Len(msg) < 2^31  ->  8 bytes, little-endian    *)
(***************************************************************************)
EXTENDS Naturals, Sequences, Words64
LOCAL INSTANCE SequencesExt      \* FoldLeft: Java-overridden, iterative and strict

\* One SipRound on s = <<v0, v1, v2, v3>>.
SipRound(s) ==
  LET \* v0 += v1; v1 = ROTL(v1,13); v1 ^= v0; v0 = ROTL(v0,32);
      a0 == W64Add(s[1], s[2])
      a1 == W64Xor(W64Rotl(s[2], 13), a0)
      b0 == W64Rotl(a0, 32)
      \* v2 += v3; v3 = ROTL(v3,16); v3 ^= v2;
      a2 == W64Add(s[3], s[4])
      a3 == W64Xor(W64Rotl(s[4], 16), a2)
      \* v0 += v3; v3 = ROTL(v3,21); v3 ^= v0;
      c0 == W64Add(b0, a3)
      c3 == W64Xor(W64Rotl(a3, 21), c0)
      \* v2 += v1; v1 = ROTL(v1,17); v1 ^= v2; v2 = ROTL(v2,32);
      c2 == W64Add(a2, a1)
      c1 == W64Xor(W64Rotl(a1, 17), c2)
      d2 == W64Rotl(c2, 32)
  IN <<c0, c1, d2, c3>>

\* Absorb one 64-bit message word m:  v3 ^= m; 2 x SipRound; v0 ^= m.
SipAbsorb(s, m) ==
  LET s1 == SipRound(SipRound(<<s[1], s[2], s[3], W64Xor(s[4], m)>>))
  IN <<W64Xor(s1[1], m), s1[2], s1[3], s1[4]>>

SipHash24(key16, msg) ==
  LET k0 == W64AtLE(key16, 0)
      k1 == W64AtLE(key16, 8)
      \* "somepseudorandomlygeneratedbytes"
      init == << W64Xor(k0, W64Lit(\h736f, \h6d65, \h7073, \h6575)),
                 W64Xor(k1, W64Lit(\h646f, \h7261, \h6e64, \h6f6d)),
                 W64Xor(k0, W64Lit(\h6c79, \h6765, \h6e65, \h7261)),
                 W64Xor(k1, W64Lit(\h7465, \h6462, \h7974, \h6573)) >>
      n    == Len(msg)
      nw   == n \div 8                              \* number of full words
      s1   == FoldLeft(LAMBDA s, k : SipAbsorb(s, W64AtLE(msg, 8 * k)),
                       init, [k \in 1..nw |-> k - 1])
      \* last word: remaining n mod 8 bytes, zero padding, top byte = n mod 256
      last == SubSeq(msg, 8 * nw + 1, n) \o [i \in 1..(7 - (n % 8)) |-> 0] \o <<n % 256>>
      s2   == SipAbsorb(s1, W64AtLE(last, 0))
      \* finalization: v2 ^= 0xff; 4 x SipRound; return v0 ^ v1 ^ v2 ^ v3
      f    == SipRound(SipRound(SipRound(SipRound(
                <<s2[1], s2[2], W64Xor(s2[3], <<255, 0, 0, 0>>), s2[4]>>))))
  IN W64ToBytesLE(W64Xor(W64Xor(f[1], f[2]), W64Xor(f[3], f[4])))

=============================================================================
