------------------------------ MODULE Blake2b ------------------------------
(***************************************************************************)
(* BLAKE2b, RFC 7693, sequential mode, with the full parameter block       *)
(* (digest length, key length, salt, personalization).                     *)
(*                                                                         *)
(*   Blake2b(msg, key, outlen, salt, personal)                             *)
(*     msg      byte sequence, any length < 2^31 - 128                     *)
(*     key      byte sequence, length 0..64   (<<>> = unkeyed)             *)
(*     outlen   1..64                                                      *)
(*     salt     byte sequence of length 16, or <<>> meaning all-zero       *)
(*     personal byte sequence of length 16, or <<>> meaning all-zero       *)
(*   result: byte sequence of length outlen.                               *)
(*                                                                         *)
(* Words are Words64 words (four 16-bit limbs, little-endian).             *)
(***************************************************************************)
EXTENDS Naturals, Sequences, Words64

\* RFC 7693 section 2.6: IV[i] = floor(2^64 * frac(sqrt(prime(i+1)))) (same as SHA-512)
Blake2bIV == <<
  W64Lit(\h6a09, \he667, \hf3bc, \hc908), W64Lit(\hbb67, \hae85, \h84ca, \ha73b),
  W64Lit(\h3c6e, \hf372, \hfe94, \hf82b), W64Lit(\ha54f, \hf53a, \h5f1d, \h36f1),
  W64Lit(\h510e, \h527f, \hade6, \h82d1), W64Lit(\h9b05, \h688c, \h2b3e, \h6c1f),
  W64Lit(\h1f83, \hd9ab, \hfb41, \hbd6b), W64Lit(\h5be0, \hcd19, \h137e, \h2179) >>

\* RFC 7693 section 2.7: message word schedule; rounds 10 and 11 reuse rows 0 and 1.
Blake2bSigma == <<
  <<0,1,2,3,4,5,6,7,8,9,10,11,12,13,14,15>>, <<14,10,4,8,9,15,13,6,1,12,0,2,11,7,5,3>>,
  <<11,8,12,0,5,2,15,13,10,14,3,6,7,1,9,4>>, <<7,9,3,1,13,12,11,14,2,6,5,10,4,0,15,8>>,
  <<9,0,5,7,2,4,10,15,14,1,11,12,6,8,3,13>>, <<2,12,6,10,0,11,8,3,4,13,7,5,15,14,1,9>>,
  <<12,5,1,15,14,13,4,10,0,7,6,3,9,2,8,11>>, <<13,11,7,14,12,1,3,9,5,0,15,4,8,6,2,10>>,
  <<6,15,14,9,11,3,0,8,12,2,13,7,1,4,10,5>>, <<10,2,8,4,7,6,1,5,15,11,9,14,3,12,13,0>>,
  <<0,1,2,3,4,5,6,7,8,9,10,11,12,13,14,15>>, <<14,10,4,8,9,15,13,6,1,12,0,2,11,7,5,3>> >>

(***************************************************************************)
(* Evaluation-strategy note (TLC specific).  TLC passes operator arguments *)
(* and LET definitions lazily, so a loop written as a RECURSIVE operator   *)
(* turns into one deeply nested thunk and needs Java stack proportional to *)
(* the length of the whole computation (and ASSUMEs are evaluated on TLC's *)
(* main thread, which does not get the -Xss of JAVA_TOOL_OPTIONS).  All    *)
(* loops here therefore use FoldLeft from the CommunityModules module      *)
(* SequencesExt: it is overridden by a Java loop, which is iterative and   *)
(* evaluates each step strictly, so the stack stays flat.  SequencesExt is *)
(* instantiated LOCALly so that none of its names leak into clients.       *)
(***************************************************************************)
LOCAL INSTANCE SequencesExt

\* RFC 7693 section 3.1: mixing function G (R1..R4 = 32, 24, 16, 63) on the four
\* words a, b, c, d with message words x, y; returns the new <<a, b, c, d>>.
Blake2bG(a, b, c, d, x, y) ==
  LET a1 == W64Add(W64Add(a, b), x)     d1 == W64Rotr(W64Xor(d, a1), 32)
      c1 == W64Add(c, d1)               b1 == W64Rotr(W64Xor(b, c1), 24)
      a2 == W64Add(W64Add(a1, b1), y)   d2 == W64Rotr(W64Xor(d1, a2), 16)
      c2 == W64Add(c1, d2)              b2 == W64Rotr(W64Xor(b1, c2), 63)
  IN IF /\ Len(a1) = 4       \* always true: the conjunction list just evaluates the
        /\ Len(d1) = 4       \* intermediate words one after the other (in dependency
        /\ Len(c1) = 4       \* order) instead of as one nested chain of lazy LETs,
        /\ Len(b1) = 4       \* which keeps TLC's Java stack shallow
        /\ Len(a2) = 4
        /\ Len(d2) = 4
        /\ Len(c2) = 4
     THEN <<a2, b2, c2, d2>>
     ELSE <<>>

(***************************************************************************)
(* One round on the 16-word work vector v (1-based v[1..16] = RFC v[0..15])*)
(* Column step:   G(v0,v4,v8,v12) G(v1,v5,v9,v13) G(v2,v6,v10,v14)         *)
(*                G(v3,v7,v11,v15)                                         *)
(* Diagonal step: G(v0,v5,v10,v15) G(v1,v6,v11,v12) G(v2,v7,v8,v13)        *)
(*                G(v3,v4,v9,v14)                                          *)
(***************************************************************************)
Blake2bRound(v, m, r) ==
  LET s == Blake2bSigma[r]
      mm(i) == m[s[i] + 1]
      c0 == Blake2bG(v[1], v[5], v[9],  v[13], mm(1), mm(2))    \* new v0, v4, v8,  v12
      c1 == Blake2bG(v[2], v[6], v[10], v[14], mm(3), mm(4))    \* new v1, v5, v9,  v13
      c2 == Blake2bG(v[3], v[7], v[11], v[15], mm(5), mm(6))    \* new v2, v6, v10, v14
      c3 == Blake2bG(v[4], v[8], v[12], v[16], mm(7), mm(8))    \* new v3, v7, v11, v15
      d0 == Blake2bG(c0[1], c1[2], c2[3], c3[4], mm(9),  mm(10))  \* v0, v5, v10, v15
      d1 == Blake2bG(c1[1], c2[2], c3[3], c0[4], mm(11), mm(12))  \* v1, v6, v11, v12
      d2 == Blake2bG(c2[1], c3[2], c0[3], c1[4], mm(13), mm(14))  \* v2, v7, v8,  v13
      d3 == Blake2bG(c3[1], c0[2], c1[3], c2[4], mm(15), mm(16))  \* v3, v4, v9,  v14
  IN IF /\ Len(c0) = 4 /\ Len(c1) = 4 /\ Len(c2) = 4 /\ Len(c3) = 4   \* always true, see G
     THEN << d0[1], d1[1], d2[1], d3[1],      \* v0  v1  v2  v3
             d3[2], d0[2], d1[2], d2[2],      \* v4  v5  v6  v7
             d2[3], d3[3], d0[3], d1[3],      \* v8  v9  v10 v11
             d1[4], d2[4], d3[4], d0[4] >>    \* v12 v13 v14 v15
     ELSE <<>>

\* Twelve rounds r = 1..12 (RFC rounds 0..11).
Blake2bRounds(v, m) ==
  FoldLeft(LAMBDA acc, r : Blake2bRound(acc, m, r), v, <<1, 2, 3, 4, 5, 6, 7, 8, 9, 10, 11, 12>>)

(***************************************************************************)
(* RFC 7693 section 3.2: compression function F.                           *)
(*   h     chaining value, 8 words                                         *)
(*   m     message block, 16 words                                         *)
(*   t0,t1 low / high 64-bit words of the 128-bit byte counter             *)
(*   last  final-block flag                                                *)
(***************************************************************************)
Blake2bCompressW(h, m, t0, t1, last) ==
  LET v0 == << h[1], h[2], h[3], h[4], h[5], h[6], h[7], h[8],
               Blake2bIV[1], Blake2bIV[2], Blake2bIV[3], Blake2bIV[4],
               W64Xor(Blake2bIV[5], t0), W64Xor(Blake2bIV[6], t1),
               IF last THEN W64Not(Blake2bIV[7]) ELSE Blake2bIV[7],
               Blake2bIV[8] >>
      v == Blake2bRounds(v0, m)
  IN << W64Xor(W64Xor(h[1], v[1]), v[9]),  W64Xor(W64Xor(h[2], v[2]), v[10]),
        W64Xor(W64Xor(h[3], v[3]), v[11]), W64Xor(W64Xor(h[4], v[4]), v[12]),
        W64Xor(W64Xor(h[5], v[5]), v[13]), W64Xor(W64Xor(h[6], v[6]), v[14]),
        W64Xor(W64Xor(h[7], v[7]), v[15]), W64Xor(W64Xor(h[8], v[8]), v[16]) >>

\* 16 message words from the 128 bytes starting at 0-based offset off of bs
\* (the  \o <<>>  turns the function into an explicit, fully evaluated tuple).
Blake2bBlockWordsAt(bs, off) == [k \in 1..16 |-> W64AtLE(bs, off + 8 * (k - 1))] \o <<>>

(***************************************************************************)
(* Exported compression function on bytes.                                 *)
(*   h          8 words                                                    *)
(*   blockBytes exactly 128 bytes (already zero padded)                    *)
(*   t          number of bytes fed so far including this block's real     *)
(*              bytes, a natural < 2^31                                    *)
(*   last       BOOLEAN                                                    *)
(* returns the new 8-word chaining value.                                  *)
(***************************************************************************)
Blake2bCompress(h, blockBytes, t, last) ==
  Blake2bCompressW(h, Blake2bBlockWordsAt(blockBytes, 0), W64FromNat(t), W64Zero, last)

Blake2bZeros(n) == [i \in 1..n |-> 0]

(***************************************************************************)
(* Parameter block (RFC 7693 section 2.5 / 2.8), 64 bytes, as 8 LE words:  *)
(*   byte 0 digest length, 1 key length, 2 fanout = 1, 3 depth = 1,        *)
(*   4..7 leaf length = 0, 8..15 node offset = 0, 16 node depth = 0,       *)
(*   17 inner length = 0, 18..31 reserved = 0, 32..47 salt, 48..63 personal*)
(* h0 = IV xor parameter block.                                            *)
(***************************************************************************)
Blake2bParamWords(outlen, keylen, salt, personal) ==
  LET s == IF salt = <<>> THEN Blake2bZeros(16) ELSE salt
      p == IF personal = <<>> THEN Blake2bZeros(16) ELSE personal
  IN << <<outlen + 256 * keylen, 1 + 256 * 1, 0, 0>>, W64Zero, W64Zero, W64Zero,
        W64AtLE(s, 0), W64AtLE(s, 8), W64AtLE(p, 0), W64AtLE(p, 8) >>

Blake2bInitH(outlen, keylen, salt, personal) ==
  LET P == Blake2bParamWords(outlen, keylen, salt, personal)
  IN << W64Xor(Blake2bIV[1], P[1]), W64Xor(Blake2bIV[2], P[2]),
        W64Xor(Blake2bIV[3], P[3]), W64Xor(Blake2bIV[4], P[4]),
        W64Xor(Blake2bIV[5], P[5]), W64Xor(Blake2bIV[6], P[6]),
        W64Xor(Blake2bIV[7], P[7]), W64Xor(Blake2bIV[8], P[8]) >>

(***************************************************************************)
(* Absorb all of data (key block already prepended).  All blocks but the   *)
(* last are full 128-byte blocks: block k (0-based) covers bytes           *)
(* 128k .. 128k+127 and is compressed with t = 128 (k + 1).  The last      *)
(* block holds the remaining 1..128 bytes (0 bytes only when data is       *)
(* empty), zero padded, and is compressed with the final flag and          *)
(* t = Len(data).                                                          *)
(***************************************************************************)
Blake2bAbsorb(h, data) ==
  LET n    == Len(data)
      nb   == IF n = 0 THEN 0 ELSE (n - 1) \div 128       \* number of non-final blocks
      hh   == FoldLeft(LAMBDA acc, k :
                         Blake2bCompressW(acc, Blake2bBlockWordsAt(data, 128 * k),
                                          W64FromNat(128 * (k + 1)), W64Zero, FALSE),
                       h, [k \in 1..nb |-> k - 1])
      tail == SubSeq(data, 128 * nb + 1, n) \o Blake2bZeros(128 - (n - 128 * nb))
  IN IF Len(hh) = 8             \* always true; sequencing only
     THEN Blake2bCompress(hh, tail, n, TRUE)
     ELSE <<>>

Blake2bStateBytes(h) ==
  W64ToBytesLE(h[1]) \o W64ToBytesLE(h[2]) \o W64ToBytesLE(h[3]) \o W64ToBytesLE(h[4]) \o
  W64ToBytesLE(h[5]) \o W64ToBytesLE(h[6]) \o W64ToBytesLE(h[7]) \o W64ToBytesLE(h[8])

Blake2b(msg, key, outlen, salt, personal) ==
  LET kk   == Len(key)
      data == IF kk = 0 THEN msg ELSE key \o Blake2bZeros(128 - kk) \o msg
      h    == Blake2bAbsorb(Blake2bInitH(outlen, kk, salt, personal), data)
  IN IF Len(data) >= 0          \* always true; evaluates the input before hashing starts
     THEN SubSeq(Blake2bStateBytes(h), 1, outlen)
     ELSE <<>>

\* Convenience: plain unkeyed BLAKE2b-outlen.
Blake2bHash(msg, outlen) == Blake2b(msg, <<>>, outlen, <<>>, <<>>)

=============================================================================
