------------------------------ MODULE Words64 ------------------------------
(***************************************************************************)
(* 64-bit machine words for TLC.                                           *)
(*                                                                         *)
(* TLC integers are 32-bit signed, so a 64-bit word is represented as a    *)
(* little-endian sequence of four 16-bit limbs  <<l0, l1, l2, l3>>  with   *)
(*     value = l0 + 2^16 * l1 + 2^32 * l2 + 2^48 * l3,   0 <= li < 65536.  *)
(* Byte strings are sequences of naturals 0..255 (1-based).                *)
(* Everything here is a pure constant-level operator.                      *)
(***************************************************************************)
EXTENDS Naturals, Sequences, Bitwise

M16 == 65536

W64Zero == <<0, 0, 0, 0>>
W64Ones == <<65535, 65535, 65535, 65535>>

\* Literal written most-significant limb first, e.g. 0x6a09e667f3bcc908 is
\* W64Lit(\h6a09, \he667, \hf3bc, \hc908).
W64Lit(h3, h2, h1, h0) == <<h0, h1, h2, h3>>

\* n < 2^31
W64FromNat(n) == <<n % M16, n \div M16, 0, 0>>

\* 2^s for s in 0..16, as a table (index s + 1).
W64Pow2 == <<1, 2, 4, 8, 16, 32, 64, 128, 256, 512, 1024, 2048, 4096, 8192,
             16384, 32768, 65536>>

IsW64(w) == /\ DOMAIN w = 1..4
            /\ \A i \in 1..4 : w[i] \in 0..65535

(* Addition modulo 2^64 *)
W64Add(a, b) ==
  LET s1 == a[1] + b[1]
      s2 == a[2] + b[2] + s1 \div M16
      s3 == a[3] + b[3] + s2 \div M16
      s4 == a[4] + b[4] + s3 \div M16
  IN <<s1 % M16, s2 % M16, s3 % M16, s4 % M16>>

W64Xor(a, b) == <<a[1] ^^ b[1], a[2] ^^ b[2], a[3] ^^ b[3], a[4] ^^ b[4]>>
W64And(a, b) == <<a[1] & b[1], a[2] & b[2], a[3] & b[3], a[4] & b[4]>>
W64Not(a)    == <<65535 - a[1], 65535 - a[2], 65535 - a[3], 65535 - a[4]>>

(* Rotate right by r, 0 <= r <= 63 *)
W64Rotr(a, r) ==
  LET q == r \div 16
      s == r % 16
  IN IF s = 0
     THEN <<a[(q % 4) + 1], a[((1 + q) % 4) + 1],
            a[((2 + q) % 4) + 1], a[((3 + q) % 4) + 1]>>
     ELSE LET d  == W64Pow2[s + 1]          \* 2^s
              u  == W64Pow2[17 - s]         \* 2^(16-s)
              x0 == a[(q % 4) + 1]
              x1 == a[((1 + q) % 4) + 1]
              x2 == a[((2 + q) % 4) + 1]
              x3 == a[((3 + q) % 4) + 1]
          IN << (x0 \div d) + (x1 % d) * u,
                (x1 \div d) + (x2 % d) * u,
                (x2 \div d) + (x3 % d) * u,
                (x3 \div d) + (x0 % d) * u >>

(* Rotate left by r, 0 <= r <= 63 *)
W64Rotl(a, r) == W64Rotr(a, (64 - r) % 64)

(* Logical shift right by r, 0 <= r <= 63 *)
W64Shr(a, r) ==
  LET q == r \div 16
      s == r % 16
      L(i) == IF i + q <= 4 THEN a[i + q] ELSE 0         \* limb i after the limb shift
  IN IF s = 0
     THEN <<L(1), L(2), L(3), L(4)>>
     ELSE LET d == W64Pow2[s + 1]
              u == W64Pow2[17 - s]
              x1 == L(1)  x2 == L(2)  x3 == L(3)  x4 == L(4)
          IN << (x1 \div d) + (x2 % d) * u,
                (x2 \div d) + (x3 % d) * u,
                (x3 \div d) + (x4 % d) * u,
                (x4 \div d) >>

(* Byte conversions: bs is a sequence of exactly 8 bytes *)
W64FromBytesLE(bs) == << bs[1] + 256 * bs[2], bs[3] + 256 * bs[4],
                         bs[5] + 256 * bs[6], bs[7] + 256 * bs[8] >>
W64FromBytesBE(bs) == << bs[8] + 256 * bs[7], bs[6] + 256 * bs[5],
                         bs[4] + 256 * bs[3], bs[2] + 256 * bs[1] >>
W64ToBytesLE(w) == << w[1] % 256, w[1] \div 256, w[2] % 256, w[2] \div 256,
                      w[3] % 256, w[3] \div 256, w[4] % 256, w[4] \div 256 >>
W64ToBytesBE(w) == << w[4] \div 256, w[4] % 256, w[3] \div 256, w[3] % 256,
                      w[2] \div 256, w[2] % 256, w[1] \div 256, w[1] % 256 >>

\* The 8 bytes at offset off (0-based) of a longer byte string.
W64AtLE(bs, off) == << bs[off + 1] + 256 * bs[off + 2], bs[off + 3] + 256 * bs[off + 4],
                       bs[off + 5] + 256 * bs[off + 6], bs[off + 7] + 256 * bs[off + 8] >>
W64AtBE(bs, off) == << bs[off + 8] + 256 * bs[off + 7], bs[off + 6] + 256 * bs[off + 5],
                       bs[off + 4] + 256 * bs[off + 3], bs[off + 2] + 256 * bs[off + 1] >>

(***************************************************************************)
(* 16 x 16 -> 32 bit product as <<lo16, hi16>>.  x * y itself can exceed   *)
(* 2^31 - 1, so y is split into two bytes: x * y = p + 256 * q with        *)
(* p = x * (y % 256) < 2^24 and q = x * (y \div 256) < 2^24.               *)
(***************************************************************************)
W64Mul16(x, y) ==
  LET p  == x * (y % 256)
      q  == x * (y \div 256)
      lo == p + (q % 256) * 256                 \* < 2^24 + 2^16
  IN << lo % M16, (lo \div M16) + (q \div 256) >>

(***************************************************************************)
(* (a mod 2^32) * (b mod 2^32) as a full 64-bit word.                      *)
(***************************************************************************)
W64MulLo32(a, b) ==
  LET p00 == W64Mul16(a[1], b[1])
      p01 == W64Mul16(a[1], b[2])
      p10 == W64Mul16(a[2], b[1])
      p11 == W64Mul16(a[2], b[2])
      s2  == p00[2] + p01[1] + p10[1]
      s3  == p01[2] + p10[2] + p11[1] + s2 \div M16
      s4  == p11[2] + s3 \div M16
  IN << p00[1], s2 % M16, s3 % M16, s4 >>

=============================================================================
