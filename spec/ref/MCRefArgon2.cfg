SPECIFICATION Spec
