---------------------------- MODULE Words32 ----------------------------
(* 32-bit words for TLC (whose integers are 32-bit signed).              *)
(* A word is a pair <<lo, hi>> of 16-bit limbs: value = lo + 65536 * hi. *)
(* Byte strings are sequences of naturals 0..255, 1-based.               *)
EXTENDS Naturals, Sequences, Bitwise

W32Zero == <<0, 0>>

\* TLC represents [i \in 1..n |-> e] as an unevaluated lambda and re-evaluates e on EVERY
\* application (no memoization).  Concatenation is Java-overridden and returns a concrete
\* tuple, so Strict forces one evaluation of all elements.  Semantically the identity.
Strict(seq) == seq \o <<>>

IsW32(w) == /\ DOMAIN w = 1..2 /\ w[1] \in 0..65535 /\ w[2] \in 0..65535

\* n must fit a TLC integer (n < 2^31)
W32FromNat(n) == <<n % 65536, (n \div 65536) % 65536>>

\* addition mod 2^32
W32Add(a, b) == LET l == a[1] + b[1]
                    h == a[2] + b[2] + (l \div 65536)
                IN <<l % 65536, h % 65536>>

W32Xor(a, b) == <<a[1] ^^ b[1], a[2] ^^ b[2]>>

\* rotate left by r bits, r \in 0..31
W32Rotl(a, r) == LET s == r % 16
                     x == IF (r % 32) >= 16 THEN <<a[2], a[1]>> ELSE a
                     p == 2 ^ s
                     q == 2 ^ (16 - s)
                 IN <<((x[1] * p) % 65536) + (x[2] \div q),
                      ((x[2] * p) % 65536) + (x[1] \div q)>>

\* four bytes, little-endian
W32FromBytesLE(bs) == <<bs[1] + 256 * bs[2], bs[3] + 256 * bs[4]>>
W32ToBytesLE(w) == <<w[1] % 256, w[1] \div 256, w[2] % 256, w[2] \div 256>>

\* 4*n bytes -> n words and back
W32SeqFromBytesLE(bs) == Strict([i \in 1..(Len(bs) \div 4) |->
                             <<bs[4 * i - 3] + 256 * bs[4 * i - 2], bs[4 * i - 1] + 256 * bs[4 * i]>>])
W32SeqToBytesLE(ws) == Strict([j \in 1..(4 * Len(ws)) |->
                           LET w == ws[((j - 1) \div 4) + 1]
                               k == (j - 1) % 4
                           IN IF k = 0 THEN w[1] % 256
                              ELSE IF k = 1 THEN w[1] \div 256
                              ELSE IF k = 2 THEN w[2] % 256
                              ELSE w[2] \div 256])

\* bytewise xor of two equally long byte strings
BytesXor(a, b) == Strict([i \in 1..Len(a) |-> a[i] ^^ b[i]])
========================================================================
