import subprocess,random
from pyargon2 import argon2
def oracle(*a): return bytes.fromhex(subprocess.check_output(["./oracle"]+[str(x) for x in a]).decode().strip())
random.seed(9106)
cases=[(2,1,8,32),(1,3,8,32),(2,2,12,80),(2,1,11,32),(2,1,8,16),(2,3,9,64),(2,1,16,65),(1,4,13,128),(2,2,35,33),(1,3,64,32),(2,1,600,32),(1,3,520,32)]
for (y,t,m,T) in cases:
    pwd=bytes(random.getrandbits(8) for _ in range(random.choice([0,1,8,33]))) if (y,t,m,T)!=(2,1,8,32) else b"password"
    salt=bytes(random.getrandbits(8) for _ in range(16))
    a=argon2(y,pwd,salt,t,m,T); b=oracle("pwhash",y,T,pwd.hex(),salt.hex(),t,m)
    print(y,t,m,T,len(pwd),a==b)
    assert a==b
