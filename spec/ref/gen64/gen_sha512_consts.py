# K[t] = first 64 bits of the fractional part of the cube root of the t-th prime (FIPS 180-4 4.2.3)
def primes(n):
    ps=[];c=2
    while len(ps)<n:
        if all(c%p for p in ps): ps.append(c)
        c+=1
    return ps
def icbrt(n):
    lo,hi=0,1<<((n.bit_length()+2)//3+1)
    while lo<hi:
        mid=(lo+hi+1)//2
        if mid**3<=n: lo=mid
        else: hi=mid-1
    return lo
def isqrt(n):
    import math; return math.isqrt(n)
K=[icbrt(p<<192)&((1<<64)-1) for p in primes(80)]
H=[isqrt(p<<128)&((1<<64)-1) for p in primes(8)]
assert K[0]==0x428a2f98d728ae22 and K[79]==0x6c44198c4a475817 and K[1]==0x7137449123ef65cd
assert H[0]==0x6a09e667f3bcc908 and H[7]==0x5be0cd19137e2179
def lit(x): return "W64Lit(\\h%04x, \\h%04x, \\h%04x, \\h%04x)"%((x>>48)&0xffff,(x>>32)&0xffff,(x>>16)&0xffff,x&0xffff)
if __name__=="__main__":
    for i in range(0,80,2): print("  "+lit(K[i])+", "+lit(K[i+1])+("," if i<78 else " >>"))
    print()
    for i in range(0,8,2): print("  "+lit(H[i])+", "+lit(H[i+1])+("," if i<6 else " >>"))
