M=(1<<64)-1
def rotl(x,b): return ((x<<b)|(x>>(64-b)))&M
def siphash24(key,msg):
    k0=int.from_bytes(key[:8],'little'); k1=int.from_bytes(key[8:],'little')
    v0=k0^0x736f6d6570736575; v1=k1^0x646f72616e646f6d; v2=k0^0x6c7967656e657261; v3=k1^0x7465646279746573
    def rnd(v0,v1,v2,v3):
        v0=(v0+v1)&M; v1=rotl(v1,13); v1^=v0; v0=rotl(v0,32)
        v2=(v2+v3)&M; v3=rotl(v3,16); v3^=v2
        v0=(v0+v3)&M; v3=rotl(v3,21); v3^=v0
        v2=(v2+v1)&M; v1=rotl(v1,17); v1^=v2; v2=rotl(v2,32)
        return v0,v1,v2,v3
    n=len(msg)
    padded=msg+bytes(7-n%8)+bytes([n&0xff])
    for i in range(0,len(padded),8):
        m=int.from_bytes(padded[i:i+8],'little')
        v3^=m
        v0,v1,v2,v3=rnd(*rnd(v0,v1,v2,v3))
        v0^=m
    v2^=0xff
    for _ in range(4): v0,v1,v2,v3=rnd(v0,v1,v2,v3)
    return ((v0^v1^v2^v3)&M).to_bytes(8,'little')
