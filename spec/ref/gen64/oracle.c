#include <sodium.h>
#include <stdio.h>
#include <stdlib.h>
#include <string.h>
static void hex(const unsigned char*b,size_t n){for(size_t i=0;i<n;i++)printf("%02x",b[i]);printf("\n");}
static size_t unhex(const char*s,unsigned char*out){size_t n=strlen(s)/2;for(size_t i=0;i<n;i++){unsigned v;sscanf(s+2*i,"%2x",&v);out[i]=v;}return n;}
int main(int argc,char**argv){
  if(sodium_init()<0)return 1;
  static unsigned char a[1<<16],b[1<<16],c[1<<16],out[1<<12];
  if(!strcmp(argv[1],"sip")){ /* sip keyhex msghex */
    unhex(argv[2],a); size_t n=unhex(argv[3],b); crypto_shorthash(out,b,n,a); hex(out,8);
  } else if(!strcmp(argv[1],"kdf")){ /* kdf len idhexLE ctxhex keyhex */
    size_t len=atoi(argv[2]); unhex(argv[3],a); unsigned long long id=0; for(int i=7;i>=0;i--) id=(id<<8)|a[i];
    unhex(argv[4],b); unhex(argv[5],c); char ctx[8]; memcpy(ctx,b,8);
    if(crypto_kdf_derive_from_key(out,len,id,ctx,c)!=0){printf("ERR\n");return 0;} hex(out,len);
  } else if(!strcmp(argv[1],"auth")){ /* auth keyhex(32) msghex */
    unhex(argv[2],a); size_t n=unhex(argv[3],b); crypto_auth(out,b,n,a); hex(out,32);
  } else if(!strcmp(argv[1],"hmac512")){ /* hmac512 keyhex msghex */
    size_t kl=unhex(argv[2],a); size_t n=unhex(argv[3],b); crypto_auth_hmacsha512_state st;
    crypto_auth_hmacsha512_init(&st,a,kl); crypto_auth_hmacsha512_update(&st,b,n); crypto_auth_hmacsha512_final(&st,out); hex(out,64);
  } else if(!strcmp(argv[1],"hmac512256")){
    size_t kl=unhex(argv[2],a); size_t n=unhex(argv[3],b); crypto_auth_hmacsha512256_state st;
    crypto_auth_hmacsha512256_init(&st,a,kl); crypto_auth_hmacsha512256_update(&st,b,n); crypto_auth_hmacsha512256_final(&st,out); hex(out,32);
  } else if(!strcmp(argv[1],"pwhash")){ /* pwhash alg outlen pwdhex salthex t mKiB */
    int alg=atoi(argv[2]); size_t outlen=atoi(argv[3]); size_t pl=unhex(argv[4],a); unhex(argv[5],b);
    unsigned long long t=atoll(argv[6]); size_t mem=(size_t)atoll(argv[7])*1024;
    if(crypto_pwhash(out,outlen,(const char*)a,pl,b,t,mem,alg)!=0){printf("ERR\n");return 0;} hex(out,outlen);
  } else if(!strcmp(argv[1],"gh")){ /* gh outlen keyhex salthex pershex msghex */
    size_t outlen=atoi(argv[2]); size_t kl=unhex(argv[3],a); size_t sl=unhex(argv[4],b); size_t pl=unhex(argv[5],c); static unsigned char m[1<<16]; size_t ml=unhex(argv[6],m);
    crypto_generichash_blake2b_salt_personal(out,outlen,m,ml,kl?a:NULL,kl,sl?b:NULL,pl?c:NULL); hex(out,outlen);
  }
  return 0;
}
