def B(bs):
    bs=list(bs)
    if not bs: return "<<>>"
    # wrap lines
    items=[str(b) for b in bs]
    lines=[]
    for i in range(0,len(items),32):
        lines.append(", ".join(items[i:i+32]))
    return "<<" + (",\n    ".join(lines)) + ">>"
def H(bs):
    return bytes(bs).hex()
class Mod:
    def __init__(self,name,extends,header):
        self.name=name
        self.out=["-"*30+" MODULE %s "%name+"-"*30, "(*"]+["   "+l for l in header.strip("\n").split("\n")]+["*)","EXTENDS %s, TLC"%extends,""]
    def raw(self,s): self.out.append(s)
    def check(self,comment,lhs,rhs):
        self.out.append("\\* "+comment)
        self.out.append("ASSUME %s\n     = %s"%(lhs,rhs))
    def write(self,dir="/verif/spec/ref"):
        self.out+= ["","VARIABLE x","Init == x = 0","Next == x' = x","Spec == Init /\\ [][Next]_x","="*77]
        open("%s/%s.tla"%(dir,self.name),"w").write("\n".join(self.out)+"\n")
        open("%s/%s.cfg"%(dir,self.name),"w").write("SPECIFICATION Spec\n")
