#!/bin/sh
# Provenance of the expected values embedded in ../MCRef{Words64,Blake2b,Sha512,Hmac,SipHash,Kdf,Argon2}.tla.
# Builds the libsodium oracle, self-checks the python references (RFC 9106 vectors, libsodium
# cross-checks, libsodium test/default/*.exp tables) and rewrites the MCRef*.tla/.cfg files in ..
# Run from this directory:  sh regen.sh
set -e
gcc -O2 -o oracle oracle.c /usr/lib/x86_64-linux-gnu/libsodium.a -lpthread
python3 pyargon2.py          # must print True three times (RFC 9106 section 5 vectors)
python3 xcheck_argon2.py     # python Argon2 == libsodium crypto_pwhash on 12 parameter sets
python3 gen_words.py
python3 gen_blake2b.py
python3 gen_sha512.py
python3 gen_small.py         # Hmac, SipHash, Kdf
python3 gen_argon2.py
rm -f oracle
rm -rf __pycache__
