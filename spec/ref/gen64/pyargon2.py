# Independent pure-python Argon2 (RFC 9106), version 0x13, types d=0, i=1, id=2, any p.
import hashlib, struct
M64=(1<<64)-1; M32=(1<<32)-1
def H(data,n): return hashlib.blake2b(data,digest_size=n).digest()
def Hprime(data,T):
    if T<=64: return H(struct.pack("<I",T)+data,T)
    r=(T+31)//32-2
    V=H(struct.pack("<I",T)+data,64); out=V[:32]
    for _ in range(2,r+1):
        V=H(V,64); out+=V[:32]
    V=H(V,T-32*r); out+=V
    assert len(out)==T
    return out
def rotr(x,n): return ((x>>n)|(x<<(64-n)))&M64
def GB(a,b,c,d):
    a=(a+b+2*(a&M32)*(b&M32))&M64; d=rotr(d^a,32)
    c=(c+d+2*(c&M32)*(d&M32))&M64; b=rotr(b^c,24)
    a=(a+b+2*(a&M32)*(b&M32))&M64; d=rotr(d^a,16)
    c=(c+d+2*(c&M32)*(d&M32))&M64; b=rotr(b^c,63)
    return a,b,c,d
def P(v):
    v=list(v)
    for (a,b,c,d) in [(0,4,8,12),(1,5,9,13),(2,6,10,14),(3,7,11,15),(0,5,10,15),(1,6,11,12),(2,7,8,13),(3,4,9,14)]:
        v[a],v[b],v[c],v[d]=GB(v[a],v[b],v[c],v[d])
    return v
def G(X,Y):
    R=[x^y for x,y in zip(X,Y)]
    Q=list(R)
    for i in range(8):
        Q[16*i:16*i+16]=P(Q[16*i:16*i+16])
    Z=list(Q)
    for i in range(8):
        idx=[]
        for r in range(8): idx+= [16*r+2*i,16*r+2*i+1]
        out=P([Q[k] for k in idx])
        for k,o in zip(idx,out): Z[k]=o
    return [z^r for z,r in zip(Z,R)]
def argon2(y,P_,S,t,m,T,p=1,K=b"",X=b"",v=0x13,trace=None):
    H0=H(struct.pack("<6I",p,T,m,t,v,y)+struct.pack("<I",len(P_))+P_+struct.pack("<I",len(S))+S+struct.pack("<I",len(K))+K+struct.pack("<I",len(X))+X,64)
    mp=4*p*(m//(4*p)); q=mp//p; SL=q//4
    B=[[None]*q for _ in range(p)]
    tow=lambda bs:list(struct.unpack("<128Q",bs))
    for l in range(p):
        B[l][0]=tow(Hprime(H0+struct.pack("<II",0,l),1024))
        B[l][1]=tow(Hprime(H0+struct.pack("<II",1,l),1024))
    zero=[0]*128
    for r in range(t):
        for s in range(4):
            for l in range(p):
                indep = (y==1) or (y==2 and r==0 and s<2)
                addr=None
                for i in range(SL):
                    if r==0 and s==0 and i<2: continue
                    j=s*SL+i
                    prev=B[l][(j-1)%q]
                    if indep:
                        if addr is None or i%128==0:
                            inp=[r,l,s,mp,t,y,i//128+1]+[0]*121
                            addr=G(zero,G(zero,inp))
                        w=addr[i%128]
                    else:
                        w=prev[0]
                    J1=w&M32; J2=w>>32
                    rl = l if (r==0 and s==0) else J2%p
                    same = (rl==l)
                    if r==0:
                        if s==0: area=i-1
                        elif same: area=s*SL+i-1
                        else: area=s*SL-(1 if i==0 else 0)
                    else:
                        if same: area=q-SL+i-1
                        else: area=q-SL-(1 if i==0 else 0)
                    x=(J1*J1)>>32; yy=(area*x)>>32; z=area-1-yy
                    start = 0 if (r==0 or s==3) else (s+1)*SL
                    ref=(start+z)%q
                    if trace is not None: trace.append((r,s,i,j,J1,J2,area,ref))
                    new=G(prev,B[rl][ref])
                    if r>0: new=[a^b for a,b in zip(new,B[l][j])]
                    B[l][j]=new
    C=B[0][q-1]
    for l in range(1,p): C=[a^b for a,b in zip(C,B[l][q-1])]
    return Hprime(struct.pack("<128Q",*C),T)
if __name__=="__main__":
    # RFC 9106 section 5 test vectors: p=4, m=32, t=3, pwd=01x32, salt=02x16, secret=03x8, ad=04x12, T=32
    args=dict(P_=b"\x01"*32,S=b"\x02"*16,t=3,m=32,T=32,p=4,K=b"\x03"*8,X=b"\x04"*12)
    exp={0:"512b391b6f1162975371d30919734294f868e3be3984f3c1a13a4db9fabe4acb",
         1:"c814d9d1dc7f37aa13f0d77f2494bda1c8de6b016dd388d29952a4c4672b6ce8",
         2:"0d640df58d78766c08c037a34a8b53c9d01ef0452d75b65eb52520e96b01e659"}
    for y in (0,1,2):
        got=argon2(y,**args).hex(); print(y,got,got==exp[y])
