---- MODULE B2 ----
EXTENDS Naturals, Sequences, Bitwise, TLC
M == 65536
\* 64-bit word = 4 limbs of 16 bits, little-endian, indexed 1..4
W(a, b, c, d) == <<d, c, b, a>>     \* W(hi..lo) written big-endian for constants
Add(a, b) == LET s1 == a[1] + b[1]
                 s2 == a[2] + b[2] + s1 \div M
                 s3 == a[3] + b[3] + s2 \div M
                 s4 == a[4] + b[4] + s3 \div M
             IN <<s1 % M, s2 % M, s3 % M, s4 % M>>
X(a, b) == <<a[1] ^^ b[1], a[2] ^^ b[2], a[3] ^^ b[3], a[4] ^^ b[4]>>
Rotr(a, r) == LET q == r \div 16  s == r % 16
                  L(i) == a[((i - 1 + q) % 4) + 1]
                  H(i) == a[((i + q) % 4) + 1]
              IN IF s = 0 THEN [i \in 1..4 |-> L(i)]
                 ELSE [i \in 1..4 |-> (L(i) \div (2 ^ s)) + ((H(i) % (2 ^ s)) * (2 ^ (16 - s)))]
IV == << W(27145, 58983, 62396, 51464), W(47975, 44677, 33994, 42811), W(15470, 62322, 65172, 63531), W(42319, 62778, 24349, 14065),
         W(20750, 21119, 44518, 33489), W(39685, 26764, 11070, 27679), W(8067, 55723, 64321, 48491), W(23520, 52505, 4990, 8569) >>
SIGMA == << <<0,1,2,3,4,5,6,7,8,9,10,11,12,13,14,15>>, <<14,10,4,8,9,15,13,6,1,12,0,2,11,7,5,3>>,
            <<11,8,12,0,5,2,15,13,10,14,3,6,7,1,9,4>>, <<7,9,3,1,13,12,11,14,2,6,5,10,4,0,15,8>>,
            <<9,0,5,7,2,4,10,15,14,1,11,12,6,8,3,13>>, <<2,12,6,10,0,11,8,3,4,13,7,5,15,14,1,9>>,
            <<12,5,1,15,14,13,4,10,0,7,6,3,9,2,8,11>>, <<13,11,7,14,12,1,3,9,5,0,15,4,8,6,2,10>>,
            <<6,15,14,9,11,3,0,8,12,2,13,7,1,4,10,5>>, <<10,2,8,4,7,6,1,5,15,11,9,14,3,12,13,0>>,
            <<0,1,2,3,4,5,6,7,8,9,10,11,12,13,14,15>>, <<14,10,4,8,9,15,13,6,1,12,0,2,11,7,5,3>> >>
G(v, a, b, c, d, x, y) ==
  LET a1 == Add(Add(v[a], v[b]), x)   d1 == Rotr(X(v[d], a1), 32)
      c1 == Add(v[c], d1)             b1 == Rotr(X(v[b], c1), 24)
      a2 == Add(Add(a1, b1), y)       d2 == Rotr(X(d1, a2), 16)
      c2 == Add(c1, d2)               b2 == Rotr(X(b1, c2), 63)
  IN [v EXCEPT ![a] = a2, ![b] = b2, ![c] = c2, ![d] = d2]
Round(v, m, r) ==
  LET s == SIGMA[r]
      mm(i) == m[s[i] + 1]
      v1 == G(v, 1, 5, 9, 13, mm(1), mm(2))    v2 == G(v1, 2, 6, 10, 14, mm(3), mm(4))
      v3 == G(v2, 3, 7, 11, 15, mm(5), mm(6))  v4 == G(v3, 4, 8, 12, 16, mm(7), mm(8))
      v5 == G(v4, 1, 6, 11, 16, mm(9), mm(10)) v6 == G(v5, 2, 7, 12, 13, mm(11), mm(12))
      v7 == G(v6, 3, 8, 9, 14, mm(13), mm(14)) v8 == G(v7, 4, 5, 10, 15, mm(15), mm(16))
  IN v8
RECURSIVE Rounds(_, _, _)
Rounds(v, m, r) == IF r > 12 THEN v ELSE Rounds(Round(v, m, r), m, r + 1)
Zero == <<0, 0, 0, 0>>
Ones == <<65535, 65535, 65535, 65535>>
\* h: 8 words; m: 16 words; t0: word (low counter); last: BOOLEAN
Compress(h, m, t0, last) ==
  LET v0 == [i \in 1..16 |-> IF i <= 8 THEN h[i] ELSE IF i = 13 THEN X(IV[5], t0) ELSE IF i = 15 /\ last THEN X(IV[7], Ones) ELSE IV[i - 8]]
      v == Rounds(v0, m, 1)
  IN [i \in 1..8 |-> X(X(h[i], v[i]), v[i + 8])]
WordOfBytes(bs, k) == [j \in 1..4 |-> bs[8 * (k - 1) + 2 * j - 1] + 256 * bs[8 * (k - 1) + 2 * j]]
BlockWords(bs) == [k \in 1..16 |-> WordOfBytes(bs, k)]
Pad(bs, n) == bs \o [i \in 1..(n - Len(bs)) |-> 0]
SmallWord(n) == <<n % M, n \div M, 0, 0>>
\* unkeyed hash, outlen bytes, message < 2^31 bytes
RECURSIVE Absorb(_, _, _)
Absorb(h, msg, off) == IF Len(msg) - off <= 128
                       THEN Compress(h, BlockWords(Pad(SubSeq(msg, off + 1, Len(msg)), 128)), SmallWord(Len(msg)), TRUE)
                       ELSE Absorb(Compress(h, BlockWords(SubSeq(msg, off + 1, off + 128)), SmallWord(off + 128), FALSE), msg, off + 128)
H0(outlen) == [IV EXCEPT ![1] = X(IV[1], <<(outlen + 0) % M, 257, 0, 0>>)]   \* 0x0101 kk nn : nn | kk<<8 in limb1; fanout/depth in limb2
WordBytes(w) == <<w[1] % 256, w[1] \div 256, w[2] % 256, w[2] \div 256, w[3] % 256, w[3] \div 256, w[4] % 256, w[4] \div 256>>
Hash(msg, outlen) == LET h == Absorb(H0(outlen), msg, 0)
                         all == WordBytes(h[1]) \o WordBytes(h[2]) \o WordBytes(h[3]) \o WordBytes(h[4]) \o WordBytes(h[5]) \o WordBytes(h[6]) \o WordBytes(h[7]) \o WordBytes(h[8])
                     IN SubSeq(all, 1, outlen)
VARIABLES k, out
Msg(n) == [i \in 1..n |-> (i * 7 + n) % 256]
Init == k = 0 /\ out = Hash(<<97, 98, 99>>, 64)
Next == k < 40 /\ k' = k + 1 /\ out' = Hash(Msg(100 * k'), 32)
Spec == Init /\ [][Next]_<<k, out>>
P == k = 0 => PrintT(out)
====
