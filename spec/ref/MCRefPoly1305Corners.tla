----------------------- MODULE MCRefPoly1305Corners -----------------------
(* Corner search for Poly1305: enumerate short messages made of crafted     *)
(* 16-byte blocks for a few r values and PRINT every (r, message) whose      *)
(* accumulator passes through a rare carry / reduction path.                 *)
(*                                                                           *)
(* Output: one line per hit (TLC prints the string in double quotes)         *)
(*   "CORNER <rname> <path> <classes> <msghex>"                              *)
(*   rname   : r1 | r2 | rmax          (r = 1, 2, 0x0ffffffc0ffffffc0ffffffc0fffffff) *)
(*   path    : block kinds joined by '.', e.g. ff.fb.t-1                     *)
(*   classes : ','-joined classes of the LAST block's absorption (below)     *)
(*   msghex  : the concrete message (16 bytes per block), lowercase hex      *)
(* The key is CornerKey(rname, s16) = r bytes || s bytes for any s.          *)
(* Every prefix of a path is a state of its own, so a corner hit in the      *)
(* middle of a longer message shows up as the line of that prefix.           *)
(* Usage: tlc ... -config MCRefPoly1305Corners.cfg MCRefPoly1305Corners.tla  *)
(*        | grep CORNER      (about 1800 lines, a few seconds)               *)
(* gen32/check_corners.py re-derives the classes of every printed line with  *)
(* python big integers (all lines agreed when this module was written).      *)
(*                                                                           *)
(* Classes, for the step  h' = ((h + n) * r) mod p  of the last block:       *)
(*   h_small      h' in 0..5                                   (trigger)     *)
(*   h_near_p     h' in p-6..p-1                               (trigger)     *)
(*   final_sub    the completely folded value f (f < 2^130, f == (h+n)*r)    *)
(*                is >= p, i.e. the final conditional subtraction fires      *)
(*                (f in p..p+4)                                (trigger)     *)
(*   sum_ge_2_130 h + n >= 2^130 (130-bit overflow before multiplying)       *)
(*   refold       one fold lo130 + 5*hi of the product is still >= 2^130     *)
(*   h_ge_2_128   h' >= 2^128 (bits dropped when the tag is formed)          *)
(*   hs_carry     (h' mod 2^128) + s carries out of 2^128 for s = 2^128-1,   *)
(*                i.e. h' mod 2^128 # 0.  True for almost every message, so  *)
(*                it is reported as a flag; it only triggers a line when     *)
(*                TriggerOnTagCarry is TRUE.                                 *)
(*   hs_nocarry   h' # 0 but h' mod 2^128 = 0: the rare case for s = 2^128-1 *)
(*                (no carry at all although h' is non-zero)    (trigger)     *)
EXTENDS Poly1305, TLC
LOCAL INSTANCE SequencesExt

MaxBlocks == 3
TriggerOnTagCarry == FALSE

RNames == {"r1", "r2", "rmax"}
Zero15 == [i \in 1..15 |-> 0]
FF15   == [i \in 1..15 |-> 255]
RBytes(rn) == CASE rn = "r1"   -> <<1>> \o Zero15
                [] rn = "r2"   -> <<2>> \o Zero15
                [] rn = "rmax" -> <<255, 255, 255, 15, 252, 255, 255, 15, 252, 255, 255, 15, 252, 255, 255, 15>>
CornerKey(rn, s16) == RBytes(rn) \o s16
RNat(rn) == BNFromBytesLE(PolyClamp(RBytes(rn)))

Two128 == BNFromBytesLE([i \in 1..16 |-> 0] \o <<1>>)
Two129 == BNMulSmall(Two128, 2)

\* r^-1 mod p (python pow(r, p-2, p)); checked by invariant Consistent: r * rinv mod p = 1
RInv(rn) == CASE rn = "r1"   -> <<1>>
              [] rn = "r2"   -> <<8190, 8191, 8191, 8191, 8191, 8191, 8191, 8191, 8191, 4095>>
              [] rn = "rmax" -> <<523, 5282, 4743, 7051, 5648, 4366, 6317, 7940, 1716, 166>>

\* The block alphabet: fixed 16-byte blocks, plus TARGETED blocks that depend on the current
\* accumulator h and on r: "t+k" (k = 0..5) is the 16-byte block after which h' = k, and
\* "t-k" (k = 1..6) the one after which h' = p - k; they exist iff the required block value
\* n = (target * r^-1 - h) mod p lies in [2^128, 2^129) (otherwise Blk = <<>>, no transition).
FixedKinds  == {"00", "01", "02", "80", "fa", "fb", "fc", "fe", "ff"}
TargetKinds == {"t+0", "t+1", "t+2", "t+3", "t+4", "t+5", "t-1", "t-2", "t-3", "t-4", "t-5", "t-6"}
Kinds == FixedKinds \cup TargetKinds
TargetOf(kind) == CASE kind = "t+0" -> <<>>   [] kind = "t+1" -> <<1>> [] kind = "t+2" -> <<2>>
                    [] kind = "t+3" -> <<3>>  [] kind = "t+4" -> <<4>> [] kind = "t+5" -> <<5>>
                    [] kind = "t-1" -> BNSub(PolyP, <<1>>) [] kind = "t-2" -> BNSub(PolyP, <<2>>)
                    [] kind = "t-3" -> BNSub(PolyP, <<3>>) [] kind = "t-4" -> BNSub(PolyP, <<4>>)
                    [] kind = "t-5" -> BNSub(PolyP, <<5>>) [] kind = "t-6" -> BNSub(PolyP, <<6>>)
Blk(kind, h, rinv) ==
    CASE kind = "00"  -> [i \in 1..16 |-> 0]
      [] kind = "01"  -> <<1>> \o Zero15
      [] kind = "02"  -> <<2>> \o Zero15
      [] kind = "80"  -> Zero15 \o <<128>>                     \* 2^127
      [] kind = "fa"  -> <<250>> \o FF15                       \* 2^128 - 6
      [] kind = "fb"  -> <<251>> \o FF15                       \* 2^128 - 5
      [] kind = "fc"  -> <<252>> \o FF15                       \* 2^128 - 4
      [] kind = "fe"  -> <<254>> \o FF15                       \* 2^128 - 2
      [] kind = "ff"  -> [i \in 1..16 |-> 255]                 \* 2^128 - 1
      [] kind \in TargetKinds ->
            LET w == PolyModP(BNMul(TargetOf(kind), rinv))     \* required (h + n) mod p
                n == IF BNGeq(w, h) THEN BNSub(w, h) ELSE BNSub(BNAdd(w, PolyP), h)   \* h < p
            IN IF BNGeq(n, Two128) /\ ~BNGeq(n, Two129)
               THEN BNToBytesLE(BNSub(n, Two128), 16) ELSE <<>>

\* h mod 2^128: limbs 1..9 (117 bits) and the low 11 bits of limb 10
Lo128(h) == BNTrim([i \in 1..BNMin(Len(h), 10) |-> IF i = 10 THEN h[i] % 2048 ELSE h[i]] \o <<>>)

\* classes of absorbing block value n into accumulator h under r; returns <<h', classes>>
Absorb(h, r, n) ==
    LET sum  == BNAdd(h, n)
        prod == BNMul(sum, r)
        g    == PolyFoldOnce(prod)
        f    == PolyFold(prod)
        h2   == IF BNGeq(f, PolyP) THEN BNSub(f, PolyP) ELSE f
        cls  == (IF Len(h2) <= 1 /\ BNGet(h2, 1) <= 5 THEN {"h_small"} ELSE {})
                \cup (IF BNGeq(BNAdd(h2, <<6>>), PolyP) THEN {"h_near_p"} ELSE {})
                \cup (IF BNGeq(f, PolyP) THEN {"final_sub"} ELSE {})
                \cup (IF Len(sum) > 10 THEN {"sum_ge_2_130"} ELSE {})
                \cup (IF Len(g) > 10 THEN {"refold"} ELSE {})
                \cup (IF BNGeq(h2, Two128) THEN {"h_ge_2_128"} ELSE {})
                \cup (IF Lo128(h2) # <<>> THEN {"hs_carry"} ELSE {})
                \cup (IF Lo128(h2) = <<>> /\ h2 # <<>> THEN {"hs_nocarry"} ELSE {})
    IN <<h2, cls>>

VARIABLES rn, path, msg, h, cls
vars == <<rn, path, msg, h, cls>>

Init == /\ rn \in RNames
        /\ path = <<>> /\ msg = <<>> /\ h = <<>> /\ cls = {}

Next == /\ Len(path) < MaxBlocks
        /\ \E k \in Kinds :
              LET b == Blk(k, h, RInv(rn)) IN
              /\ b # <<>>
              /\ LET a == Absorb(h, RNat(rn), BNFromBytesLE(b \o <<1>>))
                 IN /\ h' = a[1]
                    /\ cls' = a[2]
              /\ path' = Append(path, k)
              /\ msg' = msg \o b
              /\ rn' = rn

Spec == Init /\ [][Next]_vars

\* ---- reporting -------------------------------------------------------------
Triggers == {"h_small", "h_near_p", "final_sub", "hs_nocarry"}
               \cup (IF TriggerOnTagCarry THEN {"hs_carry"} ELSE {})
ClassOrder == <<"h_small", "h_near_p", "final_sub", "hs_nocarry", "sum_ge_2_130", "refold", "h_ge_2_128", "hs_carry">>
HexDigit == <<"0", "1", "2", "3", "4", "5", "6", "7", "8", "9", "a", "b", "c", "d", "e", "f">>
Join(strs, sep) == FoldLeft(LAMBDA acc, s : IF acc = "" THEN s ELSE acc \o sep \o s, "", strs)
HexOf(bs) == FoldLeft(LAMBDA acc, b : acc \o HexDigit[(b \div 16) + 1] \o HexDigit[(b % 16) + 1], "", bs)
ClassStr(c) == Join(SelectSeq(ClassOrder, LAMBDA x : x \in c), ",")
Line == "CORNER " \o rn \o " " \o Join(path, ".") \o " " \o ClassStr(cls) \o " " \o HexOf(msg)

\* always TRUE; prints as a side effect (each distinct state is checked exactly once)
Report == (cls \cap Triggers # {}) => PrintT(Line)

\* sanity: the modelled accumulator is the library's accumulator for the concrete key/message
Consistent == /\ h = PolyAccAfter(CornerKey(rn, [i \in 1..16 |-> 255]), msg)
              /\ PolyModP(BNMul(RNat(rn), RInv(rn))) = <<1>>
===========================================================================
