SPECIFICATION Spec
INVARIANTS Emit
CHECK_DEADLOCK FALSE
