-------------------------------- MODULE Hmac --------------------------------
(***************************************************************************)
(* HMAC (RFC 2104) instantiated with SHA-512 (block size B = 128 bytes,    *)
(* output L = 64 bytes), cf. RFC 4231.                                     *)
(*                                                                         *)
(*   HmacSha512(key, msg)     -> 64 bytes; key of any length (keys longer  *)
(*                               than 128 bytes are first hashed)          *)
(*   HmacSha512256(key, msg)  -> first 32 bytes of HmacSha512, i.e.        *)
(*                               libsodium crypto_auth / crypto_auth_      *)
(*                               hmacsha512256 (NOT HMAC over SHA-512/256) *)
(***************************************************************************)
EXTENDS Naturals, Sequences, Bitwise, Sha512

\* RFC 2104 section 2, steps (1)-(2): key of exactly B = 128 bytes.
HmacSha512BlockKey(key) ==
  LET k0 == IF Len(key) > 128 THEN Sha512(key) ELSE key
  IN k0 \o [i \in 1..(128 - Len(k0)) |-> 0]

\* H((K0 xor opad) || H((K0 xor ipad) || text)),  ipad = 0x36.., opad = 0x5c..
HmacSha512(key, msg) ==
  LET k0    == HmacSha512BlockKey(key)
      ikey  == [i \in 1..128 |-> k0[i] ^^ 54]      \* 0x36
      okey  == [i \in 1..128 |-> k0[i] ^^ 92]      \* 0x5c
      inner == Sha512(ikey \o msg)
  IN Sha512(okey \o inner)

HmacSha512256(key, msg) == SubSeq(HmacSha512(key, msg), 1, 32)

=============================================================================
