from ref import *
from harness import harness
import vectors as V
def bn(x):
    o = []
    while x: o.append(x & 8191); x >>= 13
    return tla(o)
defs, tests = [], []
names = {"rfc1": "RFC 7748 5.2 vector 1", "rfc2": "RFC 7748 5.2 vector 2", "iter1": "RFC 7748 5.2 iterated, after 1 iteration",
         "alicepub": "RFC 7748 6.1 Alice public", "bobpub": "RFC 7748 6.1 Bob public", "shared_a": "RFC 7748 6.1 shared (Alice side)", "shared_b": "RFC 7748 6.1 shared (Bob side)"}
for n, k, u, o in V.XV:
    defs.append("K_%s == %s\nU_%s == %s\nO_%s == %s" % (n, tla(H(k)), n, tla(H(u)), n, tla(H(o))))
    tests.append((names[n], "X25519(K_%s, U_%s) = O_%s" % (n, n, n)))
p = P
s07 = bytes([7] * 32)
extra = [("u0", "u = 0 -> all-zero output", 0), ("u1", "u = 1 (order 4 point: output 0)", 1), ("upm1", "u = p-1 (small-order point)", p - 1),
         ("up", "u = p, non-canonical zero", p), ("upp1", "u = p+1, non-canonical one", p + 1), ("upp9", "u = p+9, non-canonical base point", p + 9),
         ("uall", "u = 2^256-1: top bit masked -> 2^255-1 = p+18 -> 18", (1 << 256) - 1),
         ("u9hi", "u = 9 with bit 255 set (masked)", 9 + (1 << 255)),
         ("utwist2", "u = 2 (on the twist), scalar 07..07", 2),
         ("upm2", "u = p-2", p - 2)]
defs.append("K07 == [i \\in 1..32 |-> 7]")
for n, c, uv in extra:
    ub = uv.to_bytes(32, "little")
    defs.append("U_%s == %s" % (n, tla(ub)))
    tests.append(("computed (python RFC 7748 transcription): " + c, "X25519(K07, U_%s) = %s" % (n, tla(x25519(s07, ub)))))
# clamping: scalar all-ff and all-00 on the base point
for n, kb in (("kff", b"\xff" * 32), ("k00", bytes(32))):
    tests.append(("computed: scalar %s on base point (clamping)" % n, "X25519Base(%s) = %s" % (tla(kb), tla(x25519(kb, (9).to_bytes(32, "little"))))))
tests.append(("clamp", "X25519Clamp([i \\in 1..32 |-> 255]) = <<248>> \\o [i \\in 1..30 |-> 255] \\o <<127>> /\\ X25519Clamp([i \\in 1..32 |-> 0]) = [i \\in 1..31 |-> 0] \\o <<64>>"))
# field self-checks
import random
random.seed(1)
a = random.getrandbits(259); b = random.getrandbits(260)
tests.append(("F25519P is 2^255-19", "F25519P = %s /\\ BNAdd(F25519P, <<19>>) = [i \\in 1..20 |-> IF i = 20 THEN 256 ELSE 0]" % bn(p)))
tests.append(("64p", "F25519P64 = %s" % bn(64 * p)))
tests.append(("p-2 bits", "FoldLeft(LAMBDA acc, t : BNAdd(BNMulSmall(acc, 2), BNFromNat(F25519PMinus2Bit(t))), <<>>, [i \\in 1..255 |-> 255 - i]) = %s" % bn(p - 2)))
tests.append(("field mul (loose inputs near 2^260)", "F25519Canon(FMul(%s, %s)) = %s" % (bn(a), bn(b), bn(a * b % p))))
tests.append(("field mul of maximal loose inputs 2^260-1", "F25519Canon(FMul(%s, %s)) = %s" % (bn(2**260 - 1), bn(2**260 - 1), bn((2**260 - 1) ** 2 % p))))
tests.append(("field sub (a < b and b maximal)", "F25519Canon(FSub(%s, %s)) = %s /\\ F25519Canon(FSub(<<>>, %s)) = %s" % (bn(a), bn(b), bn((a - b) % p), bn(2**260 - 1), bn((-(2**260 - 1)) % p))))
tests.append(("field add", "F25519Canon(FAdd(%s, %s)) = %s" % (bn(2**260 - 1), bn(2**260 - 1), bn((2**261 - 2) % p))))
tests.append(("canon of p, p-1, p+1, 2p, 2^255-1, 2^260-1, 0", " /\\ ".join("F25519Canon(%s) = %s" % (bn(v), bn(v % p)) for v in (p, p - 1, p + 1, 2 * p, 2**255 - 1, 2**260 - 1, 0, 2**255, 32 * p - 1, 32 * p))))
tests.append(("inverse", "F25519Canon(FMul(%s, FInv(%s))) = <<1>> /\\ F25519Canon(FInv(<<>>)) = <<>> /\\ F25519Canon(FInv(<<2>>)) = %s" % (bn(a), bn(a), bn(pow(2, p - 2, p)))))
harness("MCRefX25519", "X25519",
 "(* Vectors for X25519.tla.  Published: RFC 7748 5.2 (two vectors, 1 iteration) and 6.1.  *)\n(* \"computed\" values come from a python transcription of RFC 7748 section 5 that          *)\n(* reproduces all the RFC vectors and matches libsodium crypto_scalarmult_curve25519 on  *)\n(* 50 random inputs.                                                                     *)",
 "LOCAL INSTANCE SequencesExt\n" + "\n".join(defs), tests)
