import sys
p = (1 << 130) - 5
R = {"r1": 1, "r2": 2, "rmax": 0x0ffffffc0ffffffc0ffffffc0fffffff}
order = ["h_small", "h_near_p", "final_sub", "hs_nocarry", "sum_ge_2_130", "refold", "h_ge_2_128", "hs_carry"]
n = bad = 0
for line in open(sys.argv[1]):
    line = line.strip().strip('"')
    if not line.startswith("CORNER "): continue
    _, rn, path, cls, hexmsg = line.split(" ")
    msg = bytes.fromhex(hexmsg); r = R[rn]
    assert len(msg) == 16 * len(path.split("."))
    h = 0
    for i in range(0, len(msg), 16):
        nn = int.from_bytes(msg[i:i+16] + b"\x01", "little")
        s = h + nn; prod = s * r
        g = (prod & ((1 << 130) - 1)) + 5 * (prod >> 130)
        f = prod
        while f >> 130: f = (f & ((1 << 130) - 1)) + 5 * (f >> 130)
        h2 = f - p if f >= p else f
        assert h2 == prod % p
        c = set()
        if h2 <= 5: c.add("h_small")
        if h2 >= p - 6: c.add("h_near_p")
        if f >= p: c.add("final_sub")
        if s >> 130: c.add("sum_ge_2_130")
        if g >> 130: c.add("refold")
        if h2 >> 128: c.add("h_ge_2_128")
        lo = h2 & ((1 << 128) - 1)
        if lo + (1 << 128) - 1 >= 1 << 128: c.add("hs_carry")
        if lo == 0 and h2: c.add("hs_nocarry")
        h = h2
    got = ",".join(x for x in order if x in c)
    n += 1
    if got != cls:
        bad += 1; print("MISMATCH", line, got)
print("checked", n, "lines; mismatches:", bad)
