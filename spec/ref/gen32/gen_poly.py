from ref import *
from harness import harness
import vectors as V
defs = []
tests = []
defs.append("K252 == " + tla(V.k252)); defs.append("M252 == " + tla(b"Cryptographic Forum Research Group")); defs.append("T252 == " + tla(H("a8061dc1305136c6c22b8baf0c0127a9")))
tests.append(("RFC 8439 2.5.2", "Poly1305(K252, M252) = T252"))
for n, k, msg, tag in V.A3:
    defs.append("K%d == %s\nM%d == %s\nT%d == %s" % (n, tla(k), n, tla(msg), n, tla(tag)))
    tests.append(("RFC 8439 A.3 #%d" % n, "Poly1305(K%d, M%d) = T%d" % (n, n, n)))
# accumulator checks (python big-int): h after the A.3 #8 message is 0 exactly (h = p before reduction)
def bn(x):
    o = []
    while x: o.append(x & 8191); x >>= 13
    return tla(o)
for i in (5, 7, 8, 9, 11):
    hh = poly1305_acc(V.A3[i - 1][1], V.A3[i - 1][2])
    tests.append(("A.3 #%d: accumulator before +s is %s (python)" % (i, hex(hh)), "PolyAccAfter(K%d, M%d) = %s" % (i, i, bn(hh))))
tests.append(("empty message: tag = s", "Poly1305(K252, <<>>) = SubSeq(K252, 17, 32)"))
# computed (python cross-checked against libsodium): short / 15 / 17 byte messages
for L in (1, 15, 16, 17, 33):
    m = bytes((7 * i + 3) & 255 for i in range(L))
    tests.append(("computed: %d-byte message" % L, "Poly1305(K252, %s) = %s" % (tla(m), tla(poly1305(V.k252, m)))))
# BigNat self-checks
a = 0x1234567890abcdef1122334455667788 ; b = (1 << 130) - 5
def bn(x):
    o = []
    while x: o.append(x & 8191); x >>= 13
    return tla(o)
tests.append(("BigNat mul", "BNMul(%s, %s) = %s" % (bn(a), bn(b), bn(a * b))))
tests.append(("BigNat add", "BNAdd(%s, %s) = %s" % (bn(a), bn(b), bn(a + b))))
tests.append(("BigNat sub", "BNSub(%s, %s) = %s" % (bn(b), bn(a), bn(b - a))))
tests.append(("BigNat sub to zero", "BNSub(%s, %s) = <<>>" % (bn(b), bn(b))))
tests.append(("IsBN", "IsBN(<<>>) /\\ IsBN(<<0, 1>>) /\\ ~IsBN(<<1, 0>>) /\\ ~IsBN(<<8192>>) /\\ IsBN(PolyP)"))
tests.append(("BigNat cmp", "BNGeq(%s, %s) /\\ ~BNGeq(%s, %s) /\\ BNGeq(%s, %s)" % (bn(b), bn(a), bn(a), bn(b), bn(a), bn(a))))
tests.append(("BigNat bytes round trip", "BNToBytesLE(BNFromBytesLE(M252), Len(M252)) = M252"))
tests.append(("BigNat from bytes", "BNFromBytesLE(%s) = %s" % (tla(a.to_bytes(16, "little")), bn(a))))
tests.append(("BigNat to bytes truncates", "BNToBytesLE(%s, 16) = %s" % (bn(a * b), tla(((a * b) & ((1 << 128) - 1)).to_bytes(16, "little")))))
tests.append(("BigNat mulsmall/fromnat", "BNMulSmall(BNFromNat(2147483647), 131071) = %s" % bn(2147483647 * 131071)))
tests.append(("PolyP is 2^130-5", "PolyP = %s /\\ BNAdd(PolyP, <<5>>) = [i \\in 1..11 |-> IF i = 11 THEN 1 ELSE 0]" % bn(b)))
tests.append(("ModP of p, p+1, 2^130+3, 2p", "PolyModP(PolyP) = <<>> /\\ PolyModP(BNAdd(PolyP, <<1>>)) = <<1>> /\\ PolyModP(%s) = <<8>> /\\ PolyModP(BNMulSmall(PolyP, 2)) = <<>>" % bn((1 << 130) + 3)))
harness("MCRefPoly1305", "Poly1305",
 "(* Vectors for Poly1305.tla / BigNat.tla.  Published: RFC 8439 2.5.2 and A.3 #1..#11   *)\n(* (typed from memory, then confirmed with a python big-int Poly1305 that was           *)\n(* cross-checked against libsodium crypto_onetimeauth_poly1305).  \"computed\" = python. *)",
 "\n".join(defs), tests)
