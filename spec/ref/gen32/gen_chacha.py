from ref import *
from harness import harness
import vectors as V
key = bytes(range(32))
n12 = H("000000000000004a00000000")
hin = H("000000090000004a0000000031415927")
c16 = bytes(range(100, 116))
wrapct = chacha20_block(key, 0xffffffff, n12) + chacha20_block(key, 0, n12)
def w(x): return "<<%d, %d>>" % (x & 0xffff, x >> 16)
defs = f"""Key0to31 == [i \\in 1..32 |-> i - 1]
Nonce232 == <<0,0,0,9,0,0,0,74,0,0,0,0>>
Nonce242 == <<0,0,0,0,0,0,0,74,0,0,0,0>>
HIn      == <<0,0,0,9,0,0,0,74,0,0,0,0,49,65,89,39>>
Const2   == [i \\in 1..16 |-> 99 + i]
Blk232 == {tla(V.blk)}
Pt242  == {tla(V.pt)}
Ct242  == {tla(V.ct)}
HC221  == {tla(V.hc)}"""
tests = [
 ("RFC 8439 2.1.1 quarter round", f"ChaChaQR({w(0x11111111)}, {w(0x01020304)}, {w(0x9b8d6f43)}, {w(0x01234567)}) = <<{w(0xea2a92f4)}, {w(0xcb1cf8ce)}, {w(0x4581472e)}, {w(0x5881c4bb)}>>"),
 ("RFC 8439 2.3.2 block function", "ChaCha20Block(Key0to31, 1, Nonce232) = Blk232"),
 ("RFC 8439 2.4.2 encryption", "ChaCha20Xor(Key0to31, Nonce242, 1, Pt242) = Ct242"),
 ("RFC 8439 2.4.2 decryption", "ChaCha20Xor(Key0to31, Nonce242, 1, Ct242) = Pt242"),
 ("empty input", "ChaCha20Xor(Key0to31, Nonce242, 1, <<>>) = <<>>"),
 ("draft-irtf-cfrg-xchacha 2.2.1 HChaCha20", "HChaCha20(Key0to31, HIn) = HC221"),
 ("HChaCha20C with sigma = HChaCha20", "HChaCha20C(Key0to31, HIn, ChaChaSigma) = HC221"),
 ("computed: HChaCha20 with explicit constant 64..73 (libsodium crypto_core_hchacha20 c)", "HChaCha20C(Key0to31, HIn, Const2) = " + tla(hchacha20(key, hin, c16))),
 ("computed: keystream for counters 0xffffffff then 0 (32-bit wrap)", "ChaCha20XorW(Key0to31, Nonce242, <<65535, 65535>>, [i \\in 1..128 |-> 0]) = " + tla(wrapct)),
 ("computed: 65-byte input from counter 7 (partial second block)", "ChaCha20Xor(Key0to31, Nonce232, 7, [i \\in 1..65 |-> i]) = " + tla(chacha20_xor(key, H("000000090000004a00000000"), 7, bytes(range(1, 66))))),
 ("W32Add wraps", "W32Add(<<65535, 65535>>, <<1, 0>>) = <<0, 0>> /\\ W32Add(<<65535, 0>>, <<1, 0>>) = <<0, 1>>"),
 ("W32Rotl 1 across limbs", "W32Rotl(<<1, 32768>>, 1) = <<3, 0>>"),
 ("W32Rotl 0 / 16", "W32Rotl(<<4660, 22136>>, 0) = <<4660, 22136>> /\\ W32Rotl(<<4660, 22136>>, 16) = <<22136, 4660>>"),
 ("W32Rotl all amounts vs doubling", "\\A r \\in 0..30 : W32Rotl(W32Rotl(<<4660, 39612>>, r), 1) = W32Rotl(<<4660, 39612>>, r + 1)"),
 ("W32Rotl 31 then 1 is identity", "W32Rotl(W32Rotl(<<4660, 39612>>, 31), 1) = <<4660, 39612>>"),
 ("W32Rotl 7 of 0x12345678 = 0x1a2b3c09", "W32Rotl(%s, 7) = %s" % (w(0x12345678), w(rotl(0x12345678, 7)))),
 ("bytes <-> word", "W32ToBytesLE(W32FromBytesLE(<<1, 2, 3, 254>>)) = <<1, 2, 3, 254>> /\\ W32FromBytesLE(<<120, 86, 52, 18>>) = <<22136, 4660>>"),
 ("W32FromNat", "W32FromNat(305419896) = <<22136, 4660>> /\\ W32FromNat(2147483647) = <<65535, 32767>>"),
 ("IsW32", "IsW32(<<1, 2>>) /\\ IsW32(<<65535, 65535>>) /\\ ~IsW32(<<65536, 0>>) /\\ ~IsW32(<<1, 2, 3>>)"),
 ("W32Xor", "W32Xor(<<65535, 4660>>, <<255, 4660>>) = <<65280, 0>>"),
]
harness("MCRefChaCha", "ChaCha",
 "(* Vectors for ChaCha.tla / Words32.tla.  Published: RFC 8439 2.1.1, 2.3.2, 2.4.2;       *)\n(* draft-irtf-cfrg-xchacha 2.2.1.  \"computed\" vectors come from a from-scratch python   *)\n(* reference cross-checked against libsodium 1.0.18 (crypto_stream_chacha20_ietf_xor_ic, *)\n(* crypto_core_hchacha20 with and without constant) on 50 random inputs.                *)",
 defs, tests)
