from ref import *
from harness import harness
import vectors as V
d = dict(Shared=V.shared, FirstKey=V.firstkey, SecondKey=V.secondkey, Nonce=V.nonce, Msg=V.m, Boxed=V.c)
defs = ["%s == %s" % (k, tla(v)) for k, v in d.items()]
c16 = bytes(range(100, 116))
defs.append("Const2 == [i \\in 1..16 |-> 99 + i]")
defs.append("Zero16 == [i \\in 1..16 |-> 0]")
tests = [
 ("NaCl paper sec.8: firstkey = HSalsa20(shared, 0)", "HSalsa20(Shared, Zero16) = FirstKey"),
 ("NaCl paper sec.8: secondkey = HSalsa20(firstkey, nonceprefix)", "HSalsa20(FirstKey, SubSeq(Nonce, 1, 16)) = SecondKey"),
 ("HSalsa20C with sigma = HSalsa20", "HSalsa20C(FirstKey, SubSeq(Nonce, 1, 16), SalsaSigma) = SecondKey"),
 ("computed: HSalsa20 with explicit constant", "HSalsa20C(FirstKey, SubSeq(Nonce, 1, 16), Const2) = " + tla(hsalsa20(V.firstkey, V.nonce[:16], c16))),
 ("computed: Salsa20 block 0 of secondkey (consistent with NaCl paper sec.9 stream)", "Salsa20Block(SecondKey, SubSeq(Nonce, 17, 24), [i \\in 1..8 |-> 0]) = " + tla(V.ks0)),
 ("computed: Salsa20 block with counter 0x0102030405060708", "Salsa20Block(SecondKey, SubSeq(Nonce, 17, 24), <<8,7,6,5,4,3,2,1>>) = " + tla(salsa20_block(V.secondkey, V.nonce[16:], bytes([8,7,6,5,4,3,2,1])))),
 ("NaCl secretbox vector: keystream from byte 32 = c xor m", "XSalsa20Stream(FirstKey, Nonce, 32 + 131) = " + tla(xsalsa20_stream(V.firstkey, V.nonce, 163))),
 ("XSalsa20Xor (computed, cross-checked vs libsodium crypto_stream_xsalsa20_xor)", "XSalsa20Xor(FirstKey, Nonce, Msg) = " + tla(xsalsa20_xor(V.firstkey, V.nonce, V.m))),
 ("classic NaCl secretbox test vector (tests/secretbox.c)", "SecretboxSeal(FirstKey, Nonce, Msg) = Boxed"),
 ("tag prefix f3 ff c7 70 ...", "SubSeq(SecretboxSeal(FirstKey, Nonce, Msg), 1, 16) = <<243,255,199,112,63,148,0,229,42,125,251,75,61,51,5,217>>"),
 ("open", "SecretboxOpen(FirstKey, Nonce, Boxed) = <<TRUE, Msg>>"),
 ("open rejects flipped tag bit", "SecretboxOpen(FirstKey, Nonce, <<242>> \\o Tail(Boxed)) = <<FALSE, <<>> >>"),
 ("open rejects flipped ciphertext bit", "SecretboxOpen(FirstKey, Nonce, SubSeq(Boxed, 1, 146) \\o <<Boxed[147] ^^ 1>>) = <<FALSE, <<>> >>"),
 ("empty message (computed)", "SecretboxSeal(FirstKey, Nonce, <<>>) = " + tla(secretbox_seal(V.firstkey, V.nonce, b""))),
 ("Salsa20Xor initial counter (computed)", "Salsa20Xor(SecondKey, SubSeq(Nonce, 17, 24), 1, [i \\in 1..70 |-> 0]) = " + tla((salsa20_block(V.secondkey, V.nonce[16:], (1).to_bytes(8, 'little')) + salsa20_block(V.secondkey, V.nonce[16:], (2).to_bytes(8, 'little')))[:70])),
]
harness("MCRefSalsa", "Salsa",
 "(* Vectors for Salsa.tla.  Published: \"Cryptography in NaCl\" sections 8-10 (firstkey,  *)\n(* secondkey, secretbox).  The literals were typed from memory and then confirmed by a  *)\n(* from-scratch python reference that was cross-checked against libsodium 1.0.18        *)\n(* (crypto_core_hsalsa20, crypto_core_salsa20, crypto_stream_xsalsa20_xor,              *)\n(* crypto_secretbox_easy) on 50 random inputs.  \"computed\" = from that python.         *)",
 "\n".join(defs), tests)

# Increment
inc_tests = [
 ("empty", "Increment(<<>>) = <<>> /\\ IsZero(<<>>)"),
 ("simple", "Increment(<<0>>) = <<1>> /\\ Increment(<<254, 7>>) = <<255, 7>>"),
 ("carry", "Increment(<<255, 7>>) = <<0, 8>> /\\ Increment(<<255, 255, 0>>) = <<0, 0, 1>>"),
 ("wrap", "Increment(<<255>>) = <<0>> /\\ Increment([i \\in 1..24 |-> 255]) = [i \\in 1..24 |-> 0]"),
 ("is zero", "IsZero(<<0, 0, 0>>) /\\ ~IsZero(<<0, 0, 1>>) /\\ ~IsZero(<<128>>) /\\ IsZero(Increment(<<255, 255>>))"),
 ("12-byte nonce", "Increment(<<255,255,255,255,255,255,255,255,0,0,0,0>>) = <<0,0,0,0,0,0,0,0,1,0,0,0>>"),
 ("exhaustive over 2-byte strings and a 3-digit alphabet on 4 bytes vs declarative spec", "(\\A a, b \\in 0..255 : Increment(<<a, b>>) = IncrementSpec(<<a, b>>)) /\\ (\\A s \\in [1..4 -> {0, 254, 255}] : Increment(s) = IncrementSpec(s))"),
 ("2-byte increment is +1 mod 65536", "\\A a, b \\in 0..255 : LET r == Increment(<<a, b>>) IN r[1] + 256 * r[2] = (a + 256 * b + 1) % 65536"),
]
harness("MCRefIncrement", "Increment", "(* Checks for Increment.tla (libsodium sodium_increment / sodium_is_zero semantics). *)", "", inc_tests)
