import os
OUT = os.path.dirname(os.path.dirname(os.path.abspath(__file__)))   # the directory holding the .tla modules
def harness(name, ext, header, defs, tests, extra_cfg=""):
    """tests: list of (comment, expr)"""
    arms = []
    for i, (c, e) in enumerate(tests):
        arms.append("k = %d -> %s   \\* %s" % (i + 1, e, c))
    case = "NTests == %d\nTest(k) ==\n  CASE " % len(tests) + "\n    [] ".join(arms)
    dash = "-" * 26
    out = f"""{dash} MODULE {name} {dash}
{header}
EXTENDS {ext}, TLC
{defs}
{case}

\\* Each vector is checked by the invariant on a non-initial state, i.e. on a TLC worker
\\* thread (workers honour -Xss from JAVA_TOOL_OPTIONS; the main thread that evaluates
\\* ASSUMEs and constant definitions keeps its 1 MB default unless JDK_JAVA_OPTIONS is used).
\\* A failing vector shows up as a violation of AllPass with tn = its number.
VARIABLE tn
Init == tn = 0
\\* four interleaved chains 0 -> j -> j+4 -> j+8 ... so that 4 workers share the vectors
Lanes == 4
Next == \\/ tn = 0 /\\ tn' \\in 1..(IF NTests < Lanes THEN NTests ELSE Lanes)
        \\/ tn > 0 /\\ tn + Lanes <= NTests /\\ tn' = tn + Lanes
Spec == Init /\\ [][Next]_tn
AllPass == tn > 0 => Test(tn)
{"=" * (len(name) + 62)}
"""
    open(os.path.join(OUT, name + ".tla"), "w").write(out)
    open(os.path.join(OUT, name + ".cfg"), "w").write("SPECIFICATION Spec\nINVARIANT AllPass\nCHECK_DEADLOCK FALSE\n" + extra_cfg)
