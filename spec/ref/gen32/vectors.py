#!/usr/bin/env python3
# Check recalled published vectors against the python reference (which is itself cross-checked
# against libsodium) and emit TLA+ literals.
from ref import *
ok = []
def chk(name, got, want):
    if got != want:
        print("MISMATCH", name, got.hex(), want.hex())
    else:
        ok.append(name)

key0_1f = bytes(range(32))
# RFC 8439 2.3.2
blk = H("10f1e7e4d13b5915500fdd1fa32071c4c7d1f4c733c068030422aa9ac3d46c4ed2826446079faa0914c2d705d98b02a2b5129cd1de164eb9cbd083e8a2503c4e")
chk("chacha block", chacha20_block(key0_1f, 1, H("000000090000004a00000000")), blk)
# RFC 8439 2.4.2
pt = b"Ladies and Gentlemen of the class of '99: If I could offer you only one tip for the future, sunscreen would be it."
ct = H("6e2e359a2568f98041ba0728dd0d6981e97e7aec1d4360c20a27afccfd9fae0bf91b65c5524733ab8f593dabcd62b3571639d624e65152ab8f530c359f0861d807ca0dbf500d6a6156a38e088a22b65e52bc514d16ccf806818ce91ab77937365af90bbf74a35be6b40b8eedf2785e42874d")
chk("chacha enc", chacha20_xor(key0_1f, H("000000000000004a00000000"), 1, pt), ct)
# xchacha draft 2.2.1
hc = H("82413b4227b27bfed30e42508a877d73a0f9e4d58a74a853c12ec41326d3ecdc")
chk("hchacha", hchacha20(key0_1f, H("000000090000004a0000000031415927")), hc)
# NaCl
shared = H("4a5d9d5ba4ce2de1728e3bf480350f25e07e21c947d19e3376f09b3c1e161742")
firstkey = H("1b27556473e985d462cd51197a9a46c76009549eac6474f206c4ee0844f68389")
secondkey = H("dc908dda0b9344a953629b733820778880f3ceb421bb61b91cbd4c3e66256ce4")
nonce = H("69696ee955b62b73cd62bda875fc73d68219e0036b7a0b37")
chk("hsalsa first", hsalsa20(shared, bytes(16)), firstkey)
chk("hsalsa second", hsalsa20(firstkey, nonce[:16]), secondkey)
m = H("be075fc53c81f2d5cf141316ebeb0c7b5228c52a4c62cbd44b66849b64244ffce5ecbaaf33bd751a1ac728d45e6c61296cdc3c01233561f41db66cce314adb310e3be8250c46f06dceea3a7fa1348057e2f6556ad6b1318a024a838f21af1fde048977eb48f59ffd4924ca1c60902e52f0a089bc76897040e082f937763848645e0705")
c = H("f3ffc7703f9400e52a7dfb4b3d3305d98e993b9f48681273c29650ba32fc76ce48332ea7164d96a4476fb8c531a1186ac0dfc17c98dce87b4da7f011ec48c97271d2c20f9b928fe2270d6fb863d51738b48eeee314a7cc8ab932164548e526ae90224368517acfeabd6bb3732bc0e9da99832b61ca01b6de56244a9e88d5f9b37973f622a43d14a6599b1f654cb45a74e355a5")
assert len(m) == 131
chk("secretbox", secretbox_seal(firstkey, nonce, m), c)
# third HSalsa20 vector from the NaCl paper section 9 is the Salsa20 stream check; we use the
# XSalsa20 keystream = c[16:] xor m and salsa20 block 0 of secondkey
ks0 = salsa20_block(secondkey, nonce[16:], bytes(8))

# Poly1305
k252 = H("85d6be7857556d337f4452fe42d506a80103808afb0db2fd4abff6af4149f51b")
chk("poly 2.5.2", poly1305(k252, b"Cryptographic Forum Research Group"), H("a8061dc1305136c6c22b8baf0c0127a9"))
ietf = b'Any submission to the IETF intended by the Contributor for publication as all or part of an IETF Internet-Draft or RFC and any statement made within the context of an IETF activity is considered an "IETF Contribution". Such statements include oral statements in IETF sessions, as well as written and electronic communications made at any time or place, which are addressed to'
jab = b"'Twas brillig, and the slithy toves\nDid gyre and gimble in the wabe:\nAll mimsy were the borogoves,\nAnd the mome raths outgrabe."
sx = H("36e5f6b5c5e06070f0efca96227a863e")
z16 = bytes(16); ff16 = b"\xff" * 16
def le16(b0): return bytes([b0]) + bytes(15)
R10 = H("01000000000000000400000000000000")
A3 = [
 (1, bytes(32), bytes(64), z16),
 (2, z16 + sx, ietf, sx),
 (3, sx + z16, ietf, H("f3477e7cd95417af89a6b8794c310cf0")),
 (4, H("1c9240a5eb55d38af333888604f6b5f0473917c1402b80099dca5cbc207075c0"), jab, H("4541669a7eaaee61e708dc7cbcc5eb62")),
 (5, le16(2) + z16, ff16, le16(3)),
 (6, le16(2) + ff16, le16(2), le16(3)),
 (7, le16(1) + z16, ff16 + b"\xf0" + b"\xff" * 15 + le16(0x11), le16(5)),
 (8, le16(1) + z16, ff16 + b"\xfb" + b"\xfe" * 15 + b"\x01" * 16, z16),
 (9, le16(2) + z16, b"\xfd" + b"\xff" * 15, b"\xfa" + b"\xff" * 15),
 (10, R10 + z16, H("e33594d7505e43b90000000000000000") + H("3394d7505e4379cd0100000000000000") + z16 + le16(1), H("14000000000000005500000000000000")),
 (11, R10 + z16, H("e33594d7505e43b90000000000000000") + H("3394d7505e4379cd0100000000000000") + z16, H("13000000000000000000000000000000")),
]
for n, k, msg, tag in A3:
    chk("poly A.3 #%d" % n, poly1305(k, msg), tag)

# X25519
XV = [
 ("rfc1", "a546e36bf0527c9d3b16154b82465edd62144c0ac1fc5a18506a2244ba449ac4", "e6db6867583030db3594c1a424b15f7c726624ec26b3353b10a903a6d0ab1c4c", "c3da55379de9c6908e94ea4df28d084f32eccf03491c71f754b4075577a28552"),
 ("rfc2", "4b66e9d4d1b4673c5ad22691957d6af5c11b6421e0ea01d42ca4169e7918ba0d", "e5210f12786811d3f4b7959d0538ae2c31dbe7106fc03c3efc4cd549c715a493", "95cbde9476e8907d7aade45cb4b873f88b595a68799fa152e6f8f7647aac7957"),
 ("iter1", "09" + "00" * 31, "09" + "00" * 31, "422c8e7a6227d7bca1350b3e2bb7279f7897b87bb6854b783c60e80311ae3079"),
 ("alicepub", "77076d0a7318a57d3c16c17251b26645df4c2f87ebc0992ab177fba51db92c2a", "09" + "00" * 31, "8520f0098930a754748b7ddcb43ef75a0dbf3a0d26381af4eba4a98eaa9b4e6a"),
 ("bobpub", "5dab087e624a8a4b79e17f8b83800ee66f3bb1292618b6fd1c2f8b27ff88e0eb", "09" + "00" * 31, "de9edb7d7b7dc1b4d35b61c2ece435373f8343c85b78674dadfc7e146f882b4f"),
 ("shared_a", "77076d0a7318a57d3c16c17251b26645df4c2f87ebc0992ab177fba51db92c2a", "de9edb7d7b7dc1b4d35b61c2ece435373f8343c85b78674dadfc7e146f882b4f", "4a5d9d5ba4ce2de1728e3bf480350f25e07e21c947d19e3376f09b3c1e161742"),
 ("shared_b", "5dab087e624a8a4b79e17f8b83800ee66f3bb1292618b6fd1c2f8b27ff88e0eb", "8520f0098930a754748b7ddcb43ef75a0dbf3a0d26381af4eba4a98eaa9b4e6a", "4a5d9d5ba4ce2de1728e3bf480350f25e07e21c947d19e3376f09b3c1e161742"),
]
for n, k, u, o in XV:
    chk("x25519 " + n, x25519(H(k), H(u)), H(o))
print("matched:", len(ok), ok)

if __name__ == "__main__" and len(sys.argv) > 1:
    what = sys.argv[1]
    if what == "salsa":
        print("Shared ==", tla(shared)); print("FirstKey ==", tla(firstkey)); print("SecondKey ==", tla(secondkey))
        print("Nonce ==", tla(nonce)); print("Msg ==", tla(m)); print("Boxed ==", tla(c)); print("Ks0 ==", tla(ks0))
    if what == "chacha":
        print("Blk ==", tla(blk)); print("Pt ==", tla(pt)); print("Ct ==", tla(ct)); print("HC ==", tla(hc))
        c16 = bytes(range(100, 116))
        print("HCC ==", tla(hchacha20(key0_1f, H("000000090000004a0000000031415927"), c16)))
        print("HSC ==", tla(hsalsa20(firstkey, nonce[:16], c16)))
    if what == "poly":
        for n, k, msg, tag in A3:
            print("K%d == %s\nM%d == %s\nT%d == %s" % (n, tla(k), n, tla(msg), n, tla(tag)))
    if what == "x":
        p = P
        s07 = bytes([7] * 32)
        extra = [("u0", s07, (0).to_bytes(32, "little")), ("u1", s07, (1).to_bytes(32, "little")),
                 ("upm1", s07, (p - 1).to_bytes(32, "little")), ("up", s07, p.to_bytes(32, "little")),
                 ("uall", s07, b"\xff" * 32), ("utwist2", s07, (2).to_bytes(32, "little")),
                 ("upp1", s07, (p + 1).to_bytes(32, "little")),
                 ("u9hi", s07, (9 + (1 << 255)).to_bytes(32, "little"))]
        for n, k, u, o in XV:
            print("K_%s == %s\nU_%s == %s\nO_%s == %s" % (n, tla(H(k)), n, tla(H(u)), n, tla(H(o))))
        for n, k, u in extra:
            print("K_%s == %s\nU_%s == %s\nO_%s == %s" % (n, tla(k), n, tla(u), n, tla(x25519(k, u))))
