#!/usr/bin/env python3
# From-scratch python references for the ref32 TLA+ modules (ChaCha20/HChaCha20, Salsa20/HSalsa20/
# XSalsa20/secretbox, Poly1305, X25519).  `python3 ref.py` cross-checks every primitive against the
# system libsodium (libsodium.so.23, via ctypes) on 50 random inputs.
# `python3 vectors.py` checks the published vectors (typed from memory) against these references.
# `python3 gen_chacha.py|gen_salsa.py|gen_poly.py|gen_x.py` regenerate ../MCRef*.tla/.cfg.
# `python3 check_corners.py <tlc output>` re-derives the classes of every CORNER line printed by
# MCRefPoly1305Corners with python big integers.
import ctypes, os, struct, sys

M32 = 0xffffffff
def rotl(x, r): return ((x << r) & M32) | (x >> (32 - r))

# ---------- ChaCha ----------
def qr(s, a, b, c, d):
    s[a] = (s[a] + s[b]) & M32; s[d] = rotl(s[d] ^ s[a], 16)
    s[c] = (s[c] + s[d]) & M32; s[b] = rotl(s[b] ^ s[c], 12)
    s[a] = (s[a] + s[b]) & M32; s[d] = rotl(s[d] ^ s[a], 8)
    s[c] = (s[c] + s[d]) & M32; s[b] = rotl(s[b] ^ s[c], 7)

def chacha_perm(s):
    s = list(s)
    for _ in range(10):
        qr(s, 0, 4, 8, 12); qr(s, 1, 5, 9, 13); qr(s, 2, 6, 10, 14); qr(s, 3, 7, 11, 15)
        qr(s, 0, 5, 10, 15); qr(s, 1, 6, 11, 12); qr(s, 2, 7, 8, 13); qr(s, 3, 4, 9, 14)
    return s

SIGMA = b"expand 32-byte k"
def chacha20_block(key, counter, nonce):
    st = list(struct.unpack("<4I", SIGMA)) + list(struct.unpack("<8I", key)) + [counter & M32] + list(struct.unpack("<3I", nonce))
    w = chacha_perm(st)
    return struct.pack("<16I", *[(a + b) & M32 for a, b in zip(w, st)])

def chacha20_xor(key, nonce, ic, data):
    out = bytearray()
    for i in range(0, len(data), 64):
        ks = chacha20_block(key, ic + i // 64, nonce)
        out += bytes(a ^ b for a, b in zip(data[i:i + 64], ks))
    return bytes(out)

def hchacha20(key, inp, const=SIGMA):
    st = list(struct.unpack("<4I", const)) + list(struct.unpack("<8I", key)) + list(struct.unpack("<4I", inp))
    w = chacha_perm(st)
    return struct.pack("<8I", *(w[0:4] + w[12:16]))

# ---------- Salsa ----------
def salsa_perm(x):
    x = list(x)
    def q(a, b, c, d):
        x[b] ^= rotl((x[a] + x[d]) & M32, 7)
        x[c] ^= rotl((x[b] + x[a]) & M32, 9)
        x[d] ^= rotl((x[c] + x[b]) & M32, 13)
        x[a] ^= rotl((x[d] + x[c]) & M32, 18)
    for _ in range(10):
        q(0, 4, 8, 12); q(5, 9, 13, 1); q(10, 14, 2, 6); q(15, 3, 7, 11)
        q(0, 1, 2, 3); q(5, 6, 7, 4); q(10, 11, 8, 9); q(15, 12, 13, 14)
    return x

def salsa_state(key, in16, const=SIGMA):
    c = struct.unpack("<4I", const); k = struct.unpack("<8I", key); n = struct.unpack("<4I", in16)
    return [c[0], k[0], k[1], k[2], k[3], c[1], n[0], n[1], n[2], n[3], c[2], k[4], k[5], k[6], k[7], c[3]]

def salsa20_block(key, nonce8, ctr8):
    st = salsa_state(key, nonce8 + ctr8)
    w = salsa_perm(st)
    return struct.pack("<16I", *[(a + b) & M32 for a, b in zip(w, st)])

def hsalsa20(key, in16, const=SIGMA):
    w = salsa_perm(salsa_state(key, in16, const))
    return struct.pack("<8I", w[0], w[5], w[10], w[15], w[6], w[7], w[8], w[9])

def xsalsa20_stream(key, nonce24, n, skip=0):
    sub = hsalsa20(key, nonce24[:16])
    out = bytearray(); ctr = 0
    while len(out) < n + skip:
        out += salsa20_block(sub, nonce24[16:], struct.pack("<Q", ctr)); ctr += 1
    return bytes(out[skip:skip + n])

def xsalsa20_xor(key, nonce24, data):
    ks = xsalsa20_stream(key, nonce24, len(data))
    return bytes(a ^ b for a, b in zip(data, ks))

# ---------- Poly1305 ----------
P1305 = (1 << 130) - 5
def poly1305_acc(key, msg):
    r = int.from_bytes(key[:16], "little") & 0x0ffffffc0ffffffc0ffffffc0fffffff
    h = 0
    for i in range(0, len(msg), 16):
        h = ((h + int.from_bytes(msg[i:i + 16] + b"\x01", "little")) * r) % P1305
    return h
def poly1305(key, msg):
    s = int.from_bytes(key[16:32], "little")
    return ((poly1305_acc(key, msg) + s) & ((1 << 128) - 1)).to_bytes(16, "little")

def secretbox_seal(key, nonce24, msg):
    ks = xsalsa20_stream(key, nonce24, 32 + len(msg))
    c = bytes(a ^ b for a, b in zip(msg, ks[32:]))
    return poly1305(ks[:32], c) + c

# ---------- X25519 (RFC 7748 section 5 transcription) ----------
P = (1 << 255) - 19
def x25519(kb, ub):
    k = bytearray(kb); k[0] &= 248; k[31] &= 127; k[31] |= 64
    k = int.from_bytes(k, "little")
    u = bytearray(ub); u[31] &= 127
    x1 = int.from_bytes(u, "little") % P
    x2, z2, x3, z3, swap = 1, 0, x1, 1, 0
    for t in range(254, -1, -1):
        kt = (k >> t) & 1
        swap ^= kt
        if swap: x2, x3, z2, z3 = x3, x2, z3, z2
        swap = kt
        A = (x2 + z2) % P; AA = A * A % P; B = (x2 - z2) % P; BB = B * B % P
        E = (AA - BB) % P; C = (x3 + z3) % P; D = (x3 - z3) % P
        DA = D * A % P; CB = C * B % P
        x3 = (DA + CB) ** 2 % P; z3 = x1 * (DA - CB) ** 2 % P
        x2 = AA * BB % P; z2 = E * (AA + 121665 * E) % P
    if swap: x2, x3, z2, z3 = x3, x2, z3, z2
    return (x2 * pow(z2, P - 2, P) % P).to_bytes(32, "little")

def tla(bs): return "<<" + ",".join(str(b) for b in bs) + ">>"
H = bytes.fromhex

# ---------- libsodium cross-check ----------
def crosscheck():
    so = ctypes.CDLL("libsodium.so.23"); so.sodium_init()
    ULL = ctypes.c_ulonglong
    def buf(n): return ctypes.create_string_buffer(n)
    rnd = lambda n: os.urandom(n)
    for it in range(50):
        key = rnd(32); n12 = rnd(12); n8 = rnd(8); n24 = rnd(24); in16 = rnd(16); c16 = rnd(16)
        m = rnd(it * 7 + (it % 3))
        ic = int.from_bytes(rnd(2), "little")
        o = buf(len(m) or 1)
        so.crypto_stream_chacha20_ietf_xor_ic(o, m, ULL(len(m)), n12, ctypes.c_uint32(ic), key)
        assert o.raw[:len(m)] == chacha20_xor(key, n12, ic, m), "chacha xor"
        o = buf(32); so.crypto_core_hchacha20(o, in16, key, None); assert o.raw == hchacha20(key, in16)
        o = buf(32); so.crypto_core_hchacha20(o, in16, key, c16); assert o.raw == hchacha20(key, in16, c16)
        o = buf(32); so.crypto_core_hsalsa20(o, in16, key, None); assert o.raw == hsalsa20(key, in16)
        o = buf(32); so.crypto_core_hsalsa20(o, in16, key, c16); assert o.raw == hsalsa20(key, in16, c16)
        o = buf(64); so.crypto_core_salsa20(o, in16, key, None)
        assert o.raw == salsa20_block(key, in16[:8], in16[8:]), "salsa core"
        o = buf(len(m) or 1); so.crypto_stream_xsalsa20_xor(o, m, ULL(len(m)), n24, key)
        assert o.raw[:len(m)] == xsalsa20_xor(key, n24, m), "xsalsa"
        o = buf(16 + len(m)); so.crypto_secretbox_easy(o, m, ULL(len(m)), n24, key)
        assert o.raw == secretbox_seal(key, n24, m), "secretbox"
        o = buf(16); so.crypto_onetimeauth_poly1305(o, m, ULL(len(m)), key); assert o.raw == poly1305(key, m), "poly"
        sc = rnd(32); pt = rnd(32)
        o = buf(32); rc = so.crypto_scalarmult_curve25519(o, sc, pt)
        assert o.raw == x25519(sc, pt), "x25519"
    print("libsodium cross-check OK")

if __name__ == "__main__":
    crosscheck()
