------------------------------ MODULE Salsa ------------------------------
(* Salsa20/20 (Bernstein, "Salsa20 specification"), HSalsa20 and XSalsa20   *)
(* ("Extending the Salsa20 nonce"), and NaCl crypto_secretbox               *)
(* xsalsa20poly1305 ("Cryptography in NaCl", sections 8-10).                *)
(* State: sequence of 16 Words32 words, index 1..16 = spec words 0..15.     *)
EXTENDS Naturals, Sequences, Words32, Poly1305
LOCAL INSTANCE SequencesExt

\* "expand 32-byte k"
SalsaSigma == <<101, 120, 112, 97, 110, 100, 32, 51, 50, 45, 98, 121, 116, 101, 32, 107>>

\* quarterround(y0, y1, y2, y3) = <<z0, z1, z2, z3>>
SalsaQR(y0, y1, y2, y3) ==
    LET z1 == W32Xor(y1, W32Rotl(W32Add(y0, y3), 7))
        z2 == W32Xor(y2, W32Rotl(W32Add(z1, y0), 9))
        z3 == W32Xor(y3, W32Rotl(W32Add(z2, z1), 13))
        z0 == W32Xor(y0, W32Rotl(W32Add(z3, z2), 18))
    IN <<z0, z1, z2, z3>>

\* doubleround = rowround(columnround(x))
SalsaDoubleRound(x) ==
    LET \* columnround
        c0 == SalsaQR(x[1],  x[5],  x[9],  x[13])     \* (y0,  y4,  y8,  y12)
        c1 == SalsaQR(x[6],  x[10], x[14], x[2])      \* (y5,  y9,  y13, y1)
        c2 == SalsaQR(x[11], x[15], x[3],  x[7])      \* (y10, y14, y2,  y6)
        c3 == SalsaQR(x[16], x[4],  x[8],  x[12])     \* (y15, y3,  y7,  y11)
        y  == <<c0[1], c1[4], c2[3], c3[2],
                c0[2], c1[1], c2[4], c3[3],
                c0[3], c1[2], c2[1], c3[4],
                c0[4], c1[3], c2[2], c3[1]>>
        \* rowround
        r0 == SalsaQR(y[1],  y[2],  y[3],  y[4])      \* (z0,  z1,  z2,  z3)
        r1 == SalsaQR(y[6],  y[7],  y[8],  y[5])      \* (z5,  z6,  z7,  z4)
        r2 == SalsaQR(y[11], y[12], y[9],  y[10])     \* (z10, z11, z8,  z9)
        r3 == SalsaQR(y[16], y[13], y[14], y[15])     \* (z15, z12, z13, z14)
    IN <<r0[1], r0[2], r0[3], r0[4],
         r1[4], r1[1], r1[2], r1[3],
         r2[3], r2[4], r2[1], r2[2],
         r3[2], r3[3], r3[4], r3[1]>>

\* the 20-round permutation (10 double rounds), no feed-forward
Salsa20Perm(x) == FoldLeft(LAMBDA acc, i : SalsaDoubleRound(acc), x, <<1, 2, 3, 4, 5, 6, 7, 8, 9, 10>>)

\* Salsa20 expansion with a 32-byte key:  c0 k0 k1 k2 k3 c1 n0 n1 n2 n3 c2 k4 k5 k6 k7 c3
SalsaInit(key32, in16, const16) ==
    LET c == W32SeqFromBytesLE(const16)
        k == W32SeqFromBytesLE(key32)
        n == W32SeqFromBytesLE(in16)
    IN <<c[1], k[1], k[2], k[3], k[4], c[2], n[1], n[2], n[3], n[4], c[3], k[5], k[6], k[7], k[8], c[4]>>

\* Salsa20 hash/core with feed-forward (libsodium crypto_core_salsa20): 64 bytes
Salsa20CoreC(key32, in16, const16) ==
    LET init == SalsaInit(key32, in16, const16)
        z    == Salsa20Perm(init)
    IN W32SeqToBytesLE(Strict([i \in 1..16 |-> W32Add(z[i], init[i])]))

\* keystream block: in16 = 8-byte nonce followed by the 8-byte little-endian block counter
Salsa20Block(key32, nonce8, counterLE8) == Salsa20CoreC(key32, nonce8 \o counterLE8, SalsaSigma)

\* HSalsa20: words 0, 5, 10, 15, 6, 7, 8, 9 of the permuted state, no feed-forward
HSalsa20C(key32, in16, const16) ==
    LET z == Salsa20Perm(SalsaInit(key32, in16, const16))
    IN W32SeqToBytesLE(<<z[1], z[6], z[11], z[16], z[7], z[8], z[9], z[10]>>)

HSalsa20(key32, in16) == HSalsa20C(key32, in16, SalsaSigma)

\* 8-byte little-endian encoding of a block counter j < 2^31
SalsaCounterLE8(j) == <<j % 256, (j \div 256) % 256, (j \div 65536) % 256, j \div 16777216, 0, 0, 0, 0>>

\* first n bytes of the Salsa20 keystream starting at block counter ic
Salsa20Stream(key32, nonce8, ic, n) ==
    LET nb == (n + 63) \div 64
        ks == Strict([j \in 1..nb |-> Salsa20Block(key32, nonce8, SalsaCounterLE8(ic + j - 1))])
    IN Strict([i \in 1..n |-> ks[((i - 1) \div 64) + 1][((i - 1) % 64) + 1]])

Salsa20Xor(key32, nonce8, ic, bytes) == BytesXor(bytes, Salsa20Stream(key32, nonce8, ic, Len(bytes)))

\* XSalsa20: subkey = HSalsa20(key, nonce[0..16]); Salsa20 with nonce[16..24], counter from 0
XSalsa20Stream(key32, nonce24, n) ==
    Salsa20Stream(HSalsa20(key32, SubSeq(nonce24, 1, 16)), SubSeq(nonce24, 17, 24), 0, n)

XSalsa20Xor(key32, nonce24, bytes) == BytesXor(bytes, XSalsa20Stream(key32, nonce24, Len(bytes)))

\* crypto_secretbox_xsalsa20poly1305 (libsodium crypto_secretbox_easy layout): tag || ciphertext.
\* Poly1305 key = keystream bytes 0..31; message encrypted with keystream from byte 32 on.
SecretboxSeal(key32, nonce24, msg) ==
    LET ks == XSalsa20Stream(key32, nonce24, 32 + Len(msg))
        c  == BytesXor(msg, SubSeq(ks, 33, 32 + Len(msg)))
    IN Poly1305(SubSeq(ks, 1, 32), c) \o c

\* <<TRUE, msg>> if the tag verifies, <<FALSE, <<>> >> otherwise (also when shorter than a tag)
SecretboxOpen(key32, nonce24, boxed) ==
    IF Len(boxed) < 16 THEN <<FALSE, <<>> >>
    ELSE LET n  == Len(boxed) - 16
             c  == SubSeq(boxed, 17, Len(boxed))
             ks == XSalsa20Stream(key32, nonce24, 32 + n)
         IN IF Poly1305(SubSeq(ks, 1, 32), c) = SubSeq(boxed, 1, 16)
            THEN <<TRUE, BytesXor(c, SubSeq(ks, 33, 32 + n))>>
            ELSE <<FALSE, <<>> >>
==========================================================================
