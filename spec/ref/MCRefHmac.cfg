SPECIFICATION Spec
