--------------------------------- MODULE Kdf ---------------------------------
(***************************************************************************)
(* libsodium crypto_kdf_derive_from_key (crypto_kdf_blake2b):              *)
(*                                                                         *)
(*   subkey = BLAKE2b( msg = empty, key = master key (32 bytes),           *)
(*                     outlen = subkeyLen,                                 *)
(*                     salt = LE64(subkey_id) || 00 x 8,                   *)
(*                     personal = ctx (8 bytes) || 00 x 8 )                *)
(*                                                                         *)
(*   KdfDerive(subkeyLen, subkeyIdBytesLE8, ctx8, masterKey32)             *)
(*     subkeyLen         16..64                                            *)
(*     subkeyIdBytesLE8  the 64-bit subkey id as 8 little-endian bytes     *)
(*                       (TLC integers are only 32 bits wide)              *)
(*     ctx8              8 bytes                                           *)
(*     masterKey32       32 bytes                                          *)
(***************************************************************************)
EXTENDS Naturals, Sequences, Blake2b

KdfZeros8 == <<0, 0, 0, 0, 0, 0, 0, 0>>

KdfDerive(subkeyLen, subkeyIdBytesLE8, ctx8, masterKey32) ==
  Blake2b(<<>>, masterKey32, subkeyLen, subkeyIdBytesLE8 \o KdfZeros8, ctx8 \o KdfZeros8)

\* Convenience for ids that fit a TLC integer (id < 2^31).
KdfIdBytes(id) ==
  << id % 256, (id \div 256) % 256, (id \div 65536) % 256, (id \div 16777216) % 256, 0, 0, 0, 0 >>

=============================================================================
