-------------------------- MODULE MCRefSalsa --------------------------
(* Vectors for Salsa.tla.  Published: "Cryptography in NaCl" sections 8-10 (firstkey,  *)
(* secondkey, secretbox).  The literals were typed from memory and then confirmed by a  *)
(* from-scratch python reference that was cross-checked against libsodium 1.0.18        *)
(* (crypto_core_hsalsa20, crypto_core_salsa20, crypto_stream_xsalsa20_xor,              *)
(* crypto_secretbox_easy) on 50 random inputs.  "computed" = from that python.         *)
EXTENDS Salsa, TLC
Shared == <<74,93,157,91,164,206,45,225,114,142,59,244,128,53,15,37,224,126,33,201,71,209,158,51,118,240,155,60,30,22,23,66>>
FirstKey == <<27,39,85,100,115,233,133,212,98,205,81,25,122,154,70,199,96,9,84,158,172,100,116,242,6,196,238,8,68,246,131,137>>
SecondKey == <<220,144,141,218,11,147,68,169,83,98,155,115,56,32,119,136,128,243,206,180,33,187,97,185,28,189,76,62,102,37,108,228>>
Nonce == <<105,105,110,233,85,182,43,115,205,98,189,168,117,252,115,214,130,25,224,3,107,122,11,55>>
Msg == <<190,7,95,197,60,129,242,213,207,20,19,22,235,235,12,123,82,40,197,42,76,98,203,212,75,102,132,155,100,36,79,252,229,236,186,175,51,189,117,26,26,199,40,212,94,108,97,41,108,220,60,1,35,53,97,244,29,182,108,206,49,74,219,49,14,59,232,37,12,70,240,109,206,234,58,127,161,52,128,87,226,246,85,106,214,177,49,138,2,74,131,143,33,175,31,222,4,137,119,235,72,245,159,253,73,36,202,28,96,144,46,82,240,160,137,188,118,137,112,64,224,130,249,55,118,56,72,100,94,7,5>>
Boxed == <<243,255,199,112,63,148,0,229,42,125,251,75,61,51,5,217,142,153,59,159,72,104,18,115,194,150,80,186,50,252,118,206,72,51,46,167,22,77,150,164,71,111,184,197,49,161,24,106,192,223,193,124,152,220,232,123,77,167,240,17,236,72,201,114,113,210,194,15,155,146,143,226,39,13,111,184,99,213,23,56,180,142,238,227,20,167,204,138,185,50,22,69,72,229,38,174,144,34,67,104,81,122,207,234,189,107,179,115,43,192,233,218,153,131,43,97,202,1,182,222,86,36,74,158,136,213,249,179,121,115,246,34,164,61,20,166,89,155,31,101,76,180,90,116,227,85,165>>
Const2 == [i \in 1..16 |-> 99 + i]
Zero16 == [i \in 1..16 |-> 0]
NTests == 15
Test(k) ==
  CASE k = 1 -> HSalsa20(Shared, Zero16) = FirstKey   \* NaCl paper sec.8: firstkey = HSalsa20(shared, 0)
    [] k = 2 -> HSalsa20(FirstKey, SubSeq(Nonce, 1, 16)) = SecondKey   \* NaCl paper sec.8: secondkey = HSalsa20(firstkey, nonceprefix)
    [] k = 3 -> HSalsa20C(FirstKey, SubSeq(Nonce, 1, 16), SalsaSigma) = SecondKey   \* HSalsa20C with sigma = HSalsa20
    [] k = 4 -> HSalsa20C(FirstKey, SubSeq(Nonce, 1, 16), Const2) = <<210,186,18,65,217,157,10,18,137,112,95,117,141,4,29,115,166,64,38,203,21,109,48,25,197,73,65,42,85,23,140,7>>   \* computed: HSalsa20 with explicit constant
    [] k = 5 -> Salsa20Block(SecondKey, SubSeq(Nonce, 17, 24), [i \in 1..8 |-> 0]) = <<238,166,167,37,28,30,114,145,109,17,194,203,33,77,60,37,37,57,18,29,142,35,78,101,45,101,31,164,200,207,248,128,48,158,100,90,116,233,224,166,13,130,67,172,217,23,122,181,26,27,235,141,90,47,93,112,12,9,60,94,85,133,87,150>>   \* computed: Salsa20 block 0 of secondkey (consistent with NaCl paper sec.9 stream)
    [] k = 6 -> Salsa20Block(SecondKey, SubSeq(Nonce, 17, 24), <<8,7,6,5,4,3,2,1>>) = <<106,208,236,71,227,81,107,24,77,205,205,155,33,92,115,251,116,240,98,137,130,130,23,217,81,116,255,223,59,142,57,2,194,117,167,29,240,192,251,83,104,76,235,34,84,214,9,64,213,206,193,237,204,63,220,140,213,31,244,43,103,162,202,115>>   \* computed: Salsa20 block with counter 0x0102030405060708
    [] k = 7 -> XSalsa20Stream(FirstKey, Nonce, 32 + 131) = <<238,166,167,37,28,30,114,145,109,17,194,203,33,77,60,37,37,57,18,29,142,35,78,101,45,101,31,164,200,207,248,128,48,158,100,90,116,233,224,166,13,130,67,172,217,23,122,181,26,27,235,141,90,47,93,112,12,9,60,94,85,133,87,150,37,51,123,211,171,97,157,97,87,96,216,197,178,36,168,91,29,14,254,14,184,167,238,22,58,187,3,118,82,159,204,9,186,181,6,198,24,225,60,231,119,216,44,58,233,209,166,249,114,212,22,2,135,203,254,96,191,33,48,252,10,111,246,4,157,10,92,138,130,244,41,35,31,0,128,130,232,69,215,225,137,211,127,158,210,180,100,230,185,25,230,82,58,140,18,16,189,82,160>>   \* NaCl secretbox vector: keystream from byte 32 = c xor m
    [] k = 8 -> XSalsa20Xor(FirstKey, Nonce, Msg) = <<80,161,248,224,32,159,128,68,162,5,209,221,202,166,48,94,119,17,215,55,194,65,133,177,102,3,155,63,172,235,183,124,213,114,222,245,71,84,149,188,23,69,107,120,135,123,27,156,118,199,215,140,121,26,60,132,17,191,80,144,100,207,140,167,43,8,147,246,167,39,109,12,153,138,226,186,19,16,40,12,255,248,171,100,110,22,223,156,56,241,128,249,115,48,211,215,190,60,113,45,80,20,163,26,62,252,230,38,137,65,136,171,130,116,159,190,241,66,142,32,95,163,201,203,124,87,190,96,195,13,89>>   \* XSalsa20Xor (computed, cross-checked vs libsodium crypto_stream_xsalsa20_xor)
    [] k = 9 -> SecretboxSeal(FirstKey, Nonce, Msg) = Boxed   \* classic NaCl secretbox test vector (tests/secretbox.c)
    [] k = 10 -> SubSeq(SecretboxSeal(FirstKey, Nonce, Msg), 1, 16) = <<243,255,199,112,63,148,0,229,42,125,251,75,61,51,5,217>>   \* tag prefix f3 ff c7 70 ...
    [] k = 11 -> SecretboxOpen(FirstKey, Nonce, Boxed) = <<TRUE, Msg>>   \* open
    [] k = 12 -> SecretboxOpen(FirstKey, Nonce, <<242>> \o Tail(Boxed)) = <<FALSE, <<>> >>   \* open rejects flipped tag bit
    [] k = 13 -> SecretboxOpen(FirstKey, Nonce, SubSeq(Boxed, 1, 146) \o <<Boxed[147] ^^ 1>>) = <<FALSE, <<>> >>   \* open rejects flipped ciphertext bit
    [] k = 14 -> SecretboxSeal(FirstKey, Nonce, <<>>) = <<37,57,18,29,142,35,78,101,45,101,31,164,200,207,248,128>>   \* empty message (computed)
    [] k = 15 -> Salsa20Xor(SecondKey, SubSeq(Nonce, 17, 24), 1, [i \in 1..70 |-> 0]) = <<37,51,123,211,171,97,157,97,87,96,216,197,178,36,168,91,29,14,254,14,184,167,238,22,58,187,3,118,82,159,204,9,186,181,6,198,24,225,60,231,119,216,44,58,233,209,166,249,114,212,22,2,135,203,254,96,191,33,48,252,10,111,246,4,157,10,92,138,130,244>>   \* Salsa20Xor initial counter (computed)

\* Each vector is checked by the invariant on a non-initial state, i.e. on a TLC worker
\* thread (workers honour -Xss from JAVA_TOOL_OPTIONS; the main thread that evaluates
\* ASSUMEs and constant definitions keeps its 1 MB default unless JDK_JAVA_OPTIONS is used).
\* A failing vector shows up as a violation of AllPass with tn = its number.
VARIABLE tn
Init == tn = 0
\* four interleaved chains 0 -> j -> j+4 -> j+8 ... so that 4 workers share the vectors
Lanes == 4
Next == \/ tn = 0 /\ tn' \in 1..(IF NTests < Lanes THEN NTests ELSE Lanes)
        \/ tn > 0 /\ tn + Lanes <= NTests /\ tn' = tn + Lanes
Spec == Init /\ [][Next]_tn
AllPass == tn > 0 => Test(tn)
========================================================================
