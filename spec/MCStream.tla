------------------------------ MODULE MCStream ------------------------------
EXTENDS Stream
\* accepted deliveries are exactly the in-order ones
AcceptOnlyNext == [][(pulled' # pulled) => (pulled'[Len(pulled')][1] = next /\ next' = next + 1)]_vars
=============================================================================
