SPECIFICATION TSpec
CONSTANTS
  Mode = "Eager"
  B = 16
  Key = 0
  Tmax = 100000000
INVARIANTS Refines Discipline SameCalls BufIsFunctionOfT
POSTCONDITION Accepted
CHECK_DEADLOCK FALSE
