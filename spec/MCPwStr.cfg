SPECIFICATION Spec
CONSTANTS
  Algs = {"argon2i", "argon2id"}
  TCosts = {1, 2, 3}
  MCosts = {8, 64, 600, 1024}
  SaltLens = {8, 15, 16, 17, 64}
  HashLens = {16, 31, 32, 33, 128}
CHECK_DEADLOCK FALSE
