SPECIFICATION Spec
CONSTANTS
  Mode = "Lazy"
  B = 128
  Key = 128
  Tmax = 400
INVARIANTS TypeOK Refines Discipline SameCalls PrefixCalls BufIsFunctionOfT
CHECK_DEADLOCK FALSE
