-------------------------------- MODULE Dryoc --------------------------------
(***************************************************************************)
(* System map and composition.  The specification of dryoc is the set of   *)
(* modules below; each models one component at the abstraction its         *)
(* properties need, and exports the table or behaviours its conformance    *)
(* check replays against the code:                                         *)
(*                                                                         *)
(*   Stream      secret stream state machine (push / pull / rekey)    C03  *)
(*   Aead        secretbox, box, afternm, sealed box on symbolic           *)
(*               positional bytes; faults; C01 C02 C17                     *)
(*   Untrusted   totality envelope of consuming entry points           C04 *)
(*   PwStr       password-hash string codec and grammar            C10 C04 *)
(*   IncHash     buffering of incremental hashers (+ IncHashInd)   C08 C18 *)
(*   Protected   type state x kernel pages x allocator x lock budget       *)
(*   TypeState   the type-state table                      C14 C15 C19 C20 *)
(*   Kx          Diffie-Hellman level: shared secrets, session keys,       *)
(*               seeded derivations                                C05 C13 *)
(*   Sign        Ed25519 strict-verification decision table            C06 *)
(*   SignAlgebra the group Z_L x Z_8 behind it: uniqueness of S, complete  *)
(*               classification of equation-satisfying forgeries       C06 *)
(*   Rng         freshness as a history property (trace spec)          C11 *)
(*   Codec       field/carrier/count grammar of encodings              C16 *)
(*   Matrix      build configurations x backends x containers          C18 *)
(*   Api         entry-point inventory: every public function, the         *)
(*               modules and properties that judge it (generated)          *)
(*   ref/*       executable transcriptions of the RFCs (RefEval)           *)
(*                                                          C07 C12 C05 C09 *)
(*                                                                         *)
(* This module checks that the term sorts of the modules compose: a key    *)
(* produced by the key exchange is a key of the stream and of the box, and *)
(* the two directions of a session are keyed independently.  The harness   *)
(* runs the same composition with dryoc on one side and libsodium on the   *)
(* other (`conform e2e`).                                                  *)
(***************************************************************************)
EXTENDS Naturals, Sequences, FiniteSets, TLC
VARIABLE x

(* ---- what the bindings vary besides input values ------------------------------------------------------------
   The modules above quantify over inputs and operation sequences.  Six rounds of seeded changes showed that a change to
   the code can also hide behind a dimension that is no input at all.  Each dimension the bindings vary is listed here with
   the place that carries it (a constant or variable of a module, or - where it is a property of the replaying process
   rather than of the library's state - a family of the harness) and the properties whose check varies it. *)
Props == {"C01", "C02", "C03", "C04", "C05", "C06", "C07", "C08", "C09", "C10",
          "C11", "C12", "C13", "C14", "C15", "C16", "C17", "C18", "C19", "C20"}
ProfileDim == [dim |-> "build profile (debug / optimised: debug_assert!, overflow checks)", carrier |-> "Matrix.tla Profile; harness configuration nightly-release", props |-> Props]
Dimensions == {
  ProfileDim,
  [dim |-> "features (default, serde+base64, nightly, nightly+simd_backend)",  carrier |-> "Matrix.tla Configs; harness configurations stable / nightly / simd", props |-> {"C01", "C02", "C03", "C04", "C05", "C07", "C09", "C10", "C11", "C12", "C13", "C16", "C17", "C18"}],
  [dim |-> "container of the bytes (array, StackByteArray, Vec, heap, locked, locked read-only)", carrier |-> "Matrix.tla Containers; Codec.tla Holders; Untrusted.tla family vecheld", props |-> {"C01", "C02", "C03", "C04", "C05", "C07", "C08", "C10", "C11", "C13", "C16", "C18"}],
  [dim |-> "size of the caller's output buffer (exact, longer, shorter, fixed)", carrier |-> "Aead.tla room; Untrusted.tla family fixed; Stream.tla presentation shortbuf", props |-> {"C01", "C02", "C03", "C04", "C17"}],
  [dim |-> "what an output buffer held before the call", carrier |-> "harness: pre-filled buffers", props |-> {"C01", "C03", "C06", "C07", "C09", "C12", "C13"}],
  [dim |-> "earlier calls on the same thread (caches, thread-locals, abandoned incremental states)", carrier |-> "harness: history-dependent call families, disturb()", props |-> {"C01", "C02", "C05", "C06", "C07", "C09", "C10", "C12"}],
  [dim |-> "the object after a failure (rejected open, rejected pull, refused lock)", carrier |-> "Stream.tla RejectIsStutter; Protected.tla RefusalIsError / OthersUntouched; harness retry families", props |-> {"C01", "C02", "C03", "C17", "C19"}],
  [dim |-> "fork()", carrier |-> "Rng.tla Fork; harness fork families (containers, allocator)", props |-> {"C11", "C15", "C18"}],
  [dim |-> "panic unwinding", carrier |-> "harness PROT_MODE=unwind", props |-> {"C15"}],
  [dim |-> "refused lock requests, failing OS random source, mlockall", carrier |-> "Protected.tla budget; Rng.tla FaultEntryPoints; harness interposer / seccomp", props |-> {"C11", "C14", "C15", "C19"}],
  [dim |-> "address alignment of the input", carrier |-> "harness: inputs at offsets 1..7 of an aligned buffer", props |-> {"C07"}],
  [dim |-> "allocation state of a Vec (spare capacity)", carrier |-> "harness: roomy Vecs", props |-> {"C01", "C16"}],
  [dim |-> "trait implementations as routes (Clone, Default, Serialize, Debug, PartialEq, AsRef/AsMut, TryFrom)", carrier |-> "TypeState.tla routes; Api.tla; harness route tables", props |-> {"C06", "C16", "C18", "C20"}],
  [dim |-> "the value of an error (its text)", carrier |-> "harness: error texts per entry point and length", props |-> {"C17"}] }
\* every property's check varies the build profile, and every dimension is carried by something
DimensionsSound == /\ ProfileDim.props = Props
                   /\ \A d \in Dimensions : d.props \subseteq Props /\ d.props # {} /\ d.carrier # ""
ASSUME DimensionsSound
K == INSTANCE Kx WITH x <- x

\* the root of a secret stream is (key, header): Stream.tla's `root`
Root(key, header) == <<"root", key, header>>

ClientSession == K!ClientKeys("c", K!Pub("c"), K!Pub("s"))
ServerSession == K!ServerKeys("s", K!Pub("s"), K!Pub("c"))

\* the client's push stream and the server's pull stream are the same stream, in both directions
StreamsMeet == /\ ClientSession.ok /\ ServerSession.ok
               /\ Root(ClientSession.tx, "h1") = Root(ServerSession.rx, "h1")
               /\ Root(ServerSession.tx, "h2") = Root(ClientSession.rx, "h2")
\* the two directions never share a key (a message cannot be reflected back to its sender)
DirectionsIndependent == ClientSession.tx # ClientSession.rx /\ Root(ClientSession.tx, "h") # Root(ClientSession.rx, "h")
\* the box key both parties precompute is one term
BoxKeysMeet == K!Beforenm(K!Pub("s"), "c") = K!Beforenm(K!Pub("c"), "s")
\* a third party with its own secret derives different keys
Eavesdropper == K!ClientKeys("e", K!Pub("e"), K!Pub("s")).tx # ClientSession.tx

ASSUME StreamsMeet /\ DirectionsIndependent /\ BoxKeysMeet /\ Eavesdropper

Init == x = 0
Next == x' = x
Spec == Init /\ [][Next]_x
=============================================================================
