-------------------------------- MODULE Dryoc --------------------------------
(***************************************************************************)
(* System map and composition.  The specification of dryoc is the set of   *)
(* modules below; each models one component at the abstraction its         *)
(* properties need, and exports the table or behaviours its conformance    *)
(* check replays against the code:                                         *)
(*                                                                         *)
(*   Stream      secret stream state machine (push / pull / rekey)    C03  *)
(*   Aead        secretbox, box, afternm, sealed box on symbolic           *)
(*               positional bytes; faults; C01 C02 C17                     *)
(*   Untrusted   totality envelope of consuming entry points           C04 *)
(*   PwStr       password-hash string codec and grammar            C10 C04 *)
(*   IncHash     buffering of incremental hashers (+ IncHashInd)   C08 C18 *)
(*   Protected   type state x kernel pages x allocator x lock budget       *)
(*   TypeState   the type-state table                      C14 C15 C19 C20 *)
(*   Kx          Diffie-Hellman level: shared secrets, session keys,       *)
(*               seeded derivations                                C05 C13 *)
(*   Sign        Ed25519 strict-verification decision table            C06 *)
(*   SignAlgebra the group Z_L x Z_8 behind it: uniqueness of S, complete  *)
(*               classification of equation-satisfying forgeries       C06 *)
(*   Rng         freshness as a history property (trace spec)          C11 *)
(*   Codec       field/carrier/count grammar of encodings              C16 *)
(*   Matrix      build configurations x backends x containers          C18 *)
(*   Api         entry-point inventory: every public function, the         *)
(*               modules and properties that judge it (generated)          *)
(*   ref/*       executable transcriptions of the RFCs (RefEval)           *)
(*                                                          C07 C12 C05 C09 *)
(*                                                                         *)
(* This module checks that the term sorts of the modules compose: a key    *)
(* produced by the key exchange is a key of the stream and of the box, and *)
(* the two directions of a session are keyed independently.  The harness   *)
(* runs the same composition with dryoc on one side and libsodium on the   *)
(* other (`conform e2e`).                                                  *)
(***************************************************************************)
EXTENDS Naturals, Sequences, FiniteSets, TLC
VARIABLE x
K == INSTANCE Kx WITH x <- x

\* the root of a secret stream is (key, header): Stream.tla's `root`
Root(key, header) == <<"root", key, header>>

ClientSession == K!ClientKeys("c", K!Pub("c"), K!Pub("s"))
ServerSession == K!ServerKeys("s", K!Pub("s"), K!Pub("c"))

\* the client's push stream and the server's pull stream are the same stream, in both directions
StreamsMeet == /\ ClientSession.ok /\ ServerSession.ok
               /\ Root(ClientSession.tx, "h1") = Root(ServerSession.rx, "h1")
               /\ Root(ServerSession.tx, "h2") = Root(ClientSession.rx, "h2")
\* the two directions never share a key (a message cannot be reflected back to its sender)
DirectionsIndependent == ClientSession.tx # ClientSession.rx /\ Root(ClientSession.tx, "h") # Root(ClientSession.rx, "h")
\* the box key both parties precompute is one term
BoxKeysMeet == K!Beforenm(K!Pub("s"), "c") = K!Beforenm(K!Pub("c"), "s")
\* a third party with its own secret derives different keys
Eavesdropper == K!ClientKeys("e", K!Pub("e"), K!Pub("s")).tx # ClientSession.tx

ASSUME StreamsMeet /\ DirectionsIndependent /\ BoxKeysMeet /\ Eavesdropper

Init == x = 0
Next == x' = x
Spec == Init /\ [][Next]_x
=============================================================================
