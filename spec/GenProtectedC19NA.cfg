SPECIFICATION GSpec
CONSTANTS
  P = 4096
  Lens = {0, 1, 16, 32, 64, 4095, 4096, 4097, 8192, 8193}
  Handles = {1, 2}
  MaxAllocs = 4
  MaxOps = 5
  Budgets = {1, 99}
  Focus = "refuse_na"
INVARIANTS Emit
CHECK_DEADLOCK FALSE
