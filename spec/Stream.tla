------------------------------- MODULE Stream -------------------------------
(***************************************************************************)
(* crypto_secretstream_xchacha20poly1305 / DryocStream (property C03; the  *)
(* stream parts of C02, C04, C17, C20).                                    *)
(*                                                                         *)
(* Abstraction.  The real state is (k, nonce) with nonce = counter(4, LE)  *)
(* || inonce(8).  Symbolically, (k, inonce) is a function of the stream's  *)
(* root (key, header) and of the sequence of state-changing events since   *)
(* init: absorbing message id's MAC (inonce ^= mac) and rekeying           *)
(* ((k, inonce) := ChaCha20(k, nonce) keystream applied to (k, inonce)).   *)
(* That sequence is `hist`.  The 32-bit counter does not fit a TLC         *)
(* integer, and only its distance to 2^32 matters to the code, so it is    *)
(* the pair (base, off): the class it was last (re)set to and the number   *)
(* of messages since.  conc(One) = 1, conc(Mid) = 0x7ffffffe,              *)
(* conc(MaxM1) = 0xfffffffe, conc(Max) = 0xffffffff.                       *)
(*                                                                         *)
(* One action per public function; the automatic rekey is a sub-step of    *)
(* push/pull exactly where the code performs it (after the counter         *)
(* increment, iff the tag has the REKEY bit or the counter became zero).   *)
(***************************************************************************)
EXTENDS Naturals, Sequences, FiniteSets, TLC

CONSTANTS MaxPush,   \* bound on ciphertexts produced
          MaxWrong,  \* bound on wrong deliveries
          MaxRekey,  \* bound on explicit rekeys per side
          Bases,     \* counter classes the streams start from
          Tags,      \* tag bytes pushed
          Ads,       \* associated-data identities
          Muts       \* ways of presenting a ciphertext that is not authentic: "ad" (other associated data), "flip" (a bit changed),
                     \* "foreign" (another key or header), "shortbuf" (the genuine ciphertext, but the receiver's message buffer is
                     \* shorter than the message: the classic pull must refuse it and leave tag, buffer and state as they were)

VARIABLES push, pull,   \* [root, hist, base, off]
          wire,         \* ciphertexts produced, in order
          next,         \* index of the next ciphertext to deliver in order
          pulled,       \* accepted <<id, tag>> in order
          pushed,       \* produced <<id, tag>> in order
          outTag,       \* the caller's tag variable on the pull side
          res,          \* result of the last call
          wrongs, rkPush, rkPull

vars == <<push, pull, wire, next, pulled, pushed, outTag, res, wrongs, rkPush, rkPull>>

RK == <<"R", 0>>                              \* history entry of a rekey
RekeyBit(t) == (t \div 2) % 2 = 1            \* TAG_REKEY = 0x02; FINAL = 0x03

\* does counter (base, off) equal zero mod 2^32 ?
Wraps(b, o) == (b = "Max" /\ o = 1) \/ (b = "MaxM1" /\ o = 2)

RekeyState(st) == [st EXCEPT !.hist = Append(@, RK), !.base = "One", !.off = 0]

\* the state change common to an accepted pull and to a push of message `id`
Absorb(st, id, t) ==
  LET s1 == [st EXCEPT !.hist = Append(@, <<"M", id>>), !.off = @ + 1]
  IN IF RekeyBit(t) \/ Wraps(s1.base, s1.off) THEN RekeyState(s1) ELSE s1

Fresh(root, b) == [root |-> root, hist |-> <<>>, base |-> b, off |-> 0]

Init == \E b \in Bases :
          /\ push = Fresh("K", b) /\ pull = Fresh("K", b)
          /\ wire = <<>> /\ next = 1 /\ pulled = <<>> /\ pushed = <<>>
          /\ outTag = "unset" /\ res = "init" /\ wrongs = 0 /\ rkPush = 0 /\ rkPull = 0

(* ---- push side ---------------------------------------------------------- *)
Push(a, t) ==
  /\ Len(wire) < MaxPush
  /\ LET id == Len(wire) + 1
         c  == [id |-> id, bound |-> push, ad |-> a, tag |-> t]
     IN /\ wire' = Append(wire, c)
        /\ push' = Absorb(push, id, t)
        /\ pushed' = Append(pushed, <<id, t>>)
  /\ res' = "Ok"
  /\ UNCHANGED <<pull, next, pulled, outTag, wrongs, rkPush, rkPull>>

RekeyPush ==
  /\ rkPush < MaxRekey
  /\ push' = RekeyState(push) /\ rkPush' = rkPush + 1 /\ res' = "Ok"
  /\ UNCHANGED <<pull, wire, next, pulled, pushed, outTag, wrongs, rkPull>>

(* ---- pull side ---------------------------------------------------------- *)
\* A presented value is ciphertext i of the wire, possibly mutated, with an AD.
\* It authenticates iff it is unmodified, was bound to exactly the pull
\* stream's current (root, hist, counter) and the AD is the one pushed.
Authentic(i, mut) == mut = "none" /\ wire[i].bound = pull

Pull(i, mut) ==
  /\ i \in 1..Len(wire)
  /\ IF Authentic(i, mut)
     THEN /\ pull' = Absorb(pull, wire[i].id, wire[i].tag)
          /\ pulled' = Append(pulled, <<wire[i].id, wire[i].tag>>)
          /\ outTag' = wire[i].tag
          /\ next' = IF i = next THEN next + 1 ELSE next
          /\ res' = "Ok"
          /\ UNCHANGED wrongs
     ELSE /\ wrongs < MaxWrong
          /\ wrongs' = wrongs + 1
          /\ res' = "Err"
          /\ UNCHANGED <<pull, pulled, outTag, next>>    \* C03 second sentence; C17 stream clause
  /\ UNCHANGED <<push, wire, pushed, rkPush, rkPull>>

PullOk(i)        == Authentic(i, "none") /\ Pull(i, "none")
PullReject(i, m) == ~Authentic(i, m) /\ Pull(i, m)

RekeyPull ==
  /\ rkPull < MaxRekey
  /\ pull' = RekeyState(pull) /\ rkPull' = rkPull + 1 /\ res' = "Ok"
  /\ UNCHANGED <<push, wire, next, pulled, pushed, outTag, wrongs, rkPush>>

Next == \/ \E a \in Ads, t \in Tags : Push(a, t)
        \/ RekeyPush \/ RekeyPull
        \/ \E i \in 1..MaxPush, m \in Muts \cup {"none"} : Pull(i, m)

Spec == Init /\ [][Next]_vars

(* ---- properties ---------------------------------------------------------- *)
TypeOK == /\ push.base \in Bases \cup {"One"} /\ pull.base \in Bases \cup {"One"}
          /\ next \in 1..(MaxPush + 1) /\ wrongs \in 0..MaxWrong

\* the counter is never observed at zero: a wrap is always followed by a rekey
CounterNeverZero == ~Wraps(push.base, push.off) /\ ~Wraps(pull.base, pull.off)

\* whoever performed the same state-changing events is in the same state
Lockstep == (pull.hist = push.hist) => pull = push

\* the genuine next ciphertext is accepted whenever the pull side has
\* performed the pusher's explicit rekeys up to that point
InOrderAccepted == (next <= Len(wire) /\ wire[next].bound.hist = pull.hist) => Authentic(next, "none")

\* what was accepted is a prefix of what was pushed, tags included
IsPrefixOf(s, t) == Len(s) <= Len(t) /\ SubSeq(t, 1, Len(s)) = s
PrefixAuth == IsPrefixOf(pulled, pushed)

\* the tag handed to the caller is the tag of the last accepted message
TagDelivered == (Len(pulled) > 0) => outTag = pulled[Len(pulled)][2]

\* a rekey (explicit or automatic) resets the counter to 1
RekeyResetsCounter ==
  [][\A st \in {"push", "pull"} :
       LET old == IF st = "push" THEN push ELSE pull
           new == IF st = "push" THEN push' ELSE pull'
       IN (Len(new.hist) > 0 /\ new.hist # old.hist /\ new.hist[Len(new.hist)] = RK)
            => new.base = "One" /\ new.off = 0]_vars

\* a rejected pull is a stutter of everything the caller can observe on the pull side
RejectIsStutter == [][res' = "Err" => UNCHANGED <<pull, pulled, outTag, next>>]_vars

\* from the classes next to the wrap, the push that wraps the counter rekeys
WrapRekeys ==
  [][\A a \in Ads, t \in Tags :
       (Push(a, t) /\ Wraps(push.base, push.off + 1))
          => (push'.base = "One" /\ push'.off = 0 /\ push'.hist[Len(push'.hist)] = RK)]_vars

\* push and pull objects share no state
Independent == [][(push' # push => pull' = pull) /\ (pull' # pull => push' = push)]_vars

View == <<push, pull, wire, next, pulled, pushed, outTag, res, wrongs, rkPush, rkPull>>
=============================================================================
