SPECIFICATION Spec
CONSTANTS
  MaxPush = 3
  MaxWrong = 1
  MaxRekey = 1
  Bases = {"One", "Mid", "MaxM1", "Max"}
  Tags = {0, 1, 2, 3}
  Ads = {0, 1}
  Muts = {"ad", "flip", "foreign", "shortbuf"}
INVARIANTS TypeOK CounterNeverZero Lockstep InOrderAccepted PrefixAuth TagDelivered
PROPERTIES RekeyResetsCounter RejectIsStutter WrapRekeys Independent AcceptOnlyNext
CHECK_DEADLOCK FALSE
