-------------------------------- MODULE Codec --------------------------------
(***************************************************************************)
(* Byte and serde encodings (property C16).  An object is a record of      *)
(* FIELDS; a field has a declared kind - fixed(N): key, nonce, tag,        *)
(* signature, or var: payload - and in an encoding it is carried either as *)
(* a byte string ("bytes": bincode, JSON string) or as a sequence of       *)
(* elements ("seq": JSON array) holding `count` bytes.  The decoding rule  *)
(* is stated once:                                                         *)
(*      a fixed(N) field decodes iff count = N;  a var field always;       *)
(*      nothing is padded and nothing is truncated.                        *)
(* TLC checks Decode(Encode(o)) = o for every object of the library and    *)
(* enumerates, per object, every single-field deviation count in 0..2N in  *)
(* both carriers with the verdict, which the harness replays with          *)
(* hand-built JSON and bincode inputs for every supported container.       *)
(***************************************************************************)
EXTENDS Naturals, Sequences, FiniteSets, TLC, Json

Fixed(n) == [kind |-> "fixed", n |-> n]
Var == [kind |-> "var", n |-> 0]

\* the serialisable objects and their fields in declaration (= wire) order
Objects == {
  [name |-> "DryocSecretBox", fields |-> << <<"tag", Fixed(16)>>, <<"data", Var>> >>],
  [name |-> "DryocBox",       fields |-> << <<"ephemeral_pk", Fixed(32)>>, <<"tag", Fixed(16)>>, <<"data", Var>> >>],
  [name |-> "SignedMessage",  fields |-> << <<"signature", Fixed(64)>>, <<"message", Var>> >>],
  [name |-> "KeyPair",        fields |-> << <<"public_key", Fixed(32)>>, <<"secret_key", Fixed(32)>> >>],
  [name |-> "SigningKeyPair", fields |-> << <<"public_key", Fixed(32)>>, <<"secret_key", Fixed(64)>> >>],
  [name |-> "Session",        fields |-> << <<"rx_key", Fixed(32)>>, <<"tx_key", Fixed(32)>> >>],
  [name |-> "Kdf",            fields |-> << <<"main_key", Fixed(32)>>, <<"context", Fixed(8)>> >>],
  [name |-> "PwHash",         fields |-> << <<"hash", Var>>, <<"salt", Var>> >>] }

Carriers == {"bytes", "seq"}

\* an encoding assigns every field a carrier and a count
DecodeField(kind, count) == IF kind.kind = "fixed" THEN count = kind.n ELSE TRUE
Decodes(o, counts) == \A i \in 1..Len(o.fields) : DecodeField(o.fields[i][2], counts[i])

\* the canonical encoding of an object whose var fields hold `payload` bytes
CanonCounts(o, payload) == [i \in 1..Len(o.fields) |-> IF o.fields[i][2].kind = "fixed" THEN o.fields[i][2].n ELSE payload]
RoundTrip == \A o \in Objects, p \in {0, 1, 17, 300} : Decodes(o, CanonCounts(o, p))

\* strictness: any other count in a fixed-length position is an error - in particular no padding (count < N)
\* and no truncation (count > N)
FixedLenStrict == \A o \in Objects : \A i \in 1..Len(o.fields) :
   o.fields[i][2].kind = "fixed" =>
      \A c \in 0..(2 * o.fields[i][2].n) :
         Decodes(o, [CanonCounts(o, 5) EXCEPT ![i] = c]) = (c = o.fields[i][2].n)

ASSUME RoundTrip /\ FixedLenStrict

\* exported: every (object, field, carrier, count) deviation with its verdict
Cases == UNION { UNION { { [obj |-> o.name, field |-> o.fields[i][1], index |-> i, n |-> o.fields[i][2].n, carrier |-> ca, count |-> c,
                             ok |-> Decodes(o, [CanonCounts(o, 5) EXCEPT ![i] = c])] :
                           ca \in Carriers, c \in 0..(2 * o.fields[i][2].n) } :
                         i \in {j \in 1..Len(o.fields) : o.fields[j][2].kind = "fixed"} } : o \in Objects }
ASSUME PrintT(ToJson([objects |-> {[name |-> o.name, fields |-> [i \in 1..Len(o.fields) |-> [name |-> o.fields[i][1], kind |-> o.fields[i][2].kind, n |-> o.fields[i][2].n]]] : o \in Objects},
                      cases |-> Cases]))

(* ---- the byte-string wire forms (from_bytes / from_sealed_bytes) ------------------------------------------------
   The third carrier has no counts at all: the fields are concatenated in wire order, fixed ones first, the payload last,
   and the decoder cuts the string at the fixed lengths.  The rule, stated once: a string decodes iff it is at least as long
   as the fixed prefix; the parts are then (first n1 bytes, next n2 bytes, ..., the rest).  The rule does not mention the
   container that will hold a fixed part - one with a length of its own (stack array) or one without (Vec): a Vec-held tag
   does not make a 3-byte string a box. *)
WireForms == { [obj |-> "DryocSecretBox", form |-> "from_bytes",        fixed |-> <<16>>],
               [obj |-> "DryocBox",       form |-> "from_bytes",        fixed |-> <<16>>],       \* tag, data (no ephemeral key)
               [obj |-> "DryocBox",       form |-> "from_sealed_bytes", fixed |-> <<32, 16>>],   \* ephemeral key, tag, data
               [obj |-> "SignedMessage",  form |-> "from_bytes",        fixed |-> <<64>>] }
Holders == {"sized", "unsized"}
RECURSIVE SumSeq(_)
SumSeq(q) == IF q = <<>> THEN 0 ELSE Head(q) + SumSeq(Tail(q))
Prefix(w) == SumSeq(w.fixed)
WireDecodes(w, holder, len) == len >= Prefix(w)
WireParts(w, len) == w.fixed \o << len - Prefix(w) >>       \* lengths of the decoded parts
WireCases == UNION { { [obj |-> w.obj, form |-> w.form, holder |-> h, prefix |-> Prefix(w), len |-> l,
                        ok |-> WireDecodes(w, h, l), parts |-> IF WireDecodes(w, h, l) THEN WireParts(w, l) ELSE <<>>] :
                       h \in Holders, l \in 0..(Prefix(w) + 3) } : w \in WireForms }
\* nothing shorter than the fixed prefix decodes, whatever holds the fixed part; everything else does, and loses no byte
WireStrict == \A c \in WireCases : (c.ok = (c.len >= c.prefix)) /\ (c.ok => SumSeq(c.parts) = c.len)
HolderIrrelevant == \A w \in WireForms, l \in 0..80 : WireDecodes(w, "sized", l) = WireDecodes(w, "unsized", l)
ASSUME WireStrict /\ HolderIrrelevant
ASSUME PrintT(ToJson([wirecases |-> WireCases]))

VARIABLE x
Init == x = 0
Next == x' = x
Spec == Init /\ [][Next]_x
=============================================================================
