------------------------------ MODULE GenStream ------------------------------
(***************************************************************************)
(* Behaviour generation for replay into the implementation (spec -> impl). *)
(* Reuses Stream's actions unchanged and adds an operation log.  Because   *)
(* push and pull objects share no state (Stream!Independent, checked in    *)
(* MCStream), behaviours are generated in the canonical two-phase          *)
(* schedule: all push-side operations first, then the deliveries.  Every   *)
(* log entry carries what the specification predicts for that call, which  *)
(* is what the harness compares the real objects with.                     *)
(***************************************************************************)
EXTENDS Stream, Json
VARIABLES phase, log
gvars == <<vars, phase, log>>

StOut(st) == [base |-> st.base, off |-> st.off, nrk |-> Len(SelectSeq(st.hist, LAMBDA e : e = RK))]

GInit == Init /\ phase = "push"
         /\ log = <<[act |-> "init", base |-> push.base]>>

GPush == /\ phase = "push"
         /\ \E a \in Ads, t \in Tags :
              /\ Push(a, t)
              /\ log' = Append(log, [act |-> "push", ad |-> a, tag |-> t, res |-> "Ok", st |-> StOut(push')])
         /\ UNCHANGED phase

GRekeyPush == /\ phase = "push" /\ RekeyPush
              /\ log' = Append(log, [act |-> "rekey_push", res |-> "Ok", st |-> StOut(push')])
              /\ UNCHANGED phase

GSwitch == /\ phase = "push" /\ Len(wire) > 0
           /\ phase' = "pull" /\ UNCHANGED <<vars, log>>

GPull == /\ phase = "pull"
         /\ \E i \in 1..Len(wire), m \in Muts \cup {"none"} :
              \* canonical deliveries: the next one in order, or one wrong presentation
              /\ (m = "none" /\ i = next) \/ (m = "none" /\ i # next) \/ (m # "none" /\ i = next)
              /\ Pull(i, m)
              /\ log' = Append(log, [act |-> "pull", i |-> i, mut |-> m, res |-> res',
                                     tag |-> IF res' = "Ok" THEN wire[i].tag ELSE 999, st |-> StOut(pull')])
         /\ UNCHANGED phase

GRekeyPull == /\ phase = "pull" /\ RekeyPull
              \* only where the pusher rekeyed: mirror rekeys, or one spurious rekey at the end
              /\ log' = Append(log, [act |-> "rekey_pull", res |-> "Ok", st |-> StOut(pull')])
              /\ UNCHANGED phase

GFinish == /\ phase = "pull" /\ phase' = "end" /\ UNCHANGED <<vars, log>>

GNext == GPush \/ GRekeyPush \/ GSwitch \/ GPull \/ GRekeyPull \/ GFinish
GSpec == GInit /\ [][GNext]_gvars

\* a behaviour is emitted when it has delivered everything deliverable
Complete == phase = "end" /\ (next = Len(wire) + 1 \/ wrongs = MaxWrong \/ ~Authentic(next, "none"))
Emit == Complete => PrintT(ToJson(log))
=============================================================================
