------------------------------ MODULE MCPwStr ------------------------------
EXTENDS PwStr, Json
VARIABLE x
Init == x = 0
Next == x' = x
Spec == Init /\ [][Next]_x
ASSUME ParseEncode
ASSUME EncodeParse
ASSUME RehashTable
ASSUME ParseTotal
ASSUME FloorIrrelevant
\* exported: every valid object with its encoding, and the mutation grammar around representative objects
Rep(o) == o.saltlen = 16 /\ o.hashlen = 32 /\ o.t = 2
ASSUME PrintT(ToJson([valid |-> {[obj |-> o, segs |-> Encode(o)] : o \in Objects},
                      mutants |-> UNION {{[obj |-> o, how |-> mu.how, segs |-> mu.segs, parses |-> Parse(mu.segs).ok] : mu \in Mutants(o)} : o \in {q \in Objects : Rep(q)}},
                      costrows |-> CostRows, coststrings |-> CostStrings, lookalike_salts |-> LookAlikeSalts,
                      rehash |-> {[t |-> o.t, m |-> o.m, ops |-> ops, mem |-> mem, needs |-> NeedsRehash(o, ops, mem)] : o \in {q \in Objects : Rep(q) /\ q.alg = "argon2id"}, ops \in TCosts, mem \in MCosts}]))
=============================================================================
