SPECIFICATION GSpec
CONSTANTS
  P = 4096
  Lens = {0, 1, 16, 32, 64, 4095, 4096, 4097, 8192, 8193}
  Handles = {1, 2}
  MaxAllocs = 12
  MaxOps = 10
  Budgets = {0, 1, 2, 3, 4, 5}
  Focus = "refuse"
INVARIANTS Emit
CHECK_DEADLOCK FALSE
