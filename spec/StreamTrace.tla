----------------------------- MODULE StreamTrace -----------------------------
(***************************************************************************)
(* Trace validation (impl -> spec): a recording of the real stream API,    *)
(* one event per public call, is accepted iff it is a behaviour of Stream. *)
(* Every event carries its arguments (ciphertext index, mutation), so the  *)
(* search is linear; counter, rekey flag, verdict, delivered tag and the   *)
(* "state unchanged" observation are compared with the primed variables.   *)
(***************************************************************************)
EXTENDS Stream, Json, IOUtils
Rec == ndJsonDeserialize(IOEnv.TRACE)
VARIABLE l
tvars == <<vars, l>>

ConcHi(b) == CASE b = "One" -> 0 [] b = "Mid" -> 32767 [] b = "MaxM1" -> 65535 [] b = "Max" -> 65535
ConcLo(b) == CASE b = "One" -> 1 [] b = "Mid" -> 65534 [] b = "MaxM1" -> 65534 [] b = "Max" -> 65535
CtrPair(st) == LET lo == ConcLo(st.base) + st.off
               IN <<(ConcHi(st.base) + lo \div 65536) % 65536, lo % 65536>>
NRk(st) == Len(SelectSeq(st.hist, LAMBDA e : e = RK))

IsEv(e) == l <= Len(Rec) /\ Rec[l].ev = e /\ l' = l + 1

TInit == Init /\ l = 1

TReset == /\ IsEv("reset")
          /\ push' = Fresh("K", Rec[l].base) /\ pull' = Fresh("K", Rec[l].base)
          /\ wire' = <<>> /\ next' = 1 /\ pulled' = <<>> /\ pushed' = <<>>
          /\ outTag' = "unset" /\ res' = "init" /\ wrongs' = 0 /\ rkPush' = 0 /\ rkPull' = 0

TPush == /\ IsEv("push")
         /\ Push(0, Rec[l].tag)
         /\ Rec[l].id = Len(wire')
         /\ CtrPair(push') = Rec[l].ctr
         /\ Rec[l].rekeyed = (NRk(push') > NRk(push))

TRekeyPush == IsEv("rekey_push") /\ RekeyPush /\ CtrPair(push') = Rec[l].ctr
TRekeyPull == IsEv("rekey_pull") /\ RekeyPull /\ CtrPair(pull') = Rec[l].ctr

TPull == /\ IsEv("pull")
         /\ Pull(Rec[l].i, Rec[l].mut)
         /\ res' = Rec[l].res
         /\ CtrPair(pull') = Rec[l].ctr
         /\ Rec[l].rekeyed = (NRk(pull') > NRk(pull))
         /\ (res' = "Ok"  => Rec[l].tag = outTag' /\ Rec[l].msgok)
         /\ (res' = "Err" => Rec[l].same)

TNext == TReset \/ TPush \/ TRekeyPush \/ TRekeyPull \/ TPull
TSpec == TInit /\ [][TNext]_tvars

Accepted == LET d == TLCGet("stats").diameter IN
   IF d - 1 = Len(Rec) THEN TRUE
   ELSE PrintT(<<"REJECT at event", d, Rec[d]>>) /\ FALSE
=============================================================================
