SPECIFICATION Spec
CONSTANTS
  CompForms <- MCCompForms
  DeserForms <- MCDeserForms
  P = 4096
  Lens = {0, 1, 16, 32, 64, 4095, 4096, 4097, 8192, 8193}
  Handles = {1, 2}
  MaxAllocs = 4
  MaxOps = 3
  Budgets = {0, 1, 2, 3}
INVARIANTS TypeKernelAgree NoLeak OneOwner NoResidue NoStray WipeBeforeRelease ReleasedOnce ReleasedIffDead
PROPERTIES ContentsStable CloneCopies RefusalIsError OthersUntouched
VIEW View
CHECK_DEADLOCK FALSE
