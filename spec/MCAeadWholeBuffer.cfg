\* negative control: the defect repaired by /repo 946dcd9 switched back on in the model - VariantAgreement must FAIL
SPECIFICATION Spec
CONSTANTS
  MLens = {1, 17}
  Rooms = {0, 3}
  WholeBuffer = TRUE
INVARIANTS VariantAgreement
CHECK_DEADLOCK FALSE
