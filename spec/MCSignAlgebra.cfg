SPECIFICATION OneSpec
CONSTANT L = 11
CHECK_DEADLOCK FALSE
