-------------------------------- MODULE PwStr --------------------------------
(***************************************************************************)
(* Password-hash strings (property C10; the string rows of C04).           *)
(*   $argon2id$v=19$m=65536,t=2,p=1$<salt, base64 no pad>$<hash, base64>   *)
(* A string is a sequence of '$'-separated SEGMENTS; a segment is modelled *)
(* by what the parser can tell about it:                                   *)
(*   [k |-> "empty"]                                                       *)
(*   [k |-> "alg", name]            name in {"argon2i","argon2id",other}   *)
(*   [k |-> "ver", num, val]        "v=<val>"; num = does val parse as u32 *)
(*   [k |-> "par", m, t, p]         each a record [num, val] or absent     *)
(*   [k |-> "b64", ok, n]           base64 text decoding (ok) to n bytes   *)
(* Encode is the encoder the property demands (the algorithm ACTUALLY      *)
(* used is written).  Parse is the parser of crypto_pwhash.rs, segment by  *)
(* segment, including its laxness (order-insensitive, empty segments       *)
(* skipped, first decodable base64 segment is the salt, second the hash).  *)
(***************************************************************************)
EXTENDS Naturals, Sequences, FiniteSets, TLC

CONSTANTS Algs, TCosts, MCosts, SaltLens, HashLens

Version == 19
Num(v) == [num |-> TRUE, val |-> v]
NaN == [num |-> FALSE, val |-> 0]         \* text that does not parse as u32 (letters, empty, > 2^32-1, negative)
Absent == [num |-> FALSE, val |-> 1]

Objects == [alg : Algs, t : TCosts, m : MCosts, saltlen : SaltLens, hashlen : HashLens]

SegAlg(o) == [k |-> "alg", name |-> o.alg]
SegVer(v) == [k |-> "ver", v |-> v]
SegPar(m, t, p) == [k |-> "par", m |-> m, t |-> t, p |-> p, x |-> "none"]
\* a parameter segment carrying an extra token the parser does not know.  The real parser recognises the segment by
\* looking for the texts "m=", "t=" and "p=" ANYWHERE in it, so a token like "opt=1" stands in for a missing "t=" as far as
\* recognition goes; the field itself is still missing and the string must be refused (never crash on the absent field)
SegParX(m, t, p, x) == [k |-> "par", m |-> m, t |-> t, p |-> p, x |-> x]
SegB64(ok, n) == [k |-> "b64", ok |-> ok, n |-> n]
SegEmpty == [k |-> "empty"]

\* a string starts with '$', so its first segment is empty
Encode(o) == << SegEmpty, SegAlg(o), SegVer(Num(Version)), SegPar(Num(o.m), Num(o.t), Num(1)), SegB64(TRUE, o.saltlen), SegB64(TRUE, o.hashlen) >>

(* ---- the parser, one segment at a time ------------------------------------------------ *)
None == [some |-> FALSE]
Some(v) == [some |-> TRUE, v |-> v]
Acc0 == [err |-> FALSE, alg |-> None, ver |-> None, m |-> None, t |-> None, p |-> None, salt |-> None, hash |-> None]

Step(acc, s) ==
  IF acc.err THEN acc
  ELSE CASE s.k = "empty" -> acc
         [] s.k = "alg" -> IF s.name \in {"argon2i", "argon2id"} THEN [acc EXCEPT !.alg = Some(s.name)] ELSE [acc EXCEPT !.err = TRUE]
         [] s.k = "ver" -> IF s.v.num THEN [acc EXCEPT !.ver = Some(s.v.val)] ELSE [acc EXCEPT !.err = TRUE]
         [] s.k = "par" ->
              \* each of m=, t=, p= that is present must parse
              IF \E f \in {s.m, s.t, s.p} : (f # Absent /\ ~f.num) THEN [acc EXCEPT !.err = TRUE]
              ELSE [acc EXCEPT !.m = IF s.m = Absent THEN @ ELSE Some(s.m.val),
                               !.t = IF s.t = Absent THEN @ ELSE Some(s.t.val),
                               !.p = IF s.p = Absent THEN @ ELSE Some(s.p.val)]
         [] s.k = "b64" ->
              IF ~acc.salt.some THEN [acc EXCEPT !.salt = IF s.ok THEN Some(s.n) ELSE None]
              ELSE IF ~acc.hash.some THEN [acc EXCEPT !.hash = IF s.ok THEN Some(s.n) ELSE None]
              ELSE acc

RECURSIVE Fold(_, _, _)
Fold(acc, segs, i) == IF i > Len(segs) THEN acc ELSE Fold(Step(acc, segs[i]), segs, i + 1)

Err == [ok |-> FALSE]
Ok(o) == [ok |-> TRUE, obj |-> o]
Parse(segs) ==
  LET a == Fold(Acc0, segs, 1) IN
  IF a.err THEN Err
  ELSE IF ~a.ver.some \/ a.ver.v # Version THEN Err
  ELSE IF ~a.p.some \/ a.p.v # 1 THEN Err
  ELSE IF ~a.hash.some \/ a.hash.v = 0 THEN Err
  ELSE IF ~a.salt.some \/ a.salt.v = 0 THEN Err
  ELSE IF ~a.alg.some THEN Err
  ELSE IF ~a.m.some \/ ~a.t.some THEN Err
  ELSE Ok([alg |-> a.alg.v, t |-> a.t.v, m |-> a.m.v, saltlen |-> a.salt.v, hashlen |-> a.hash.v])

(* ---- C10 --------------------------------------------------------------------------------- *)
ParseEncode == \A o \in Objects : Parse(Encode(o)) = Ok(o)
EncodeParse == \A o \in Objects : Parse(Encode(o)).ok /\ Encode(Parse(Encode(o)).obj) = Encode(o)
\* needs-rehash answers false exactly when both costs match (memlimit is in bytes, m in KiB)
NeedsRehash(o, ops, memKiB) == ~(o.t = ops /\ o.m = memKiB)
RehashTable == \A o \in Objects, ops \in TCosts, mem \in MCosts : NeedsRehash(o, ops, mem) = (o.t # ops \/ o.m # mem)

(* ---- cost fields over their whole domain (no hashing involved) -------------------------------
   The string carries m in KiB and t as 32-bit decimal numbers; the API takes the memory limit in BYTES and floors it to
   KiB before it is compared (needs-rehash) or written (encode).  Numbers beyond TLC's 31 bits are written as decimal
   text; only equality is needed.  A byte count is the pair <<KiB, remainder below 1024>>. *)
BigM == {"8", "65536", "4194303", "4194304", "4259840", "4294967295"}      \* 4194304 KiB = 4 GiB: where a 32-bit byte count wraps
BigT == {"1", "3", "4294967295"}
Rems == {0, 1, 500, 1023}
KiBOf(bytes) == bytes[1]
NeedsRehashBytes(m, t, ops, membytes) == ~(t = ops /\ m = KiBOf(membytes))
\* what the caller may REQUEST is a 64-bit opslimit and a usize memlimit: requests whose low 32 bits coincide with a stored cost
\* (2^32 + t, (2^32 + m) KiB) do not match it.  Such a request is outside the range hashing accepts, so the answer may be an
\* error (libsodium's) - what it may not be is "no rehash needed".
WideT == {"4294967297", "4294967299", "8589934591"}                         \* 2^32 + 1, 2^32 + 3, 2^33 - 1 (low words 1, 3, 2^32 - 1)
WideM == {"4294967304", "4295032832", "8589934591"}                         \* 2^32 + 8, 2^32 + 65536, 2^33 - 1 KiB
CostRows == {[m |-> m, t |-> t, ops |-> ops, memKiB |-> k, rem |-> r, needs |-> NeedsRehashBytes(m, t, ops, <<k, r>>),
              wide |-> (ops \in WideT \/ k \in WideM)] :
               m \in BigM, t \in BigT, ops \in BigT \cup WideT, k \in BigM \cup WideM, r \in Rems}
\* the remainder never matters, and equal costs never need a rehash
FloorIrrelevant == \A x \in CostRows : x.needs = (x.m # x.memKiB \/ x.t # x.ops)
\* a parsed string re-encodes its cost fields unchanged whatever their size: the (m, t) pairs the harness parses and re-encodes
CostStrings == {[m |-> m, t |-> t] : m \in BigM, t \in BigT}

(* ---- fields are recognised by position, not by what their text looks like ------------------------
   The salt and the hash are base64 text: nothing stops that text from beginning like another field ("argon2id...").  In
   this model a segment's KIND is given (SegB64), so ParseEncode covers such strings by construction; the texts below are
   what the harness uses as 16-byte salts so that the implementation's way of telling segments apart is put to the test
   (the pinned commit refused the first three: repaired in /repo 228bb24). *)
LookAlikeSalts == {"argon2idAAAAAAAAAAAAAA", "argon2iBBBBBBBBBBBBBBA", "argon2ABCDEFGHIJKLMNOA", "vvvvvvvvvvvvvvvvvvvvvA", "mtpmtpmtpmtpmtpmtpmtpA"}

(* ---- the mutation grammar (C04 string rows): one deviation from a valid string ------------- *)
Remove(s, i) == SubSeq(s, 1, i - 1) \o SubSeq(s, i + 1, Len(s))
Insert(s, i, x) == SubSeq(s, 1, i - 1) \o <<x>> \o SubSeq(s, i, Len(s))
Swap(s, i, j) == [s EXCEPT ![i] = s[j], ![j] = s[i]]

Mutants(o) ==
  LET e == Encode(o) IN
     { [how |-> <<"remove", i>>, segs |-> Remove(e, i)] : i \in 1..Len(e) }
  \cup { [how |-> <<"duplicate", i>>, segs |-> Insert(e, i, e[i])] : i \in 2..Len(e) }
  \cup { [how |-> <<"swap", i, j>>, segs |-> Swap(e, i, j)] : i \in 2..Len(e), j \in 2..Len(e) }
  \cup { [how |-> <<"empty segment", i>>, segs |-> Insert(e, i, SegEmpty)] : i \in 1..(Len(e) + 1) }
  \cup { [how |-> <<"unknown algorithm">>, segs |-> [e EXCEPT ![2] = [k |-> "alg", name |-> "argon2d"]]],
         [how |-> <<"version not a number">>, segs |-> [e EXCEPT ![3] = SegVer(NaN)]],
         [how |-> <<"other version">>, segs |-> [e EXCEPT ![3] = SegVer(Num(16))]],
         [how |-> <<"m not a number">>, segs |-> [e EXCEPT ![4] = SegPar(NaN, Num(o.t), Num(1))]],
         [how |-> <<"t not a number">>, segs |-> [e EXCEPT ![4] = SegPar(Num(o.m), NaN, Num(1))]],
         [how |-> <<"p not a number">>, segs |-> [e EXCEPT ![4] = SegPar(Num(o.m), Num(o.t), NaN)]],
         [how |-> <<"p = 2">>, segs |-> [e EXCEPT ![4] = SegPar(Num(o.m), Num(o.t), Num(2))]],
         [how |-> <<"t = 0">>, segs |-> [e EXCEPT ![4] = SegPar(Num(o.m), Num(0), Num(1))]],
         [how |-> <<"m = 0">>, segs |-> [e EXCEPT ![4] = SegPar(Num(0), Num(o.t), Num(1))]],
         [how |-> <<"m = 7">>, segs |-> [e EXCEPT ![4] = SegPar(Num(7), Num(o.t), Num(1))]],
         [how |-> <<"m missing">>, segs |-> [e EXCEPT ![4] = SegPar(Absent, Num(o.t), Num(1))]],
         [how |-> <<"m missing, 'mem=8' present">>, segs |-> [e EXCEPT ![4] = SegParX(Absent, Num(o.t), Num(1), "mem=8")]],
         [how |-> <<"t missing, 'opt=1' present">>, segs |-> [e EXCEPT ![4] = SegParX(Num(o.m), Absent, Num(1), "opt=1")]],
         [how |-> <<"t missing, 'salt=0' present">>, segs |-> [e EXCEPT ![4] = SegParX(Num(o.m), Absent, Num(1), "salt=0")]],
         [how |-> <<"t missing, 'xt=3' present">>, segs |-> [e EXCEPT ![4] = SegParX(Num(o.m), Absent, Num(1), "xt=3")]],
         [how |-> <<"p missing, 'temp=2' present">>, segs |-> [e EXCEPT ![4] = SegParX(Num(o.m), Num(o.t), Absent, "temp=2")]],
         [how |-> <<"m and t missing, 'mem=8' and 'opt=1' present">>, segs |-> [e EXCEPT ![4] = SegParX(Absent, Absent, Num(1), "mem=8,opt=1")]],
         [how |-> <<"all present plus an unknown token">>, segs |-> [e EXCEPT ![4] = SegParX(Num(o.m), Num(o.t), Num(1), "keyid=7")]],
         [how |-> <<"p huge">>, segs |-> [e EXCEPT ![4] = SegPar(Num(o.m), Num(o.t), Num(1073741824))]],
         [how |-> <<"p = 4">>, segs |-> [e EXCEPT ![4] = SegPar(Num(o.m), Num(o.t), Num(4))]],
         [how |-> <<"p = 65536">>, segs |-> [e EXCEPT ![4] = SegPar(Num(o.m), Num(o.t), Num(65536))]],
         [how |-> <<"salt not base64">>, segs |-> [e EXCEPT ![5] = SegB64(FALSE, 0)]],
         [how |-> <<"hash not base64">>, segs |-> [e EXCEPT ![6] = SegB64(FALSE, 0)]],
         [how |-> <<"empty salt">>, segs |-> [e EXCEPT ![5] = SegB64(TRUE, 0)]],
         [how |-> <<"empty hash">>, segs |-> [e EXCEPT ![6] = SegB64(TRUE, 0)]],
         [how |-> <<"salt of 3 bytes">>, segs |-> [e EXCEPT ![5] = SegB64(TRUE, 3)]],
         [how |-> <<"hash of 4 bytes">>, segs |-> [e EXCEPT ![6] = SegB64(TRUE, 4)]],
         [how |-> <<"empty string">>, segs |-> <<>>],
         [how |-> <<"only separators">>, segs |-> <<SegEmpty, SegEmpty, SegEmpty>>] }

\* the parser is total on the grammar: every string gets a verdict (C04), and the well-formed ones parse back (C10)
ParseTotal == \A o \in Objects : \A mu \in Mutants(o) : (~Parse(mu.segs).ok \/ Parse(mu.segs).obj.alg \in {"argon2i", "argon2id"})
=============================================================================
