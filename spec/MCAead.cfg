SPECIFICATION Spec
CONSTANTS
  MLens = {0, 1, 15, 16, 17, 33}
  Rooms = {0, 3}
  WholeBuffer = FALSE
INVARIANTS VariantAgreement RoundTrip TamperRejected RejectReleasesNothing ShortIsError Emit
CHECK_DEADLOCK FALSE
