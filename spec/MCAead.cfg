SPECIFICATION Spec
CONSTANTS
  MLens = {0, 1, 15, 16, 17, 33}
INVARIANTS VariantAgreement RoundTrip TamperRejected RejectReleasesNothing ShortIsError Emit
CHECK_DEADLOCK FALSE
