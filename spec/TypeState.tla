------------------------------ MODULE TypeState ------------------------------
(***************************************************************************)
(* C20: the type-state table of the safe API.  Each cell (operation x      *)
(* container kind x protect mode x lock mode) gets a verdict derived from   *)
(* what the operation needs and what the state grants -- not copied from   *)
(* the impl list:                                                          *)
(*   MustNotCompile  the operation needs a right the state lacks (a byte   *)
(*                   view without read permission, a mutable view or a     *)
(*                   resize without write permission), or it is the        *)
(*                   no-access transition of a locked region, or it uses   *)
(*                   a handle a transition consumed;                       *)
(*   MustCompile     it needs only rights the state has and the documented *)
(*                   API promises it;                                      *)
(*   Free            neither: the compiler's verdict is recorded, not      *)
(*                   judged; but a Free program that compiles is run, and  *)
(*                   whatever the compiler lets through must not fault.    *)
(* TableSound ties the table to the state machine of Protected.tla: in     *)
(* every reachable state a MustCompile operation is offered by the model   *)
(* and a MustNotCompile one is not.  The same for the stream modes.        *)
(***************************************************************************)
EXTENDS Protected, Json

Ops == {"read_view", "mut_view", "array_view", "index", "resize", "clone",
        "lock", "unlock", "read_only", "read_write", "no_access", "use_after_transition"}
Kinds == {"Fixed", "Resizable"}
PMs == {"RW", "RO", "NA"}
LMs == {"Locked", "Unlocked"}

CanRead(pm)  == pm # "NA"
CanWrite(pm) == pm = "RW"

Cell(op, kind, pm, lm) ==
  CASE op \in {"read_view", "index"} -> IF CanRead(pm) THEN "MustCompile" ELSE "MustNotCompile"
    [] op = "array_view" -> IF kind # "Fixed" THEN "Free" ELSE IF CanRead(pm) THEN "MustCompile" ELSE "MustNotCompile"
    [] op = "mut_view"   -> IF CanWrite(pm) THEN "MustCompile" ELSE "MustNotCompile"
    [] op = "resize"     -> IF kind # "Resizable" THEN "Free" ELSE IF CanWrite(pm) THEN "MustCompile" ELSE "MustNotCompile"
    [] op = "clone"      -> IF ~CanRead(pm) THEN "Free"                          \* would need a temporary unprotect: not judged
                            ELSE IF kind = "Fixed" /\ lm = "Locked" THEN "Free"  \* not documented for locked arrays
                            ELSE "MustCompile"
    [] op = "lock"       -> IF lm = "Unlocked" /\ CanRead(pm) THEN "MustCompile" ELSE "Free"
    [] op = "unlock"     -> IF lm = "Locked" THEN "MustCompile" ELSE "Free"
    [] op \in {"read_only", "read_write"} -> "MustCompile"
    [] op = "no_access"  -> IF lm = "Locked" THEN "MustNotCompile" ELSE "MustCompile"
    [] op = "use_after_transition" -> "MustNotCompile"

\* what the state machine offers for the same operation
Offered(op, r) ==
  CASE op \in {"read_view", "index", "array_view"} -> OffersReadView(r)
    [] op = "mut_view"   -> OffersMutView(r)
    [] op = "resize"     -> OffersResize(r)
    [] op = "clone"      -> OffersClone(r)
    [] op = "lock"       -> OffersLock(r)
    [] op = "unlock"     -> OffersUnlock(r)
    [] op = "read_only"  -> OffersProtect(r, "RO")
    [] op = "read_write" -> OffersProtect(r, "RW")
    [] op = "no_access"  -> OffersProtect(r, "NA")
    [] op = "use_after_transition" -> FALSE     \* a transition leaves no second handle: regs[h] is replaced, never duplicated

TableSound ==
  \A h \in Handles : (regs[h].alive /\ regs[h].wrap = "Prot") =>
     \A op \in Ops : LET c == Cell(op, regs[h].kind, regs[h].pm, regs[h].lm) IN
        /\ (c = "MustCompile" => Offered(op, regs[h]))
        /\ (c = "MustNotCompile" => ~Offered(op, regs[h]))

\* every protect/lock mode combination that the table has a row for is reachable or vacuous on Linux
ReachedStates == {<<regs[h].kind, regs[h].pm, regs[h].lm>> : h \in {g \in Handles : regs[g].alive /\ regs[g].wrap = "Prot"}}

(* stream modes: Stream.tla's Push is an action of the push object only, Pull of the pull object only *)
StreamCell(op, mode) == IF (op = "push" /\ mode = "Push") \/ (op = "pull" /\ mode = "Pull") THEN "MustCompile" ELSE "MustNotCompile"

Table == [prot |-> {[op |-> op, kind |-> k, pm |-> pm, lm |-> lm, verdict |-> Cell(op, k, pm, lm)] : op \in Ops, k \in Kinds, pm \in PMs, lm \in LMs},
          stream |-> {[op |-> op, mode |-> m, verdict |-> StreamCell(op, m)] : op \in {"push", "pull"}, m \in {"Push", "Pull"}}]
ASSUME PrintT(ToJson(Table))
=============================================================================
