SPECIFICATION Spec
CONSTANTS
  P = 4096
  Lens = {0, 16, 4097}
  Handles = {1, 2}
  MaxAllocs = 5
  MaxOps = 5
  Budgets = {99}
INVARIANTS TableSound TypeKernelAgree
VIEW View
CHECK_DEADLOCK FALSE
