SPECIFICATION TSpec
CONSTANTS
  MinCalls = 10
  EntryPoints = {"rng::copy_randombytes", "rng::randombytes_buf", "StackByteArray::gen", "[u8; N]::gen", "Vec<u8>::gen", "crypto_secretbox_keygen", "crypto_secretbox_keygen_inplace", "crypto_auth_keygen", "crypto_onetimeauth_keygen", "crypto_shorthash_keygen", "crypto_generichash_keygen", "crypto_kdf_keygen", "crypto_secretstream_keygen", "crypto_box_keypair", "crypto_box_keypair_inplace", "crypto_kx_keypair", "crypto_sign_keypair", "crypto_sign_keypair_inplace", "KeyPair::gen", "KeyPair::gen_with_defaults", "SigningKeyPair::gen", "SigningKeyPair::gen_with_defaults", "Kdf::gen", "Kdf::gen_with_defaults", "crypto_box_seal ephemeral key", "DryocBox::seal ephemeral key", "crypto_secretstream init_push header", "DryocStream::init_push header", "rng::copy_randombytes 257 bytes", "rng::copy_randombytes 1000 bytes", "rng::copy_randombytes 5000 bytes", "rng::randombytes_buf 300 bytes", "rng::randombytes_buf 4097 bytes", "StackByteArray<300>::gen", "[u8; 1000]::gen", "PwHash::hash salt", "PwHash::hash salt (salt_length 8)", "PwHash::hash salt (salt_length 17)", "PwHash::hash salt (salt_length 64)", "PwHash::hash_with_defaults salt", "PwHash::hash_interactive salt", "crypto_pwhash_str salt"}
  FaultEntryPoints = {}
INVARIANTS AllCovered
POSTCONDITION Accepted
CHECK_DEADLOCK FALSE
