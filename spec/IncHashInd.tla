----------------------------- MODULE IncHashInd -----------------------------
(* Unbounded design claim for the BLAKE2b buffering of IncHash.tla (Mode = "Lazy", B = 128):          *)
(* IndInv is an inductive invariant over all naturals (checked with Apalache:                          *)
(*   apalache-mc check --init=Init --inv=IndInv --length=0 ; --init=IndInit --inv=IndInv --length=1).  *)
(* c counts the compressed (non-final) blocks, so boff = 128 * c in IncHash.tla's terms.               *)
EXTENDS Integers
VARIABLES
  \* @type: Int;
  n,
  \* @type: Int;
  T,
  \* @type: Int;
  b,
  \* @type: Int;
  c
BB == 128
Init == T = 0 /\ b = 0 /\ c = 0 /\ n = 0
Update(k) ==
  /\ k >= 0
  /\ T' = T + k
  /\ IF k = 0 THEN UNCHANGED <<b, c>>
     ELSE IF k + b <= BB THEN b' = b + k /\ c' = c
     ELSE LET start == IF b > 0 /\ b < BB THEN BB - b ELSE 0
              rem == k - start
              end == IF rem > BB /\ rem % BB = 0 THEN k - BB
                     ELSE IF rem > BB THEN k - (rem % BB) ELSE start
          IN /\ c' = c + (IF b > 0 THEN 1 ELSE 0) + ((end - start) \div BB)
             /\ b' = k - end
Next == n' \in Nat /\ Update(n')
IndInv == /\ n \in Nat /\ T \in Nat /\ b \in 0..BB /\ c \in Nat
          /\ BB * c + b = T
          /\ (T > 0 => b >= 1)
IndInit == IndInv
=============================================================================
