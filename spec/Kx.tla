--------------------------------- MODULE Kx ---------------------------------
(***************************************************************************)
(* Diffie-Hellman level of the library (properties C05 second half, C13):  *)
(* which term every derived key denotes.  Scalars and points are symbolic. *)
(*   Pub(s)        the X25519 public key of (clamped) secret s             *)
(*   X(s, P)       X25519(clamp(s), P)                                     *)
(* with the equations that hold by construction:                           *)
(*   X(a, Pub(b)) = X(b, Pub(a))           (the ladder commutes)           *)
(*   X(s, P) = Zero  for every low-order P (clamping clears the cofactor)  *)
(* The byte-level truth of X is spec/ref/X25519.tla (RFC 7748) and         *)
(* libsodium; here TLC checks the PROTOCOL facts for every combination of  *)
(* peer-key class and role, and prints the table the harness replays.      *)
(***************************************************************************)
EXTENDS Naturals, Sequences, FiniteSets, TLC, Json

Secrets == {"a", "b"}
\* classes of 32-byte strings a peer can present as its public key
PeerClasses == {"honest", "low_order", "twist", "non_canonical", "high_bit_set"}

Zero == <<"zero">>
Pub(s) == <<"pub", s>>
\* a point presented by the peer: honest points are Pub(s); the other classes are adversarial encodings
Point(cls, s) == IF cls \in {"honest", "non_canonical", "high_bit_set"} THEN Pub(s)     \* same curve point, other encoding
                 ELSE <<cls, s>>
Xdh(s, P) == IF P[1] = "low_order" THEN Zero
             ELSE IF P[1] = "pub" THEN <<"dh", {s, P[2]}>>     \* unordered: commutes
             ELSE <<"dh1", s, P>>                              \* defined, but nobody else can compute it

\* crypto_box_beforenm
Beforenm(pk, sk) == <<"hsalsa20", Xdh(sk, pk)>>

\* crypto_kx: keys = BLAKE2b-64(shared || client_pk || server_pk), split in two halves
KxHash(shared, cpk, spk) == <<"kxhash", shared, cpk, spk>>
Half(h, i) == <<"half", i, h>>
Err == [ok |-> FALSE]
ClientKeys(csk, cpk, spk) == LET q == Xdh(csk, spk) IN
  IF q = Zero THEN Err ELSE [ok |-> TRUE, rx |-> Half(KxHash(q, cpk, spk), 1), tx |-> Half(KxHash(q, cpk, spk), 2)]
ServerKeys(ssk, spk, cpk) == LET q == Xdh(ssk, cpk) IN
  IF q = Zero THEN Err ELSE [ok |-> TRUE, rx |-> Half(KxHash(q, cpk, spk), 2), tx |-> Half(KxHash(q, cpk, spk), 1)]

(* ---- properties ------------------------------------------------------------ *)
DHCommutes == \A a, b \in Secrets : Xdh(a, Pub(b)) = Xdh(b, Pub(a))
BeforenmAgrees == \A a, b \in Secrets : Beforenm(Pub(b), a) = Beforenm(Pub(a), b)
\* the client's receive/transmit keys are the server's transmit/receive keys
Mirror == \A c, s \in Secrets :
            LET ck == ClientKeys(c, Pub(c), Pub(s))
                sk == ServerKeys(s, Pub(s), Pub(c))
            IN ck.ok /\ sk.ok /\ ck.rx = sk.tx /\ ck.tx = sk.rx
\* key exchange refuses a peer key whose shared secret is all-zero, in both roles
ZeroRefused == \A s \in Secrets : /\ ClientKeys(s, Pub(s), Point("low_order", "x")) = Err
                                 /\ ServerKeys(s, Pub(s), Point("low_order", "x")) = Err
\* every other class yields keys
OthersAccepted == \A s \in Secrets, cls \in PeerClasses \ {"low_order"} : ClientKeys(s, Pub(s), Point(cls, "b")).ok

(* ---- C13: what each seeded constructor derives -------------------------------- *)
\* box key pair from a seed of any length: sk = SHA-512(seed)[0..32], pk = Pub(sk)
BoxSeedKeypair(seed) == [sk |-> <<"sha512[0..32]", seed>>, pk |-> Pub(<<"sha512[0..32]", seed>>)]
\* key-exchange key pair from a 32-byte seed: sk = BLAKE2b-32(seed)
KxSeedKeypair(seed) == [sk |-> <<"blake2b32", seed>>, pk |-> Pub(<<"blake2b32", seed>>)]
\* Ed25519 -> X25519: the secret is the clamped first half of SHA-512(ed seed); the public key is the
\* Montgomery form of the Ed25519 point of that same scalar, so the converted pair is consistent
EdToXSecret(seed) == <<"sha512[0..32]", seed>>
EdToXPublic(seed) == Pub(<<"sha512[0..32]", seed>>)
ConvertedPairConsistent == \A seed \in {"s1", "s2"} : Pub(EdToXSecret(seed)) = EdToXPublic(seed)
FromSecretKey == \A seed \in {"s1"} : Pub(BoxSeedKeypair(seed).sk) = BoxSeedKeypair(seed).pk

ASSUME DHCommutes /\ BeforenmAgrees /\ Mirror /\ ZeroRefused /\ OthersAccepted /\ ConvertedPairConsistent /\ FromSecretKey

\* the table replayed by the harness: per role and peer class, does the session exist?
Table == {[role |-> r, peer |-> cls, ok |-> (IF r = "client" THEN ClientKeys("a", Pub("a"), Point(cls, "b")) ELSE ServerKeys("a", Pub("a"), Point(cls, "b"))).ok] :
            r \in {"client", "server"}, cls \in PeerClasses}
ASSUME PrintT(ToJson(Table))

VARIABLE x
Init == x = 0
Next == x' = x
Spec == Init /\ [][Next]_x
=============================================================================
