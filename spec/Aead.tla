-------------------------------- MODULE Aead --------------------------------
(***************************************************************************)
(* Authenticated encryption: secretbox / box / precomputed-key box /       *)
(* sealed box, classic and object API (properties C01, C02, C17; the       *)
(* length rows of C04).                                                    *)
(*                                                                         *)
(* Bytes are SYMBOLIC and positional.  A byte is [b, x]: a base            *)
(*   <<"M", i>>        message byte i                                      *)
(*   <<"T", j, tid>>   byte j of the Poly1305 tag `tid`                    *)
(*   <<"E", j, e>>     byte j of the public key of key pair e              *)
(*   <<"Z">>           zero,  <<"J", n>> junk n (attacker / canary bytes)  *)
(* XORed with the set x of keystream atoms <<ks, o>> (byte o of the        *)
(* XSalsa20 stream `ks` = (key term, nonce term)); XOR with the same atom  *)
(* twice cancels.  A tag id is the pair (stream, sequence of the bytes     *)
(* that were MACed); two tags are equal iff they are the same term - the   *)
(* symbolic-MAC assumption.  The byte-level truth of every constructor is  *)
(* established separately (spec/ref/Salsa.tla SecretboxSeal + libsodium).  *)
(*                                                                         *)
(* Every entry point is written as the buffer program the code performs    *)
(* (copy_from_slice, split_at(16), rotate_right/left(16), apply_keystream  *)
(* continuing from the cipher's position, resize), NOT as "the canonical   *)
(* term": VariantAgreement is then a theorem TLC checks, and a wrong       *)
(* rotation, split index or keystream offset shows in the model.           *)
(* Opening verifies BEFORE it writes anything derived from the ciphertext  *)
(* (C17): this is the design; the code is bound to it by replay.           *)
(***************************************************************************)
EXTENDS Naturals, Sequences, FiniteSets, TLC

CONSTANTS MLens,     \* message lengths explored symbolically
          Rooms,      \* how many bytes longer than needed the caller's OUTPUT buffer may be (classic easy / detached forms)
          WholeBuffer \* FALSE: the code as it is.  TRUE: the defect repaired by /repo 946dcd9 (the whole output buffer is
                      \* encrypted and authenticated, not the message) - kept as a switch so that the check can show that the
                      \* model sees it (VariantAgreement must then fail; tools/aeadcommon.py)

MAC == 16
PKB == 32
SEAL == 48

(* ---- symbolic bytes ------------------------------------------------------ *)
B(base) == [b |-> base, x |-> {}]
Zb == B(<<"Z">>)
Jb(n) == B(<<"J", n>>)
Msg(l) == [i \in 1..l |-> B(<<"M", i>>)]
Zeros(l) == [i \in 1..l |-> Zb]
Junk(l, tagn) == [i \in 1..l |-> Jb(tagn * 1000 + i)]
XorAtom(byte, a) == [byte EXCEPT !.x = IF a \in @ THEN @ \ {a} ELSE @ \cup {a}]

\* apply_keystream: bytes buf[1..] XOR stream ks from offset o0
ApplyKS(buf, ks, o0) == [i \in 1..Len(buf) |-> XorAtom(buf[i], <<ks, o0 + i - 1>>)]

Stream(key, nonce) == <<"ks", key, nonce>>
TagBytes(ks, body) == [j \in 1..MAC |-> B(<<"T", j, <<ks, body>>>>)]
PkBytes(e) == [j \in 1..PKB |-> B(<<"E", j, e>>)]

RotR(buf, n) == IF Len(buf) = 0 THEN buf ELSE [i \in 1..Len(buf) |-> buf[((i - 1 - n + Len(buf) * 2) % Len(buf)) + 1]]
RotL(buf, n) == IF Len(buf) = 0 THEN buf ELSE [i \in 1..Len(buf) |-> buf[((i - 1 + n) % Len(buf)) + 1]]
Sub(buf, a, b) == LET e == IF b > Len(buf) THEN Len(buf) ELSE b IN IF a > e THEN <<>> ELSE SubSeq(buf, a, e)

(* ---- key terms ------------------------------------------------------------- *)
\* symmetric key k; DH shared key of two key pairs (unordered: X25519 commutes), then HSalsa20
KP(name) == <<"kp", name>>               \* a key pair
Nn(name) == <<"n", name>>                \* a caller-supplied nonce
SymKey(k) == <<"sym", k>>
Shared(a, b) == <<"dh", {a, b}>>
SealNonce(e, r) == <<"h", e, r>>          \* BLAKE2b-24(epk || rpk)

(* ---- the primitive both APIs are built on ---------------------------------- *)
\* crypto_secretbox_detached_inplace(data, mac, nonce, key): the cipher yields 32 bytes for the MAC key,
\* then continues over the data; the MAC is over the encrypted data
DetachedInplace(data, key, nonce) ==
  LET ks == Stream(key, nonce)
      c  == ApplyKS(data, ks, 32)
  IN [body |-> c, tag |-> TagBytes(ks, c)]

(* ---- encrypting entry points as buffer programs ------------------------------ *)
\* each returns the wire as a record [fmt, bytes] or [fmt, tag, body]
EncVariants == {"easy", "detached", "easy_inplace", "obj_to_bytes", "obj_into_vec", "obj_parts"}

\* crypto_secretbox_detached(c, mac, m, ..) with an output buffer c of l + room bytes holding junk:
\*   c = c[..l]; c.copy_from_slice(m); detached_inplace(c)          -- only the message is processed, whatever the buffer's length
\* what the caller reads back as the box is the first l bytes of its buffer
DetachedInto(m, room, key, nonce) ==
  LET l    == Len(m)
      buf  == m \o Junk(room, 6)
      work == IF WholeBuffer THEN buf ELSE Sub(buf, 1, l)
      r    == DetachedInplace(work, key, nonce)
  IN [body |-> Sub(r.body, 1, l), tag |-> r.tag]

Encrypt(v, m, key, nonce, room) ==
  LET l == Len(m) IN
  CASE v = "detached" ->                       \* the caller's buffer may be longer than the message
         LET r == DetachedInto(m, room, key, nonce) IN [fmt |-> "detached", tag |-> r.tag, body |-> r.body]
    [] v = "easy" ->                           \* detached into c[16..] (all of the rest of the caller's buffer), then c[..16] = mac
         LET r == DetachedInto(m, room, key, nonce) IN [fmt |-> "combined", bytes |-> r.tag \o r.body]
    [] v = "easy_inplace" ->                   \* data = m || 16 spare bytes; rotate_right(16); split_at(16); inplace on the tail
         LET buf == RotR(m \o Junk(MAC, 7), MAC)
             r   == DetachedInplace(Sub(buf, MAC + 1, Len(buf)), key, nonce)
         IN [fmt |-> "combined", bytes |-> r.tag \o r.body]
    [] v = "obj_to_bytes" ->                   \* data.resize(l, 0); detached; to_bytes: resize(16 + l); copy tag; copy data
         LET r == DetachedInplace(m, key, nonce) IN [fmt |-> "combined", bytes |-> r.tag \o r.body]
    [] v = "obj_into_vec" ->                   \* data.resize(l + 16, 0); rotate_right(16); data[0..16] = tag
         LET r   == DetachedInplace(m, key, nonce)
             buf == RotR(r.body \o Zeros(MAC), MAC)
         IN [fmt |-> "combined", bytes |-> r.tag \o Sub(buf, MAC + 1, Len(buf))]
    [] v = "obj_parts" ->
         LET r == DetachedInplace(m, key, nonce) IN [fmt |-> "detached", tag |-> r.tag, body |-> r.body]

\* sealed box: ephemeral pair e, nonce = H(epk || rpk), easy into c[32..], epk copied to c[..32]
Seal(v, m, e, r, room) ==
  LET w == Encrypt(IF v = "seal" THEN "easy" ELSE "obj_to_bytes", m, Shared(e, r), SealNonce(e, r), room)
  IN [fmt |-> "sealed", bytes |-> PkBytes(e) \o w.bytes]

Canonical(m, key, nonce) == LET r == DetachedInplace(m, key, nonce) IN r.tag \o r.body

(* ---- opening entry points ------------------------------------------------------- *)
\* open_detached_inplace: verify the MAC over the data as presented, only then decrypt it
Verify(body, tag, key, nonce) == tag = TagBytes(Stream(key, nonce), body)
Decrypt(body, key, nonce) == ApplyKS(body, Stream(key, nonce), 32)

OpenVariants == {"open_easy", "open_detached", "open_easy_inplace", "obj_from_bytes", "obj_parts"}

\* result: [res, out] where out is what the caller can see afterwards; `canary` is the caller's buffer before the call
Open(u, w, key, nonce, canary) ==
  LET combined == IF w.fmt = "detached" THEN w.tag \o w.body ELSE w.bytes
      short == Len(combined) < MAC
      tag  == Sub(combined, 1, MAC)
      body == Sub(combined, MAC + 1, Len(combined))
  IN CASE u \in {"open_easy", "obj_from_bytes"} ->
            IF short THEN [res |-> "Err", out |-> canary]
            ELSE IF Verify(body, tag, key, nonce) THEN [res |-> "Ok", out |-> Decrypt(body, key, nonce)]
            ELSE [res |-> "Err", out |-> canary]
       [] u \in {"open_detached", "obj_parts"} ->     \* tag and body arrive separately: no length precondition
            IF w.fmt # "detached" /\ short THEN [res |-> "Err", out |-> canary]
            ELSE IF Verify(body, tag, key, nonce) THEN [res |-> "Ok", out |-> Decrypt(body, key, nonce)]
            ELSE [res |-> "Err", out |-> canary]
       [] u = "open_easy_inplace" ->                  \* the buffer is the ciphertext; on success rotate_left(16)
            IF short THEN [res |-> "Err", out |-> combined]
            ELSE IF Verify(body, tag, key, nonce)
                 THEN [res |-> "Ok", out |-> Sub(RotL(tag \o Decrypt(body, key, nonce), MAC), 1, Len(body))]
                 ELSE [res |-> "Err", out |-> combined]

OpenSealed(w, r, canary) ==
  IF Len(w.bytes) < SEAL THEN [res |-> "Err", out |-> canary]
  ELSE LET epk == Sub(w.bytes, 1, PKB)
           e   == IF epk = PkBytes(KP("e")) THEN KP("e") ELSE <<"badpk", epk>>   \* the key pair the 32 bytes denote
       IN Open("open_easy", [fmt |-> "combined", bytes |-> Sub(w.bytes, PKB + 1, Len(w.bytes))],
               Shared(e, r), SealNonce(e, r), canary)

(* ---- faults: one corruption per case (C02) ------------------------------------------ *)
FaultKinds == {"none", "flip_tag", "flip_body", "flip_nonce", "flip_key", "flip_epk", "truncate", "extend"}

FlipAt(buf, i) == [buf EXCEPT ![i] = Jb(900 + i)]
Combined(w) == IF w.fmt = "detached" THEN w.tag \o w.body ELSE w.bytes
Rewire(w, bytes) == IF w.fmt = "detached" THEN [w EXCEPT !.tag = Sub(bytes, 1, MAC), !.body = Sub(bytes, MAC + 1, Len(bytes))]
                    ELSE [w EXCEPT !.bytes = bytes]

(* ---- the state machine: encrypt, optionally corrupt one thing, open ------------------ *)
VARIABLES phase, cons, encv, openv, mlen, room, wire, fault, fpos, okey, ononce, result
vars == <<phase, cons, encv, openv, mlen, room, wire, fault, fpos, okey, ononce, result>>

Cons == {"secretbox", "box", "seal"}
KeyOf(c) == IF c = "secretbox" THEN SymKey("k") ELSE Shared(KP("a"), KP("b"))

Init == /\ phase = "enc" /\ cons \in Cons /\ mlen \in MLens /\ room \in Rooms
        /\ encv = "none" /\ openv = "none" /\ wire = [fmt |-> "none"] /\ fault = "none" /\ fpos = 0
        /\ okey = <<"none">> /\ ononce = <<"none">> /\ result = [res |-> "none"]

DoEncrypt(v) ==
  /\ phase = "enc" /\ phase' = "fault" /\ encv' = v
  \* only the classic forms that write into a buffer of the caller's can be handed a longer one (the object API sizes its own,
  \* the in-place forms have no separate output)
  /\ (room > 0 => v \in {"easy", "detached", "seal"})
  /\ IF cons = "seal"
     THEN v \in {"seal", "obj_seal"} /\ wire' = Seal(v, Msg(mlen), KP("e"), KP("r"), room)
     ELSE v \in EncVariants /\ wire' = Encrypt(v, Msg(mlen), KeyOf(cons), Nn("n"), room)
  /\ okey' = IF cons = "seal" THEN KP("r") ELSE KeyOf(cons)
  /\ ononce' = Nn("n")
  /\ UNCHANGED <<cons, openv, mlen, room, fault, fpos, result>>

\* position classes: first / last byte of the component (the harness expands to every bit of every byte)
DoFault(f, p) ==
  /\ phase = "fault" /\ phase' = "open" /\ fault' = f /\ fpos' = p
  /\ LET c == Combined(wire)
         hdr == IF cons = "seal" THEN PKB ELSE 0
     IN CASE f = "none" -> p = 0 /\ UNCHANGED <<wire, okey, ononce>>
          [] f = "flip_tag"  -> p \in {hdr + 1, hdr + MAC} /\ wire' = Rewire(wire, FlipAt(c, p)) /\ UNCHANGED <<okey, ononce>>
          [] f = "flip_body" -> mlen > 0 /\ p \in {hdr + MAC + 1, Len(c)} /\ wire' = Rewire(wire, FlipAt(c, p)) /\ UNCHANGED <<okey, ononce>>
          [] f = "flip_epk"  -> cons = "seal" /\ p \in {1, PKB} /\ wire' = Rewire(wire, FlipAt(c, p)) /\ UNCHANGED <<okey, ononce>>
          [] f = "flip_nonce" -> cons # "seal" /\ p = 0 /\ ononce' = Nn("flipped") /\ UNCHANGED <<wire, okey>>
          \* the key the opener derives the symmetric key from: the secret-box key itself, the recipient's secret key of a box
          \* (the precomputed key for the afternm forms), the recipient's key pair of a sealed box
          [] f = "flip_key"  -> /\ p = 0
                                /\ okey' = CASE cons = "secretbox" -> SymKey("k_flipped")
                                              [] cons = "box" -> Shared(KP("a"), KP("b_flipped"))
                                              [] OTHER -> KP("r_flipped")
                                /\ UNCHANGED <<wire, ononce>>
          [] f = "truncate"  -> p \in 1..Len(c) /\ wire' = Rewire(wire, Sub(c, 1, Len(c) - p)) /\ UNCHANGED <<okey, ononce>>
          [] f = "extend"    -> p \in {1, 16, 17} /\ wire' = Rewire(wire, c \o Junk(p, 8)) /\ UNCHANGED <<okey, ononce>>
  /\ UNCHANGED <<cons, encv, openv, mlen, room, result>>

DoOpen(u) ==
  /\ phase = "open" /\ phase' = "done" /\ openv' = u
  /\ LET canary == Junk(IF Len(Combined(wire)) > MAC THEN Len(Combined(wire)) - MAC ELSE 0, 5) IN
     IF cons = "seal"
     THEN u \in {"seal_open", "obj_unseal"} /\ result' = OpenSealed(wire, okey, canary)
     ELSE /\ u \in OpenVariants
          \* a detached wire cannot be truncated below the tag: the tag is a fixed-length array there
          /\ (u \in {"open_detached", "obj_parts"} => Len(Combined(wire)) >= MAC)
          /\ result' = Open(u, wire, okey, ononce, canary)
  /\ UNCHANGED <<cons, encv, mlen, room, wire, fault, fpos, okey, ononce>>

Next == \/ \E v \in EncVariants \cup {"seal", "obj_seal"} : DoEncrypt(v)
        \/ \E f \in FaultKinds, p \in 0..200 : DoFault(f, p)
        \/ \E u \in OpenVariants \cup {"seal_open", "obj_unseal"} : DoOpen(u)
Spec == Init /\ [][Next]_vars

(* ---- properties -------------------------------------------------------------------------- *)
\* C01: every encrypting entry point produces the canonical layout  tag(16) || body,  body[i] = m[i] ^ ks[32 + i]
VariantAgreement ==
  (phase = "fault") =>
     IF cons = "seal" THEN wire.bytes = PkBytes(KP("e")) \o Canonical(Msg(mlen), Shared(KP("e"), KP("r")), SealNonce(KP("e"), KP("r")))
     ELSE Combined(wire) = Canonical(Msg(mlen), KeyOf(cons), Nn("n"))

\* C01: every wire-compatible (encrypt, open) pair returns the message
RoundTrip == (phase = "done" /\ fault = "none") => (result.res = "Ok" /\ result.out = Msg(mlen))

\* C02: any single corruption is rejected by every opening entry point
TamperRejected == (phase = "done" /\ fault # "none") => result.res = "Err"

\* C17: a rejected open shows the caller nothing derived from the rejected ciphertext
\* (its buffer as it was - for the in-place form that is the ciphertext it passed in - or zeros)
RejectReleasesNothing ==
  (phase = "done" /\ result.res = "Err") =>
     \/ result.out = Junk(Len(result.out), 5)
     \/ result.out = Zeros(Len(result.out))
     \/ (openv = "open_easy_inplace" /\ result.out = Combined(wire))

\* C04 length rows: anything shorter than the fixed overhead is an error, never a slice out of range
ShortIsError == (phase = "done" /\ Len(Combined(wire)) < (IF cons = "seal" THEN SEAL ELSE MAC)) => result.res = "Err"
=============================================================================
