----------------------------- MODULE Protected -----------------------------
(***************************************************************************)
(* Protected memory (src/protected.rs): properties C14, C15, C19, C20.     *)
(*                                                                         *)
(* Three layers are modelled together, because the properties are about    *)
(* their agreement:                                                        *)
(*   - the TYPE STATE of each handle: kind (fixed HeapByteArray<N> or      *)
(*     resizable HeapBytes), wrapper (plain heap container or Protected),  *)
(*     protect mode pm, lock mode lm, length;                              *)
(*   - the KERNEL's view: per allocation made by PageAlignedAllocator, a   *)
(*     sequence of pages [prot, locked] laid out as the allocator lays     *)
(*     them out: guard page, PageRound(cap)/P data+slack pages, guard;     *)
(*   - the ALLOCATOR: Vec capacity policy, grow-by-reallocate, release.    *)
(* One action per public operation; the sub-steps of an operation          *)
(* (allocate, lock, copy, protect, wipe, unlock, release) are composed in  *)
(* the order the code performs them, with Linux semantics for mprotect /   *)
(* mlock / munlock on byte ranges (rounded outward to pages; no-ops on     *)
(* empty ranges; mlock on an inaccessible range fails).                    *)
(*                                                                         *)
(* The model is the DESIGN the properties demand: protection calls cover   *)
(* ceil(len/P) pages, released blocks are wiped over their whole capacity, *)
(* a refused lock is an error for every Result-returning operation and a   *)
(* failed mlock leaves no page locked.  Conformance of the code to it is   *)
(* checked by replaying the model's behaviours against the real kernel.    *)
(***************************************************************************)
EXTENDS Naturals, Sequences, FiniteSets, TLC

CONSTANTS P,          \* page size in bytes
          Lens,       \* region lengths explored
          Handles,    \* handle slots (two, so that clone has a target)
          MaxAllocs, MaxOps,
          Budgets     \* number of mlock calls that succeed before the OS refuses (99 = never refuses)

VARIABLES regs,      \* handle -> region record
          allocs,    \* sequence of allocation records (never shrinks: freed pages stay inspectable)
          released,  \* sequence of release events
          budget, nops,
          res, lastop

vars == <<regs, allocs, released, budget, nops, res, lastop>>

Max(a, b) == IF a > b THEN a ELSE b
Min(a, b) == IF a < b THEN a ELSE b

(* ---- allocator ----------------------------------------------------------- *)
PageRound(n) == n + (P - (n % P))      \* _page_round: a whole extra page when n is page-aligned
NPg(n) == (n + P - 1) \div P            \* pages touched by a byte range of length n starting on a page boundary
VecCap(old, need) == IF need <= old THEN old ELSE Max(8, Max(2 * old, need))   \* RawVec amortised growth, u8

Guard == [prot |-> "none", locked |-> FALSE]
Clean == [prot |-> "rw", locked |-> FALSE]
MkPages(cap) == <<Guard>> \o [i \in 1..(PageRound(cap) \div P) |-> Clean] \o <<Guard>>

Alloc(as, cap) == Append(as, [cap |-> cap, pages |-> MkPages(cap), live |-> TRUE])

\* deallocate: wipe the block, make both guards accessible again, give it back
Dealloc(as, a) ==
  LET pg == as[a].pages
  IN [as EXCEPT ![a].live = FALSE,
                ![a].pages = [i \in 1..Len(pg) |-> IF i = 1 \/ i = Len(pg) THEN [pg[i] EXCEPT !.prot = "rw"] ELSE pg[i]]]

(* ---- kernel calls on the first n bytes of allocation a -------------------- *)
InRange(i, n) == i >= 2 /\ i <= 1 + NPg(n)
KProt(as, a, n, pr) == IF n = 0 \/ a = 0 THEN as
                       ELSE [as EXCEPT ![a].pages = [i \in 1..Len(@) |-> IF InRange(i, n) THEN [@[i] EXCEPT !.prot = pr] ELSE @[i]]]
KLock(as, a, n, l)  == IF n = 0 \/ a = 0 THEN as
                       ELSE [as EXCEPT ![a].pages = [i \in 1..Len(@) |-> IF InRange(i, n) THEN [@[i] EXCEPT !.locked = l] ELSE @[i]]]
AnyNone(as, a, n) == n > 0 /\ a # 0 /\ \E i \in 2..(1 + NPg(n)) : as[a].pages[i].prot = "none"

ProtOf(pm) == CASE pm = "RW" -> "rw" [] pm = "RO" -> "r" [] pm = "NA" -> "none"

(* ---- regions -------------------------------------------------------------- *)
Dead == [alive |-> FALSE]
Reg(kind, wrap, pm, lm, len, a, cap, plen) ==
  [alive |-> TRUE, kind |-> kind, wrap |-> wrap, pm |-> pm, lm |-> lm, len |-> len, a |-> a, cap |-> cap, plen |-> plen]

Rel(a, cap) == [a |-> a, size |-> cap, nonzero |-> FALSE]

\* dropping a region r: Protected::zeroize (restore rw, wipe, unlock), then the container (wipe, release)
DropAllocs(as, r) ==
  LET as1 == IF r.wrap = "Prot" /\ r.len > 0 /\ r.pm # "RW" THEN KProt(as, r.a, r.len, "rw") ELSE as
      as2 == IF r.wrap = "Prot" /\ r.len > 0 /\ r.lm = "Locked" THEN KLock(as1, r.a, r.len, FALSE) ELSE as1
  IN IF r.a = 0 THEN as2 ELSE Dealloc(as2, r.a)
DropRel(rl, r) == IF r.a = 0 THEN rl ELSE Append(rl, Rel(r.a, r.cap))

Init == /\ regs = [h \in Handles |-> Dead]
        /\ allocs = <<>> /\ released = <<>> /\ nops = 0
        /\ budget \in Budgets
        /\ res = "init" /\ lastop = <<"init">>

Step(op) == nops < MaxOps /\ nops' = nops + 1 /\ lastop' = op

\* does a kernel mlock of n bytes succeed now?  (empty ranges never reach the kernel)
LockOk(n) == n = 0 \/ budget > 0
Spend(n)  == IF n = 0 \/ budget = 99 THEN budget ELSE budget - 1

(* ---- constructors ---------------------------------------------------------- *)
\* form -> (locked?, read-only?, carries data?, kinds offering it)
Forms == { [f |-> "new_locked",                lock |-> TRUE,  ro |-> FALSE, data |-> FALSE, kinds |-> {"Fixed", "Resizable"}],
           [f |-> "new_readonly_locked",       lock |-> TRUE,  ro |-> TRUE,  data |-> FALSE, kinds |-> {"Fixed", "Resizable"}],
           [f |-> "gen_locked",                lock |-> TRUE,  ro |-> FALSE, data |-> TRUE,  kinds |-> {"Fixed"}],
           [f |-> "gen_readonly_locked",       lock |-> TRUE,  ro |-> TRUE,  data |-> TRUE,  kinds |-> {"Fixed"}],
           [f |-> "from_slice_into_locked",    lock |-> TRUE,  ro |-> FALSE, data |-> TRUE,  kinds |-> {"Fixed", "Resizable"}],
           [f |-> "from_slice_into_readonly_locked", lock |-> TRUE, ro |-> TRUE, data |-> TRUE, kinds |-> {"Fixed", "Resizable"}],
           [f |-> "stack_mlock",               lock |-> TRUE,  ro |-> FALSE, data |-> TRUE,  kinds |-> {"Fixed"}],
           [f |-> "stack_mprotect_readonly",   lock |-> FALSE, ro |-> TRUE,  data |-> TRUE,  kinds |-> {"Fixed"}],
           [f |-> "heap",                      lock |-> FALSE, ro |-> FALSE, data |-> TRUE,  kinds |-> {"Fixed", "Resizable"}] }

\* every form allocates max(8, len) bytes when len > 0 (a fresh Vec resized once), locks, then protects
Ctor(h, fm, kind, len) ==
  /\ Step(<<"ctor", h, fm.f, kind, len>>)
  /\ ~regs[h].alive /\ kind \in fm.kinds /\ Len(allocs) < MaxAllocs
  \* new_locked on the resizable container creates the empty region; gen_* need a compile-time length
  /\ (kind = "Resizable" /\ ~fm.data) => len = 0
  /\ LET cap == IF len = 0 THEN 0 ELSE VecCap(0, len)
         a   == IF len = 0 THEN 0 ELSE Len(allocs) + 1
         as0 == IF len = 0 THEN allocs ELSE Alloc(allocs, cap)
         r0  == Reg(kind, IF fm.f = "heap" THEN "Plain" ELSE "Prot", "RW", "Unlocked", len, a, cap, IF fm.data THEN len ELSE 0)
     IN IF fm.lock /\ ~LockOk(len)
        THEN \* the OS refuses the lock: Err, and the half-built region is wiped and released
             /\ res' = "Err" /\ regs' = regs /\ budget' = budget
             /\ allocs' = DropAllocs(as0, r0) /\ released' = DropRel(released, r0)
        ELSE /\ res' = "Ok"
             /\ budget' = IF fm.lock THEN Spend(len) ELSE budget
             /\ LET as1 == IF fm.lock THEN KLock(as0, a, len, TRUE) ELSE as0
                    as2 == IF fm.ro THEN KProt(as1, a, len, "r") ELSE as1
                IN allocs' = as2
             /\ regs' = [regs EXCEPT ![h] = [r0 EXCEPT !.lm = IF fm.lock THEN "Locked" ELSE "Unlocked",
                                                        !.pm = IF fm.ro THEN "RO" ELSE "RW"]]
             /\ released' = released

\* Lockable::mlock on a plain heap container
HeapMlock(h) ==
  /\ Step(<<"heap_mlock", h>>)
  /\ regs[h].alive /\ regs[h].wrap = "Plain"
  /\ LET r == regs[h] IN
     IF ~LockOk(r.len)
     THEN /\ res' = "Err" /\ regs' = [regs EXCEPT ![h] = Dead] /\ budget' = budget
          /\ allocs' = DropAllocs(allocs, [r EXCEPT !.wrap = "Prot"]) /\ released' = DropRel(released, r)
     ELSE /\ res' = "Ok" /\ budget' = Spend(r.len)
          /\ allocs' = KLock(allocs, r.a, r.len, TRUE)
          /\ regs' = [regs EXCEPT ![h].wrap = "Prot", ![h].lm = "Locked"]
          /\ released' = released

(* ---- what the safe API offers in each type state (the guards of the actions below; C20) ---- *)
OffersLock(r)        == r.alive /\ r.wrap = "Prot" /\ r.lm = "Unlocked"
OffersUnlock(r)      == r.alive /\ r.wrap = "Prot"
OffersProtect(r, pm) == r.alive /\ r.wrap = "Prot" /\ (pm = "NA" => r.lm = "Unlocked")   \* ProtectNoAccess: unlocked regions only
OffersReadView(r)    == r.alive /\ (r.wrap = "Plain" \/ r.pm # "NA")
OffersMutView(r)     == r.alive /\ (r.wrap = "Plain" \/ r.pm = "RW")
OffersClone(r)       == r.alive /\ (r.wrap = "Plain" \/ (r.pm # "NA" /\ (r.lm = "Locked" => r.kind = "Resizable")))
OffersResize(r)      == r.alive /\ r.kind = "Resizable" /\ (r.wrap = "Plain" \/ r.pm = "RW")

(* ---- type-state transitions (each consumes the handle and returns it retyped) ------------ *)
IsProt(h) == regs[h].alive /\ regs[h].wrap = "Prot"

Lock(h) ==
  /\ Step(<<"mlock", h>>)
  /\ OffersLock(regs[h])
  /\ LET r == regs[h] IN
     IF ~LockOk(r.len) \/ AnyNone(allocs, r.a, r.len)
     THEN \* refused by the OS, or the range is inaccessible (mlock cannot fault the pages in):
          \* Err; the consumed region is wiped, released, and no page stays locked
          /\ res' = "Err" /\ regs' = [regs EXCEPT ![h] = Dead]
          /\ budget' = IF LockOk(r.len) THEN Spend(r.len) ELSE budget
          /\ allocs' = DropAllocs(allocs, r) /\ released' = DropRel(released, r)
     ELSE /\ res' = "Ok" /\ budget' = Spend(r.len)
          /\ allocs' = KLock(allocs, r.a, r.len, TRUE)
          /\ regs' = [regs EXCEPT ![h].lm = "Locked"]
          /\ released' = released

Unlock(h) ==
  /\ Step(<<"munlock", h>>)
  /\ OffersUnlock(regs[h])
  /\ allocs' = KLock(allocs, regs[h].a, regs[h].len, FALSE)
  /\ regs' = [regs EXCEPT ![h].lm = "Unlocked"]
  /\ res' = "Ok" /\ UNCHANGED <<released, budget>>

Protect(h, pm) ==
  /\ Step(<<"mprotect", h, pm>>)
  /\ OffersProtect(regs[h], pm)
  /\ allocs' = KProt(allocs, regs[h].a, regs[h].len, ProtOf(pm))
  /\ regs' = [regs EXCEPT ![h].pm = pm]
  /\ res' = "Ok" /\ UNCHANGED <<released, budget>>

Drop(h) ==
  /\ Step(<<"drop", h>>)
  /\ regs[h].alive
  /\ allocs' = DropAllocs(allocs, regs[h]) /\ released' = DropRel(released, regs[h])
  /\ regs' = [regs EXCEPT ![h] = Dead]
  /\ res' = "Ok" /\ UNCHANGED budget

(* ---- clone ------------------------------------------------------------------ *)
CanClone(r) == OffersClone(r)

Clone(h, g) ==
  /\ Step(<<"clone", h, g>>)
  /\ h # g /\ CanClone(regs[h]) /\ ~regs[g].alive /\ Len(allocs) < MaxAllocs
  /\ LET r == regs[h]
         locked == r.wrap = "Prot" /\ r.lm = "Locked"
         \* locked: new_locked() then the copy-resize of a fresh Vec; unlocked: Vec::clone allocates exactly len
         cap == IF r.len = 0 THEN 0 ELSE IF locked THEN VecCap(0, r.len) ELSE r.len
         a   == IF r.len = 0 THEN 0 ELSE Len(allocs) + 1
         as0 == IF r.len = 0 THEN allocs ELSE Alloc(allocs, cap)
         n   == [r EXCEPT !.a = a, !.cap = cap, !.pm = "RW", !.lm = "Unlocked"]
     IN IF locked /\ ~LockOk(r.len)
        THEN \* Clone has no Result: the refusal surfaces as a panic; nothing may leak
             /\ res' = "Panic" /\ regs' = regs /\ budget' = budget
             /\ allocs' = DropAllocs(as0, n) /\ released' = DropRel(released, n)
        ELSE /\ res' = "Ok" /\ budget' = IF locked THEN Spend(r.len) ELSE budget
             /\ LET as1 == IF locked THEN KLock(as0, a, r.len, TRUE) ELSE as0
                    as2 == IF r.wrap = "Prot" /\ r.pm = "RO" THEN KProt(as1, a, r.len, "r") ELSE as1
                IN allocs' = as2
             /\ regs' = [regs EXCEPT ![g] = [r EXCEPT !.a = a, !.cap = cap]]
             /\ released' = released

(* ---- resize (resizable container, writable) ---------------------------------- *)
CanResize(r) == OffersResize(r)

Resize(h, newlen) ==
  /\ Step(<<"resize", h, newlen>>)
  /\ CanResize(regs[h]) /\ newlen # regs[h].len /\ Len(allocs) < MaxAllocs
  /\ LET r == regs[h] IN
     IF r.wrap = "Prot" /\ r.lm = "Locked"
     THEN \* locked: build a new locked region, copy, swap, drop the old one
          LET cap == IF newlen = 0 THEN 0 ELSE VecCap(0, newlen)
              a   == IF newlen = 0 THEN 0 ELSE Len(allocs) + 1
              as0 == IF newlen = 0 THEN allocs ELSE Alloc(allocs, cap)
              n   == [r EXCEPT !.a = a, !.cap = cap, !.len = newlen, !.plen = Min(r.plen, newlen)]
          IN IF ~LockOk(newlen)
             THEN /\ res' = "Panic" /\ regs' = regs /\ budget' = budget
                  /\ allocs' = DropAllocs(as0, [n EXCEPT !.lm = "Unlocked"]) /\ released' = DropRel(released, n)
             ELSE /\ res' = "Ok" /\ budget' = Spend(newlen)
                  /\ allocs' = DropAllocs(KLock(as0, a, newlen, TRUE), r)
                  /\ released' = DropRel(released, r)
                  /\ regs' = [regs EXCEPT ![h] = n]
     ELSE \* plain or unlocked: Vec::resize, which reallocates through the allocator when it outgrows the capacity
          /\ res' = "Ok" /\ budget' = budget
          /\ IF newlen <= r.cap
             THEN /\ regs' = [regs EXCEPT ![h].len = newlen, ![h].plen = Min(r.plen, newlen)]
                  /\ UNCHANGED <<allocs, released>>
             ELSE LET cap == VecCap(r.cap, newlen)
                      a   == Len(allocs) + 1
                      as0 == Alloc(allocs, cap)
                  IN /\ allocs' = IF r.a = 0 THEN as0 ELSE Dealloc(as0, r.a)
                     /\ released' = IF r.a = 0 THEN released ELSE Append(released, Rel(r.a, r.cap))
                     /\ regs' = [regs EXCEPT ![h].len = newlen, ![h].a = a, ![h].cap = cap]

\* write the test pattern over the whole region (needs a mutable view)
Fill(h) ==
  /\ Step(<<"fill", h>>)
  /\ OffersMutView(regs[h]) /\ regs[h].plen # regs[h].len
  /\ regs' = [regs EXCEPT ![h].plen = regs[h].len]
  /\ res' = "Ok" /\ UNCHANGED <<allocs, released, budget>>

(* ---- composite constructors of the object API (C19) -------------------------------------------- *)
\* Result-returning constructors that build several locked fixed-length regions (key pairs, precomputed keys).
\* The object is dropped right after the call, so the net effect is on allocations, releases and the budget:
\* every lock request is reported through the Result - the first refusal yields Err and releases what was built.
CompForms == { [f |-> "KeyPair::new_locked_keypair",                  lens |-> <<32, 32>>],
               [f |-> "KeyPair::gen_locked_keypair",                  lens |-> <<32, 32>>],
               [f |-> "KeyPair::gen_readonly_locked_keypair",         lens |-> <<32, 32>>],
               [f |-> "SigningKeyPair::new_locked_keypair",           lens |-> <<32, 64>>],
               [f |-> "SigningKeyPair::gen_locked_keypair",           lens |-> <<32, 64>>],
               [f |-> "SigningKeyPair::gen_readonly_locked_keypair",  lens |-> <<32, 64>>],
               [f |-> "PrecalcSecretKey::precalculate_locked",        lens |-> <<32>>],
               [f |-> "PrecalcSecretKey::precalculate_readonly_locked", lens |-> <<32>>] }

Composite(cf) ==
  /\ Step(<<"composite", 0, cf.f>>)
  /\ Len(allocs) + Len(cf.lens) <= MaxAllocs
  /\ LET n == Len(cf.lens)
         k == IF budget = 99 \/ budget >= n THEN n ELSE budget          \* lock requests granted
         m == IF k = n THEN n ELSE k + 1                                 \* allocations made before the refusal surfaced
         base == Len(allocs)
         dead(len) == [cap |-> VecCap(0, len), pages |-> [i \in 1..Len(MkPages(VecCap(0, len))) |-> Clean], live |-> FALSE]
         \* on success the fields are dropped in declaration order; on refusal the failing region goes first
         order == IF k = n THEN [i \in 1..m |-> i] ELSE <<m>> \o [i \in 1..(m - 1) |-> i]
     IN /\ res' = IF k = n THEN "Ok" ELSE "Err"
        /\ allocs' = allocs \o [i \in 1..m |-> dead(cf.lens[i])]
        /\ released' = released \o [i \in 1..m |-> Rel(base + order[i], VecCap(0, cf.lens[order[i]]))]
        /\ budget' = IF budget = 99 THEN 99 ELSE budget - k
        /\ UNCHANGED regs

(* ---- decoding into locked containers (serde) under C19 ------------------------------------------ *)
\* Deserialize returns a Result: a refused lock must surface as an error of the decoder, not as a panic.  The object is
\* dropped right after the call and the decoder's transient allocations are not part of the abstract state (the harness
\* checks on its own that each of them was released wiped); only the verdict and the lock budget are modelled.
DeserForms == { [f |-> "json seq -> Locked<HeapByteArray<32>>",   locks |-> 1],
                [f |-> "bincode bytes -> Locked<HeapByteArray<32>>", locks |-> 1],
                [f |-> "json seq -> LockedBytes",                  locks |-> 1],
                [f |-> "bincode bytes -> LockedBytes",             locks |-> 1],
                \* a deserializer that announces the sequence length (size_hint = Some(n): serde's SeqDeserializer, CBOR, MessagePack)
                [f |-> "hinted seq -> Locked<HeapByteArray<32>>",  locks |-> 1],
                [f |-> "hinted seq -> LockedBytes",                locks |-> 1],
                [f |-> "json -> LockedKeyPair",                    locks |-> 2],
                [f |-> "bincode -> LockedKeyPair",                 locks |-> 2] }
Deserialize(df) ==
  /\ Step(<<"deserialize", 0, df.f>>)
  /\ res' = IF budget = 99 \/ budget >= df.locks THEN "Ok" ELSE "Err"
  /\ budget' = IF budget = 99 THEN 99 ELSE IF budget >= df.locks THEN budget - df.locks ELSE 0
  /\ UNCHANGED <<regs, allocs, released>>

\* read the bytes through a shared view (as_slice / Deref / index / as_array)
ReadView(h) ==
  /\ Step(<<"view", h>>)
  /\ OffersReadView(regs[h])
  /\ res' = "Ok" /\ UNCHANGED <<regs, allocs, released, budget>>

Next == \/ \E h \in Handles, fm \in Forms, k \in {"Fixed", "Resizable"}, l \in Lens : Ctor(h, fm, k, l)
        \/ \E h \in Handles : HeapMlock(h) \/ Lock(h) \/ Unlock(h) \/ Drop(h) \/ Fill(h) \/ ReadView(h)
        \/ \E h \in Handles, pm \in {"RW", "RO", "NA"} : Protect(h, pm)
        \/ \E h, g \in Handles : Clone(h, g)
        \/ \E h \in Handles, l \in Lens : Resize(h, l)
        \/ \E cf \in CompForms : Composite(cf)
        \/ \E df \in DeserForms : Deserialize(df)

Spec == Init /\ [][Next]_vars

(* ---- properties ------------------------------------------------------------- *)
Alive == {h \in Handles : regs[h].alive}

\* C14: the kernel's view of every page holding data agrees with the type; guards are in place
TypeKernelAgree ==
  \A h \in Alive : LET r == regs[h] IN
    (r.a # 0) =>
      LET pg == allocs[r.a].pages IN
        /\ allocs[r.a].live /\ allocs[r.a].cap = r.cap /\ r.len <= r.cap
        /\ \A i \in 2..(1 + NPg(r.len)) :
             /\ pg[i].prot = IF r.wrap = "Prot" THEN ProtOf(r.pm) ELSE "rw"
             /\ pg[i].locked = (r.wrap = "Prot" /\ r.lm = "Locked")
        /\ pg[1].prot = "none" /\ pg[Len(pg)].prot = "none"
        \* the guard after the data starts at most one page beyond the end of the allocation
        /\ (Len(pg) - 2) * P <= r.cap + P

\* every live allocation belongs to exactly one live handle; empty regions own none
NoLeak == \A a \in 1..Len(allocs) : allocs[a].live <=> (\E h \in Alive : regs[h].a = a)
OneOwner == \A h, g \in Alive : (h # g /\ regs[h].a # 0) => regs[h].a # regs[g].a

\* C14 last sentence: nothing locked or with altered rights once released
PageClean(p) == p = Clean
NoResidue == \A a \in 1..Len(allocs) : ~allocs[a].live => \A i \in 1..Len(allocs[a].pages) : PageClean(allocs[a].pages[i])

\* pages outside the data range of a live region are never locked or protected
NoStray == \A h \in Alive : regs[h].a # 0 =>
             \A i \in (2 + NPg(regs[h].len))..(Len(allocs[regs[h].a].pages) - 1) : PageClean(allocs[regs[h].a].pages[i])

\* C15: everything given back was wiped over its whole capacity, and every allocation is released exactly once
WipeBeforeRelease == \A i \in 1..Len(released) : ~released[i].nonzero /\ released[i].size = allocs[released[i].a].cap
ReleasedOnce == \A i, j \in 1..Len(released) : released[i].a = released[j].a => i = j
ReleasedIffDead == \A a \in 1..Len(allocs) : (~allocs[a].live) <=> (\E i \in 1..Len(released) : released[i].a = a)

\* transitions do not change contents; clone copies them
ContentsStable ==
  [][\A h \in Handles : (regs[h].alive /\ regs'[h].alive /\ lastop'[1] \in {"mlock", "munlock", "mprotect", "heap_mlock"})
        => (regs'[h].plen = regs[h].plen /\ regs'[h].len = regs[h].len)]_vars
CloneCopies ==
  [][(lastop'[1] = "clone" /\ res' = "Ok") => (regs'[lastop'[3]].plen = regs[lastop'[2]].plen /\ regs'[lastop'[3]].len = regs[lastop'[2]].len
                                                /\ regs'[lastop'[2]] = regs[lastop'[2]])]_vars

\* C19: a refused lock is an error for every Result-returning operation, and it disturbs no other region
ResultOps == {"ctor", "heap_mlock", "mlock", "munlock", "mprotect", "composite", "deserialize"}
RefusalIsError ==
  [][/\ (lastop'[1] \in ResultOps => res' \in {"Ok", "Err"})
     /\ (res' \in {"Err", "Panic"} =>
           \A g \in Handles : (g # lastop'[2]) => regs'[g] = regs[g])
     /\ (res' = "Panic" => regs' = regs)]_vars
OthersUntouched ==
  [][\A g \in Alive : (regs'[g] = regs[g] /\ regs[g].a # 0) => allocs'[regs[g].a] = allocs[regs[g].a]]_vars

View == <<regs, allocs, released, budget, res, lastop>>
=============================================================================
