-------------------------------- MODULE Sign --------------------------------
(***************************************************************************)
(* Ed25519 signing and STRICT verification (property C06; signing part of  *)
(* C08).  Terms:                                                           *)
(*   Sig(seed, msg, mode) = <<R, S>>  the RFC 8032 signature: a FUNCTION   *)
(*                                    of its arguments (deterministic)     *)
(* A presented verification case is classified by how each component was   *)
(* obtained from an honest signature.  Two predicates are kept apart:      *)
(*   Algebraic(c)  the verification equation [S]B = R + [k]A holds         *)
(*   Accept(c)     what strict verification must answer                    *)
(* They differ exactly in the cells strictness is about: S + kL satisfies  *)
(* the equation (the scalar is the same modulo the group order L) but is   *)
(* not canonical; small-order R and A admit equation-satisfying forgeries  *)
(* for arbitrary messages.  TLC enumerates the table and prints it; the    *)
(* harness builds every cell concretely (every bit, every k) and compares  *)
(* dryoc's verdict with the table and with libsodium's.                    *)
(***************************************************************************)
EXTENDS Naturals, Sequences, FiniteSets, TLC, Json

Modes == {"pure", "ph"}                         \* Ed25519 / Ed25519ph (incremental interface)
RClasses == {"honest", "bit_flipped", "small_order", "small_order_forgery"}
SClasses == {"honest", "bit_flipped", "plus_kL", "random_ge_L"}
AClasses == {"honest", "bit_flipped", "small_order", "small_order_forgery"}
MClasses == {"same", "bit_flipped", "truncated", "extended"}
Forms == {"detached", "combined", "SignedMessage", "IncrementalSigner"}

\* how the presented signature was made: in one of the two modes over the message, or - the confusions a verifier with a
\* "compatibility" fallback would fall for - in pure mode over the SHA-512 digest of the message (with or without the
\* dom2 prefix in front of it)
SignModes == Modes \cup {"pure_over_digest", "pure_over_dom2_digest"}
Case == [r : RClasses, s : SClasses, a : AClasses, m : MClasses, signed : SignModes, verified : Modes]

\* "small_order_forgery": R and A small-order points and S = 0 chosen so that the equation holds for every message
Consistent(c) == (c.r = "small_order_forgery") <=> (c.a = "small_order_forgery")

Algebraic(c) ==
  \/ (c.r = "honest" /\ c.s \in {"honest", "plus_kL"} /\ c.a = "honest" /\ c.m = "same" /\ c.signed = c.verified)
  \/ (c.r = "small_order_forgery" /\ c.a = "small_order_forgery" /\ c.s = "honest")     \* S = 0 there

CanonicalS(c)  == c.s \notin {"plus_kL", "random_ge_L"}
SmallOrderR(c) == c.r \in {"small_order", "small_order_forgery"}
SmallOrderA(c) == c.a \in {"small_order", "small_order_forgery"}

Accept(c) == Algebraic(c) /\ CanonicalS(c) /\ ~SmallOrderR(c) /\ ~SmallOrderA(c)

\* C06: accepted iff everything is honest and the mode is the mode it was signed in
OnlyHonestAccepted == \A c \in Case : Consistent(c) =>
   (Accept(c) <=> (c.r = "honest" /\ c.s = "honest" /\ c.a = "honest" /\ c.m = "same" /\ c.signed = c.verified))
\* strictness is not vacuous: there are equation-satisfying cases that must be rejected
StrictnessMatters == \E c \in Case : Consistent(c) /\ Algebraic(c) /\ ~Accept(c)
\* how the incremental interface is given the message: through one update call, through none at all (the empty message:
\* init followed directly by final), or split over two.  The signature is a function of the message, not of the calls
\* (IncHash.tla decides the general partition; here every signing and verifying route of the incremental forms is run
\* under each element, so that a state that is only completed by its first update call is seen)
UpdateCalls == {"one", "none_or_two"}
\* signing is a function: all forms produce Sig(seed, msg, mode)
SigOf(form, seed, msg, mode) == <<"sig", seed, msg, IF form = "IncrementalSigner" THEN "ph" ELSE mode>>
Deterministic == \A f, g \in Forms \ {"IncrementalSigner"}, md \in Modes : SigOf(f, "s", "m", md) = SigOf(g, "s", "m", md)

ASSUME OnlyHonestAccepted /\ StrictnessMatters /\ Deterministic
\* single deviations from an honest signature (plus the forgery family), as the property enumerates them
Single(c) == Cardinality({x \in {c.r, c.s, c.a, c.m} : x \notin {"honest", "same"}}) <= 1 \/ c.r = "small_order_forgery"
\* the confusion modes are presented on their own (no second deviation on top)
Plain(c) == c.r = "honest" /\ c.s = "honest" /\ c.a = "honest" /\ c.m = "same"
ASSUME PrintT(ToJson({[case |-> c, algebraic |-> Algebraic(c), accept |-> Accept(c)] : c \in {d \in Case : Consistent(d) /\ Single(d) /\ (d.signed \notin Modes => Plain(d))}}))

VARIABLE x
Init == x = 0
Next == x' = x
Spec == Init /\ [][Next]_x
=============================================================================
