---------------------------- MODULE SignAlgebra ----------------------------
(***************************************************************************)
(* The algebra behind Sign.tla's table (property C06).  The Edwards curve  *)
(* group is (prime-order subgroup) x (8-torsion); here Z_L x Z_8 with a    *)
(* small odd prime L > 8 standing for the group order, base point <<1,0>>. *)
(* A presented verification case is (R, A, S, k): two points, the scalar   *)
(* half as an integer below 2L (S >= L is the unreduced form S + L) and    *)
(* the hash value k = H(R || A || M) mod L.  TLC enumerates EVERY case and *)
(* checks                                                                  *)
(*   HonestAccepted   what an RFC 8032 signer produces verifies            *)
(*   Unique           at most one S is accepted per (R, A, k): strict      *)
(*                    verification is non-malleable, and it is exactly the *)
(*                    S < L check that makes it so (MalleableWithout)      *)
(*   Classified       every case that satisfies the verification equation  *)
(*                    but must be rejected belongs to a named family       *)
(* and prints the families with a witness each.  The harness must build a  *)
(* concrete generator for every family (c06.py compares the two lists), so *)
(* the forgery families of the conformance check are complete with respect *)
(* to this algebra rather than a list somebody thought of.                 *)
(***************************************************************************)
EXTENDS Naturals, FiniteSets, TLC, Json
CONSTANT L
ASSUME L \in Nat /\ L > 8 /\ \A d \in 2..(L-1) : L % d # 0
H == 8
Point == (0..(L-1)) \X (0..(H-1))
Add(P, Q) == <<(P[1] + Q[1]) % L, (P[2] + Q[2]) % H>>
Mul(n, P) == <<(n * P[1]) % L, (n * P[2]) % H>>
Base == <<1, 0>>
SmallOrder(P) == P[1] = 0                 \* order divides 8
TorsionFree(P) == P[2] = 0

VARIABLE c
Case == [R : Point, A : Point, S : 0..(2*L - 1), k : 0..(L-1)]

Eq(x)        == Mul(x.S, Base) = Add(x.R, Mul(x.k, x.A))                       \* [S]B = R + [k]A
EqCof(x)     == Mul(H, Mul(x.S, Base)) = Mul(H, Add(x.R, Mul(x.k, x.A)))       \* [8][S]B = [8]R + [8][k]A
Canonical(x) == x.S < L
Strict(x)    == Eq(x) /\ Canonical(x) /\ ~SmallOrder(x.R) /\ ~SmallOrder(x.A)
\* RFC 8032: A = [a]B with a # 0, R = [r]B, S = r + k a mod L
Honest(x)    == TorsionFree(x.A) /\ ~SmallOrder(x.A) /\ TorsionFree(x.R) /\ x.S = (x.R[1] + x.k * x.A[1]) % L

HonestAccepted == (Honest(c) /\ ~SmallOrder(c.R)) => Strict(c)
Unique == Strict(c) => \A s \in 0..(2*L - 1) : Strict([c EXCEPT !.S = s]) => s = c.S
\* without the range check the unreduced twin of every accepted signature would be accepted too
MalleableWithout == Strict(c) => (Eq([c EXCEPT !.S = c.S + L]) /\ ~Strict([c EXCEPT !.S = c.S + L]))
\* a cofactored verifier accepts strictly more: the two notions differ only on points with a torsion component
CofactoredIsWeaker == (Eq(c) => EqCof(c)) /\ ((EqCof(c) /\ TorsionFree(c.R) /\ TorsionFree(c.A)) => Eq(c))
\* accepted but not RFC-honest: exactly the mixed-order keys / commitments whose torsion parts cancel
MixedOrder(x) == Strict(x) /\ ~Honest(x)
MixedShape == MixedOrder(c) => (~TorsionFree(c.A) \/ ~TorsionFree(c.R)) /\ (c.R[2] + c.k * c.A[2]) % H = 0

\* ---- the families of equation-satisfying cases that strict verification must reject
Forgery(x) == Eq(x) /\ ~Strict(x)
Family(x) ==
  [s |-> IF Canonical(x) THEN "reduced" ELSE "unreduced",
   r |-> IF ~SmallOrder(x.R) THEN "full" ELSE IF x.R = <<0, 0>> THEN "neutral" ELSE "small",
   a |-> IF ~SmallOrder(x.A) THEN (IF TorsionFree(x.A) THEN "honest" ELSE "mixed") ELSE IF x.A = <<0, 0>> THEN "neutral" ELSE "small"]
Families ==
  { [s |-> s, r |-> r, a |-> a] : s \in {"reduced", "unreduced"}, r \in {"full", "neutral", "small"}, a \in {"honest", "mixed", "neutral", "small"} }
  \ { [s |-> "reduced", r |-> "full", a |-> "honest"], [s |-> "reduced", r |-> "full", a |-> "mixed"] }      \* these are accepted
Classified == Forgery(c) => Family(c) \in Families
\* a forgery against an honest key needs a small-order commitment or an unreduced scalar - nothing else
HonestKeyForgeries == (Forgery(c) /\ TorsionFree(c.A) /\ ~SmallOrder(c.A)) =>
                        (~Canonical(c) \/ (c.R = <<0, 0>> /\ c.S % L = (c.k * c.A[1]) % L))

\* what ONLY a cofactored verifier would accept (nothing else is wrong with the case): strict verification rejects it
CofOnly(x) == EqCof(x) /\ ~Eq(x) /\ Canonical(x) /\ ~SmallOrder(x.R) /\ ~SmallOrder(x.A)
CofShape(x) == IF TorsionFree(x.A) THEN "honest" ELSE "mixed"
CofOnlyRejected == CofOnly(c) => ~Strict(c) /\ (~TorsionFree(c.R) \/ ~TorsionFree(c.A))

Init == c \in Case
Next == UNCHANGED c
Spec == Init /\ [][Next]_c
=============================================================================
