---------------------------- MODULE MCProtected ----------------------------
EXTENDS Protected
\* composite constructors with the same region shapes are one behaviour of the model (the name is only a label):
\* model checking uses one representative per shape (CompForms <- MCCompForms); the generation configurations keep every name
MCCompForms == { [f |-> "KeyPair::new_locked_keypair",            lens |-> <<32, 32>>],
                 [f |-> "SigningKeyPair::new_locked_keypair",     lens |-> <<32, 64>>],
                 [f |-> "PrecalcSecretKey::precalculate_locked",  lens |-> <<32>>] }
\* one decoder per number of lock requests
MCDeserForms == { [f |-> "json seq -> Locked<HeapByteArray<32>>", locks |-> 1], [f |-> "json -> LockedKeyPair", locks |-> 2] }
=============================================================================
