-------------------------------- MODULE Matrix --------------------------------
(***************************************************************************)
(* Build configurations x operation families x containers (property C18).  *)
(* An observable result is a function of (operation, input) only.  The     *)
(* model assigns every cell the implementation that computes it - which    *)
(* BLAKE2b (software / portable SIMD), which SHA-512 (sha2 / sha2 asm),    *)
(* which Curve25519 backend - and states Independence: the value of a cell *)
(* does not depend on that assignment nor on the container holding the     *)
(* bytes.  TLC enumerates the cells whose implementation differs between   *)
(* configurations: those are the cells the transcripts must cover.         *)
(***************************************************************************)
EXTENDS Naturals, FiniteSets, Sequences, TLC, Json

Configs == {"default", "nightly", "nightly_simd", "nightly_release"}
\* the build profile is part of the configuration: in the optimised profile debug assertions and arithmetic overflow checks are
\* compiled out, so whatever the code does only inside a debug_assert!, or only by way of an overflow panic, it does not do there
Profile(c) == IF c = "nightly_release" THEN "optimised (debug assertions and overflow checks off)" ELSE "debug"
Containers(c) == IF c = "default" THEN {"stack", "vec", "array"} ELSE {"stack", "vec", "array", "heap", "locked"}

\* operation family -> primitives it is built on
Uses == [ generichash |-> {"blake2b"}, generichash_incremental |-> {"blake2b"}, kdf |-> {"blake2b"}, kx_session |-> {"blake2b", "curve25519"},
          kx_seed_keypair |-> {"blake2b", "curve25519"}, sealed_box_nonce |-> {"blake2b", "curve25519"}, pwhash |-> {"blake2b"},
          sha512 |-> {"sha512"}, auth |-> {"sha512"}, sign |-> {"sha512", "curve25519"}, box_seed_keypair |-> {"sha512", "curve25519"},
          box |-> {"curve25519"}, scalarmult |-> {"curve25519"}, container_resize |-> {"container"} ]
Ops == DOMAIN Uses

Backend(c, prim) == CASE prim = "blake2b"    -> IF c = "nightly_simd" THEN "blake2b_simd.rs" ELSE "blake2b_soft.rs"
                      [] prim = "sha512"     -> IF c = "nightly_simd" THEN "sha2 (asm)" ELSE "sha2"
                      [] prim = "container"  -> IF c = "default" THEN "Vec, stack arrays" ELSE "Vec, stack arrays, page-aligned heap, locked regions"
                      [] prim = "curve25519" -> IF c = "nightly_simd" THEN "curve25519-dalek (simd backend when available)" ELSE "curve25519-dalek (serial)"

\* the abstract value of a cell: by specification it mentions neither the configuration nor the container
Value(op, input) == <<op, input>>
Observed(c, cont, op, input) == Value(op, input)
Independence == \A c1, c2 \in Configs, op \in Ops : \A k1 \in Containers(c1), k2 \in Containers(c2) :
                   Observed(c1, k1, op, "x") = Observed(c2, k2, op, "x")
\* cells whose computation actually differs between two configurations (what the transcripts must exercise)
Differs(op) == \E c1, c2 \in Configs, p \in Uses[op] : Backend(c1, p) # Backend(c2, p) \/ Profile(c1) # Profile(c2)
AllOpsDiffer == \A op \in Ops : Differs(op)
ASSUME Independence /\ AllOpsDiffer
ASSUME PrintT(ToJson([ops |-> {[op |-> op, prims |-> Uses[op]] : op \in Ops}, configs |-> {[config |-> c, containers |-> Containers(c), profile |-> Profile(c)] : c \in Configs}]))

VARIABLE x
Init == x = 0
Next == x' = x
Spec == Init /\ [][Next]_x
=============================================================================
