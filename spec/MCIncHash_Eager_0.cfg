SPECIFICATION Spec
CONSTANTS
  Mode = "Eager"
  B = 16
  Key = 0
  Tmax = 400
INVARIANTS TypeOK Refines Discipline SameCalls PrefixCalls BufIsFunctionOfT
CHECK_DEADLOCK FALSE
