---------------------------- MODULE GenProtected ----------------------------
(***************************************************************************)
(* Behaviour generation for replay (spec -> impl) of Protected.tla.  Every *)
(* behaviour of the bounded model is emitted with, after each operation,   *)
(* the complete state the specification predicts: result, the type state   *)
(* of both handles, the page table of every allocation made so far (live   *)
(* or released) and the release events.  The harness executes the          *)
(* operations on the real containers and compares each prediction with     *)
(* /proc/self/smaps, the allocator observers and the bytes.                *)
(* Canonical form: handle 1 is created first (handles are symmetric).      *)
(***************************************************************************)
EXTENDS Protected, Json
CONSTANT Focus     \* "all" | "refuse" (two lengths; the OS refuses locks) | "wipe" (resize/clone/drop histories of data-carrying containers, deeper)
VARIABLE log
gvars == <<vars, log>>

PgCode(p) == (CASE p.prot = "rw" -> 0 [] p.prot = "r" -> 1 [] p.prot = "none" -> 2) + (IF p.locked THEN 4 ELSE 0)
RegOut(r) == IF r.alive THEN [kind |-> r.kind, wrap |-> r.wrap, pm |-> r.pm, lm |-> r.lm, len |-> r.len, plen |-> r.plen, a |-> r.a, cap |-> r.cap]
             ELSE [kind |-> "dead"]
Obs == [regs |-> [h \in Handles |-> RegOut(regs[h])],
        allocs |-> [a \in 1..Len(allocs) |-> [cap |-> allocs[a].cap, live |-> allocs[a].live,
                                              pages |-> [i \in 1..Len(allocs[a].pages) |-> PgCode(allocs[a].pages[i])]]],
        rel |-> [i \in 1..Len(released) |-> <<released[i].a, released[i].size>>]]

GInit == Init /\ log = <<[op |-> <<"init", budget>>]>>
\* handle 2 is never created first, and when constructed directly it is one representative region
\* (its role is "the other region": clone target, bystander of a refusal)
Canon == /\ lastop'[1] # "view"      \* contents are compared after every step anyway
         /\ regs'[2].alive => (regs[1].alive \/ regs[2].alive)
         /\ (lastop'[1] = "ctor" /\ lastop'[2] = 2) => (lastop'[3] = "from_slice_into_readonly_locked" /\ lastop'[4] = "Resizable" /\ lastop'[5] = 4097)
\* composite constructors matter where locks can be refused; elsewhere one representative keeps the graph small
\* decoders matter where locks can be refused, as the first or second operation
DeserFocus == (lastop'[1] = "deserialize") => (Focus = "refuse" /\ nops <= 1 /\ (nops = 1 => (lastop[1] = "ctor" /\ lastop[3] \in {"new_locked", "from_slice_into_readonly_locked"})))
\* what follows a decoder call is a probe of the aftermath only (another decoder, or a fresh locked array)
AfterDeser == (lastop[1] = "deserialize") => (lastop'[1] = "deserialize" \/ (lastop'[1] = "ctor" /\ lastop'[3] = "new_locked" /\ lastop'[4] = "Fixed"))
CompFocus == (lastop'[1] = "composite") => ((Focus = "refuse" /\ nops <= 1 /\ (nops = 1 => lastop[1] # "composite")) \/ (Focus = "all" /\ lastop'[3] = "KeyPair::gen_locked_keypair" /\ nops = 0))
WipeFocus == Focus = "wipe" =>
  /\ lastop'[1] \in {"ctor", "resize", "clone", "drop", "fill", "munlock", "heap_mlock"}
  /\ lastop'[1] = "ctor" => (lastop'[3] \in {"heap", "from_slice_into_locked"} /\ lastop'[5] \in {16, 4097})
  /\ lastop'[1] = "resize" => lastop'[3] \in {1, 64, 4096, 8193}
\* blocks of 16 pages and more (allocators treat large blocks differently): resizable containers only
WipeLargeFocus == Focus = "wipe_large" =>
  /\ lastop'[1] \in {"ctor", "resize", "clone", "drop", "fill", "munlock", "heap_mlock"}
  /\ lastop'[1] = "ctor" => (lastop'[3] \in {"heap", "from_slice_into_locked"} /\ lastop'[4] = "Resizable" /\ lastop'[5] \in {65536, 100000})
  /\ lastop'[1] = "resize" => lastop'[3] \in {16, 65536, 70000, 131072}
RefuseFocus == Focus = "refuse" => (lastop'[1] = "ctor" => lastop'[5] \in {16, 4097})
\* lock requests the KERNEL refuses (a no-access region cannot be faulted in): one handle, lock-related operations only, deeper
NaFocus == Focus = "refuse_na" =>
  /\ lastop'[1] \in {"ctor", "munlock", "mprotect", "mlock", "heap_mlock", "drop"}
  /\ lastop'[2] = 1
  /\ (lastop'[1] = "ctor" => (lastop'[3] \in {"new_locked", "heap", "from_slice_into_readonly_locked"} /\ lastop'[5] \in {16, 4097}))
GNext == Next /\ NaFocus /\ WipeLargeFocus /\ Canon /\ WipeFocus /\ RefuseFocus /\ CompFocus /\ DeserFocus /\ AfterDeser /\ log' = Append(log, [op |-> lastop', res |-> res', obs |-> Obs'])
GSpec == GInit /\ [][GNext]_gvars

Emit == (nops = MaxOps) => PrintT(ToJson(log))
=============================================================================
