SPECIFICATION Spec
CONSTANT L = 11
INVARIANTS HonestAccepted Unique MalleableWithout CofactoredIsWeaker MixedShape Classified HonestKeyForgeries CofOnlyRejected
CHECK_DEADLOCK FALSE
