---------------------------- MODULE IncHashTrace ----------------------------
(* Trace validation for IncHash: events recorded from the real incremental   *)
(* interfaces (buffer fill and byte counter through hook H3) must be a       *)
(* behaviour of the buffering model.                                         *)
EXTENDS IncHash, Json, IOUtils
Rec == ndJsonDeserialize(IOEnv.TRACE)
VARIABLE l
tvars == <<vars, l>>
IsEv(e) == l <= Len(Rec) /\ Rec[l].ev = e /\ l' = l + 1
TInit == Init /\ l = 1
TReset == /\ IsEv("reset")
          /\ T' = Key /\ b' = Key /\ boff' = 0 /\ calls' = <<>> /\ done' = FALSE /\ n' = 0
TUpdate == /\ IsEv("update") /\ Update(Rec[l].n)
           /\ b' = Rec[l].buf
           \* the byte counter the code has passed to its compressions so far (BLAKE2b only; -1 = not observable)
           /\ (Rec[l].ctr >= 0 => Rec[l].ctr = boff')
TFinal == /\ IsEv("final") /\ Final /\ Rec[l].eq
TNext == TReset \/ TUpdate \/ TFinal
TSpec == TInit /\ [][TNext]_tvars
Accepted == LET d == TLCGet("stats").diameter IN
   IF d - 1 = Len(Rec) THEN TRUE ELSE PrintT(<<"REJECT at event", d, Rec[d]>>) /\ FALSE
=============================================================================
