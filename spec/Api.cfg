SPECIFICATION Spec
