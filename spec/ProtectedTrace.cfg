SPECIFICATION TSpec
CONSTANTS
  P = 4096
  Lens = {0, 1, 16, 32, 64, 4095, 4096, 4097, 8192, 8193}
  Handles = {1, 2}
  MaxAllocs = 1000000
  MaxOps = 1000000
  Budgets = {99}
INVARIANTS TypeKernelAgree NoLeak OneOwner NoResidue NoStray WipeBeforeRelease ReleasedOnce ReleasedIffDead
POSTCONDITION Accepted
CHECK_DEADLOCK FALSE
