/* LD_PRELOAD interposer for C19: the first `allow` calls to mlock() reach the kernel, all later ones
 * are refused with ENOMEM.  allow < 0 disables the refusal.  Controlled from the harness through
 * mlockfail_set(); MLOCK_ALLOW in the environment sets the initial value. */
#define _GNU_SOURCE
#include <dlfcn.h>
#include <errno.h>
#include <stdlib.h>
#include <stddef.h>
static int allow = -1, calls = 0, init = 0;
void mlockfail_set(int n) { allow = n; calls = 0; init = 1; }
int mlockfail_calls(void) { return calls; }
int mlock(const void *addr, size_t len) {
    static int (*real)(const void *, size_t) = 0;
    if (!real) real = dlsym(RTLD_NEXT, "mlock");
    if (!init) { const char *e = getenv("MLOCK_ALLOW"); if (e) allow = atoi(e); init = 1; }
    calls++;
    if (allow >= 0 && calls > allow) { errno = ENOMEM; return -1; }
    return real(addr, len);
}
