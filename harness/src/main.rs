mod common;
mod stream;
mod matrix;
mod codec;
mod rng;
mod sign;
mod prims;
mod pwstr;
mod untrusted;
mod aead;
mod inchash;
#[cfg(feature = "nightly")]
mod prot;

/// Largest single allocation request since the last reset (C04: "absurd allocation").
pub static MAXALLOC: std::sync::atomic::AtomicUsize = std::sync::atomic::AtomicUsize::new(0);
struct Counting;
unsafe impl std::alloc::GlobalAlloc for Counting {
    unsafe fn alloc(&self, l: std::alloc::Layout) -> *mut u8 {
        MAXALLOC.fetch_max(l.size(), std::sync::atomic::Ordering::Relaxed);
        std::alloc::System.alloc(l)
    }
    unsafe fn dealloc(&self, p: *mut u8, l: std::alloc::Layout) {
        std::alloc::System.dealloc(p, l)
    }
    unsafe fn realloc(&self, p: *mut u8, l: std::alloc::Layout, n: usize) -> *mut u8 {
        MAXALLOC.fetch_max(n, std::sync::atomic::Ordering::Relaxed);
        std::alloc::System.realloc(p, l, n)
    }
    unsafe fn alloc_zeroed(&self, l: std::alloc::Layout) -> *mut u8 {
        MAXALLOC.fetch_max(l.size(), std::sync::atomic::Ordering::Relaxed);
        std::alloc::System.alloc_zeroed(l)
    }
}
#[global_allocator]
static GLOBAL: Counting = Counting;

fn main() {
    let args: Vec<String> = std::env::args().skip(1).collect();
    if args.is_empty() {
        eprintln!("usage: conform <command> [args]");
        std::process::exit(2);
    }
    if std::env::var("CONFORM_PANIC").is_err() {
        common::silence_panics();
    }
    common::sodium_init();
    let rest = &args[1..];
    // a panic that no family of the harness catches ends the run; it is reported with its location so that the checks can tell a
    // panic raised inside dryoc (data: a violation) from one of the harness itself (a tool error)
    let r = std::panic::catch_unwind(std::panic::AssertUnwindSafe(|| dispatch(&args[0], rest)));
    if r.is_err() {
        let w = common::LAST_PANIC.lock().map(|g| g.clone()).unwrap_or_default();
        eprintln!("uncaught: panicked at {}", w);
        std::process::exit(101);
    }
}

fn dispatch(cmd: &str, rest: &[String]) {
    match cmd {
        "stream-replay" => stream::cmd_replay(rest),
        "stream-trace" => stream::cmd_trace(rest),
        "stream-tamper" => stream::cmd_tamper(rest),
        "stream-session" => stream::cmd_session(rest),
        "stream-vectors" => stream::cmd_vectors(rest),
        "aead-roundtrip" => aead::cmd_roundtrip(rest),
        "aead-tamper" => aead::cmd_tamper(rest),
        "aead-vectors" => aead::cmd_vectors(rest),
        "untrusted" => untrusted::cmd_untrusted(rest),
        "untrusted-tags" => untrusted::cmd_tags(rest),
        "untrusted-pwstr" => untrusted::cmd_pwstr(rest),
        "pwstr" => pwstr::cmd_pwstr(rest),
        "prims-vectors" => prims::cmd_vectors(rest),
        "prims-sweep-c07" => prims::cmd_sweep_c07(rest),
        "prims-sweep-c12" => prims::cmd_sweep_c12(rest),
        "prims-sweep-c05" => prims::cmd_sweep_c05(rest),
        "prims-sweep-c13" => prims::cmd_sweep_c13(rest),
        "prims-sweep-c09" => prims::cmd_sweep_c09(rest),
        "e2e" => prims::cmd_e2e(rest),
        "sign" => sign::cmd_sign(rest),
        "rng-list" => rng::cmd_list(rest),
        "rng-trace" => rng::cmd_trace(rest),
        "codec" => codec::cmd_codec(rest),
        "transcript" => matrix::cmd_transcript(rest),
        "inc-splits" => inchash::cmd_splits(rest),
        "inc-replay" => inchash::cmd_replay(rest),
        "inc-trace" => inchash::cmd_trace(rest),
        "inc-params" => inchash::cmd_params(rest),
        #[cfg(feature = "nightly")]
        "prot-replay" => prot::cmd_replay(rest),
        #[cfg(feature = "nightly")]
        "prot-trace" => prot::cmd_trace(rest),
        other => {
            eprintln!("unknown command {}", other);
            std::process::exit(2);
        }
    }
}
