mod common;
mod stream;
mod aead;
mod inchash;
#[cfg(feature = "nightly")]
mod prot;

fn main() {
    let args: Vec<String> = std::env::args().skip(1).collect();
    if args.is_empty() {
        eprintln!("usage: conform <command> [args]");
        std::process::exit(2);
    }
    common::silence_panics();
    common::sodium_init();
    let rest = &args[1..];
    match args[0].as_str() {
        "stream-replay" => stream::cmd_replay(rest),
        "stream-trace" => stream::cmd_trace(rest),
        "stream-tamper" => stream::cmd_tamper(rest),
        "aead-roundtrip" => aead::cmd_roundtrip(rest),
        "aead-tamper" => aead::cmd_tamper(rest),
        "inc-splits" => inchash::cmd_splits(rest),
        "inc-replay" => inchash::cmd_replay(rest),
        "inc-trace" => inchash::cmd_trace(rest),
        #[cfg(feature = "nightly")]
        "prot-replay" => prot::cmd_replay(rest),
        other => {
            eprintln!("unknown command {}", other);
            std::process::exit(2);
        }
    }
}
