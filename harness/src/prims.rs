//! C07 / C12 / C05 / C13 / C09: primitives against two independent references — the values computed by TLC
//! from spec/ref (vector files) and libsodium — plus sweeps over every length / parameter class.
#![allow(unused_imports)]
use crate::common::*;
use dryoc::classic::{crypto_auth as ca, crypto_box as cb, crypto_core as cc, crypto_generichash as cg, crypto_hash as ch, crypto_kdf as ck,
                     crypto_kx as ckx, crypto_onetimeauth as co, crypto_pwhash as cp, crypto_shorthash as csh, crypto_sign as csg, crypto_sign_ed25519 as ced};
use dryoc::types::*;
use libsodium_sys as so;
use serde_json::{json, Value};
use std::io::BufRead;

fn bytes(v: &Value) -> Vec<u8> {
    v.as_array().map(|a| a.iter().map(|x| x.as_u64().unwrap_or(0) as u8).collect()).unwrap_or_default()
}
fn a16(b: &[u8]) -> [u8; 16] { let mut a = [0u8; 16]; a.copy_from_slice(&b[..16]); a }
fn a32(b: &[u8]) -> [u8; 32] { let mut a = [0u8; 32]; a.copy_from_slice(&b[..32]); a }
fn a8(b: &[u8]) -> [u8; 8] { let mut a = [0u8; 8]; a.copy_from_slice(&b[..8]); a }

// ------------------------------------------------------------------------------------------ implementations
/// every dryoc route to a primitive, by name; Err(text) = the call failed
type Impls = Vec<(String, Result<Vec<u8>, String>)>;

fn words(c: [u8; 16]) -> (u32, u32, u32, u32) {
    let w = |i: usize| u32::from_le_bytes([c[4 * i], c[4 * i + 1], c[4 * i + 2], c[4 * i + 3]]);
    (w(0), w(1), w(2), w(3))
}
fn es(e: dryoc::Error) -> String { format!("{:?}", e) }

pub fn generichash(msg: &[u8], key: &[u8], outlen: usize) -> (Impls, Option<Vec<u8>>) {
    let k = if key.is_empty() { None } else { Some(key) };
    let mut v: Impls = vec![];
    v.push(("crypto_generichash".into(), { let mut o = vec![0u8; outlen]; cg::crypto_generichash(&mut o, msg, k).map(|_| o).map_err(es) }));
    v.push(("crypto_generichash_init/update/final".into(), (|| { let mut st = cg::crypto_generichash_init(k, outlen).map_err(es)?; cg::crypto_generichash_update(&mut st, msg);
        let mut o = vec![0u8; outlen]; cg::crypto_generichash_final(st, &mut o).map_err(es)?; Ok(o) })()));
    if outlen == 32 && key.len() == 32 {
        v.push(("GenericHash<32,32>::hash_to_vec".into(), dryoc::generichash::GenericHash::<32, 32>::hash_to_vec(&msg.to_vec(), Some(&a32(key))).map_err(es)));
    }
    if outlen == 64 && key.is_empty() {
        v.push(("GenericHash<32,64>::hash_to_vec".into(), dryoc::generichash::GenericHash::<32, 64>::hash_to_vec::<_, [u8; 32]>(&msg.to_vec(), None).map_err(es)));
    }
    let mut r = vec![0u8; outlen];
    let rc = unsafe { so::crypto_generichash(r.as_mut_ptr(), outlen, msg.as_ptr(), msg.len() as u64, if key.is_empty() { std::ptr::null() } else { key.as_ptr() }, key.len()) };
    (v, if rc == 0 { Some(r) } else { None })
}
pub fn sha512(msg: &[u8]) -> (Impls, Option<Vec<u8>>) {
    let mut v: Impls = vec![];
    v.push(("crypto_hash_sha512".into(), { let mut o = [0u8; 64]; ch::crypto_hash_sha512(&mut o, msg); Ok(o.to_vec()) }));
    v.push(("Sha512::compute_to_vec".into(), Ok(dryoc::sha512::Sha512::compute_to_vec(msg))));
    let mut r = vec![0u8; 64];
    unsafe { so::crypto_hash_sha512(r.as_mut_ptr(), msg.as_ptr(), msg.len() as u64) };
    (v, Some(r))
}
pub fn auth(key: &[u8; 32], msg: &[u8]) -> (Impls, Option<Vec<u8>>) {
    let mut v: Impls = vec![];
    v.push(("crypto_auth".into(), { let mut o = [0u8; 32]; ca::crypto_auth(&mut o, msg, key); Ok(o.to_vec()) }));
    v.push(("Auth::compute_to_vec".into(), Ok(dryoc::auth::Auth::compute_to_vec(*key, &msg.to_vec()))));
    let mut r = vec![0u8; 32];
    unsafe { so::crypto_auth(r.as_mut_ptr(), msg.as_ptr(), msg.len() as u64, key.as_ptr()) };
    (v, Some(r))
}
pub fn onetimeauth(key: &[u8; 32], msg: &[u8]) -> (Impls, Option<Vec<u8>>) {
    let mut v: Impls = vec![];
    v.push(("crypto_onetimeauth".into(), { let mut o = [0u8; 16]; co::crypto_onetimeauth(&mut o, msg, key); Ok(o.to_vec()) }));
    v.push(("OnetimeAuth::compute_to_vec".into(), Ok(dryoc::onetimeauth::OnetimeAuth::compute_to_vec(*key, &msg.to_vec()))));
    v.push(("crypto_onetimeauth_init/update/final".into(), { let mut st = co::crypto_onetimeauth_init(key); co::crypto_onetimeauth_update(&mut st, msg); let mut o = [0u8; 16]; co::crypto_onetimeauth_final(st, &mut o); Ok(o.to_vec()) }));
    let mut r = vec![0u8; 16];
    unsafe { so::crypto_onetimeauth(r.as_mut_ptr(), msg.as_ptr(), msg.len() as u64, key.as_ptr()) };
    (v, Some(r))
}
pub fn shorthash(key: &[u8; 16], msg: &[u8]) -> (Impls, Option<Vec<u8>>) {
    let mut v: Impls = vec![];
    v.push(("crypto_shorthash".into(), { let mut o = [0u8; 8]; csh::crypto_shorthash(&mut o, msg, key); Ok(o.to_vec()) }));
    let mut r = vec![0u8; 8];
    unsafe { so::crypto_shorthash(r.as_mut_ptr(), msg.as_ptr(), msg.len() as u64, key.as_ptr()) };
    (v, Some(r))
}
pub fn hsalsa(key: &[u8; 32], input: &[u8; 16], c: Option<[u8; 16]>) -> (Impls, Option<Vec<u8>>) {
    let mut v: Impls = vec![];
    v.push(("crypto_core_hsalsa20".into(), { let mut o = [0u8; 32]; cc::crypto_core_hsalsa20(&mut o, input, key, c.map(words)); Ok(o.to_vec()) }));
    let mut r = vec![0u8; 32];
    unsafe { so::crypto_core_hsalsa20(r.as_mut_ptr(), input.as_ptr(), key.as_ptr(), c.as_ref().map(|x| x.as_ptr()).unwrap_or(std::ptr::null())) };
    (v, Some(r))
}
pub fn hchacha(key: &[u8; 32], input: &[u8; 16], c: Option<[u8; 16]>) -> (Impls, Option<Vec<u8>>) {
    let mut v: Impls = vec![];
    v.push(("crypto_core_hchacha20".into(), { let mut o = [0u8; 32]; cc::crypto_core_hchacha20(&mut o, input, key, c.map(words)); Ok(o.to_vec()) }));
    let mut r = vec![0u8; 32];
    unsafe { so::crypto_core_hchacha20(r.as_mut_ptr(), input.as_ptr(), key.as_ptr(), c.as_ref().map(|x| x.as_ptr()).unwrap_or(std::ptr::null())) };
    (v, Some(r))
}
pub fn increment(b: &[u8]) -> (Impls, Option<Vec<u8>>) {
    let mut v: Impls = vec![];
    v.push(("utils::increment_bytes".into(), { let mut x = b.to_vec(); dryoc::utils::increment_bytes(&mut x); Ok(x) }));
    v.push(("utils::sodium_increment".into(), { let mut x = b.to_vec(); dryoc::utils::sodium_increment(&mut x); Ok(x) }));
    let mut r = b.to_vec();
    unsafe { so::sodium_increment(r.as_mut_ptr(), r.len()) };
    (v, Some(r))
}
pub fn kdf(outlen: usize, id: u64, ctx: &[u8; 8], key: &[u8; 32]) -> (Impls, Option<Vec<u8>>) {
    let mut v: Impls = vec![];
    v.push(("crypto_kdf_derive_from_key".into(), { let mut o = vec![0u8; outlen]; ck::crypto_kdf_derive_from_key(&mut o, id, ctx, key).map(|_| o).map_err(es) }));
    if outlen == 32 {
        let k: dryoc::kdf::Kdf<StackByteArray<32>, StackByteArray<8>> = dryoc::kdf::Kdf::from_parts(StackByteArray::from(key), StackByteArray::from(ctx));
        v.push(("Kdf::derive_subkey_to_vec".into(), k.derive_subkey_to_vec(id).map_err(es)));
    }
    let mut r = vec![0u8; outlen];
    let rc = unsafe { so::crypto_kdf_derive_from_key(r.as_mut_ptr(), outlen, id, ctx.as_ptr() as *const _, key.as_ptr()) };
    (v, if rc == 0 { Some(r) } else { None })
}
/// X25519(scalar, point); libsodium returns None when it refuses (all-zero result)
pub fn x25519(n: &[u8; 32], p: &[u8; 32]) -> (Impls, Option<Vec<u8>>, bool) {
    let mut v: Impls = vec![];
    v.push(("crypto_scalarmult".into(), { let mut q = [0u8; 32]; cc::crypto_scalarmult(&mut q, n, p); Ok(q.to_vec()) }));
    let mut r = vec![0u8; 32];
    let rc = unsafe { so::crypto_scalarmult(r.as_mut_ptr(), n.as_ptr(), p.as_ptr()) };
    // libsodium computes the value even when it reports the all-zero result with -1
    (v, Some(r), rc == 0)
}
pub fn x25519base(n: &[u8; 32]) -> (Impls, Option<Vec<u8>>) {
    let mut v: Impls = vec![];
    v.push(("crypto_scalarmult_base".into(), { let mut q = [0u8; 32]; cc::crypto_scalarmult_base(&mut q, n); Ok(q.to_vec()) }));
    v.push(("KeyPair::from_secret_key".into(), { let kp: dryoc::dryocbox::KeyPair = dryoc::keypair::KeyPair::from_secret_key(StackByteArray::from(n)); Ok(kp.public_key.as_slice().to_vec()) }));
    let mut r = vec![0u8; 32];
    unsafe { so::crypto_scalarmult_base(r.as_mut_ptr(), n.as_ptr()) };
    (v, Some(r))
}
pub fn argon2(ty: u64, pwd: &[u8], salt: &[u8], t: u64, mkib: u64, outlen: usize) -> (Impls, Option<Vec<u8>>) {
    let alg = if ty == 1 { cp::PasswordHashAlgorithm::Argon2i13 } else { cp::PasswordHashAlgorithm::Argon2id13 };
    let mut v: Impls = vec![];
    v.push(("crypto_pwhash".into(), match catch(|| { let mut o = vec![0u8; outlen]; cp::crypto_pwhash(&mut o, pwd, salt, t, (mkib as usize) * 1024, alg).map(|_| o).map_err(es) }) { Ok(r) => r, Err(p) => Err(format!("PANIC {}", p)) }));
    // libsodium: 16-byte salts only; Argon2i needs t >= 3; outlen >= 16
    let mut r = vec![0u8; outlen];
    let ok = salt.len() == 16 && outlen >= 16 && !(ty == 1 && t < 3) && mkib >= 8;
    let rc = if ok { unsafe { so::crypto_pwhash(r.as_mut_ptr(), outlen as u64, pwd.as_ptr() as *const _, pwd.len() as u64, salt.as_ptr(), t, (mkib as usize) * 1024, ty as i32) } } else { -1 };
    (v, if rc == 0 { Some(r) } else { None })
}

fn compare(rep: &mut Report, what: &str, imps: Impls, refs: &[(&str, Option<&Vec<u8>>)], detail: Value) {
    for (name, got) in imps {
        rep.evaluations += 1;
        match got {
            Ok(g) => {
                for (rn, r) in refs {
                    if let Some(r) = r {
                        if &g != *r {
                            rep.fail(&format!("{}: {} differs from {}", what, name, rn), json!({"input": detail, "got": hex(&g), "reference": hex(r)}));
                        }
                    }
                }
            }
            Err(e) => rep.fail(&format!("{}: {} failed on accepted input", what, name), json!({"input": detail, "error": e})),
        }
    }
}

/// `prims-vectors <vectors.ndjson> <out.json>`: each line {fn, operands, out (value computed by TLC from spec/ref)}
pub fn cmd_vectors(args: &[String]) {
    let mut rep = Report::new();
    for line in std::io::BufReader::new(std::fs::File::open(&args[0]).unwrap()).lines() {
        let j: Value = serde_json::from_str(&line.unwrap()).unwrap();
        let tlc = bytes(&j["out"]);
        let f = j["fn"].as_str().unwrap();
        let brief = json!({"fn": f, "len": j["msg"].as_array().map(|a| a.len()), "tag": j["tag"], "outlen": j["outlen"], "keylen": j["key"].as_array().map(|a| a.len())});
        rep.count(&format!("vectors:{}", f));
        let (imps, sod) = match f {
            "blake2b" => generichash(&bytes(&j["msg"]), &bytes(&j["key"]), j["outlen"].as_u64().unwrap() as usize),
            "sha512" => sha512(&bytes(&j["msg"])),
            "hmacsha512256" => auth(&a32(&bytes(&j["key"])), &bytes(&j["msg"])),
            "poly1305" => onetimeauth(&a32(&bytes(&j["key"])), &bytes(&j["msg"])),
            "siphash24" => shorthash(&a16(&bytes(&j["key"])), &bytes(&j["msg"])),
            "hsalsa20" => { let c = bytes(&j["const"]); hsalsa(&a32(&bytes(&j["key"])), &a16(&bytes(&j["input"])), if c.len() == 16 { Some(a16(&c)) } else { None }) }
            "hchacha20" => { let c = bytes(&j["const"]); hchacha(&a32(&bytes(&j["key"])), &a16(&bytes(&j["input"])), if c.len() == 16 { Some(a16(&c)) } else { None }) }
            "increment" => increment(&bytes(&j["msg"])),
            "kdf" => kdf(j["outlen"].as_u64().unwrap() as usize, u64::from_le_bytes(a8(&bytes(&j["subkey_id"]))), &a8(&bytes(&j["ctx"])), &a32(&bytes(&j["key"]))),
            "x25519" => { let (i, s, _) = x25519(&a32(&bytes(&j["scalar"])), &a32(&bytes(&j["point"]))); (i, s) }
            "x25519base" => x25519base(&a32(&bytes(&j["scalar"]))),
            "argon2" => argon2(j["type"].as_u64().unwrap(), &bytes(&j["pwd"]), &bytes(&j["salt"]), j["t"].as_u64().unwrap(), j["m"].as_u64().unwrap(), j["outlen"].as_u64().unwrap() as usize),
            "secretbox" => { let o = crate::aead::mk_ops_fixed(&a32(&bytes(&j["key"])), &bytes(&j["nonce"]), &bytes(&j["msg"])); crate::aead::secretbox_impls(&o) }
            other => { rep.fail("HARNESS: unknown function in vector file", json!(other)); continue; }
        };
        // the two references must agree with each other, or the vector proves nothing
        if let Some(s) = &sod {
            if s != &tlc { rep.fail(&format!("{}: the TLA+ reference and libsodium disagree (specification error)", f), json!({"input": brief, "tlc": hex(&tlc), "sodium": hex(s)})); continue; }
        }
        if rep.samples.len() < 4 && rep.counters.get(&format!("vectors:{}", f)) == Some(&1) { rep.sample(json!({"vector": brief, "value": hex(&tlc)})); }
        compare(&mut rep, f, imps, &[("the TLA+ reference", Some(&tlc)), ("libsodium", sod.as_ref())], brief);
    }
    rep.write(&args[1]);
}

// ------------------------------------------------------------------------------------------ C07 sweep
fn flip_all<F: Fn(&[u8]) -> bool>(rep: &mut Report, what: &str, tag: &[u8], verify: F, detail: Value) {
    rep.evaluations += 1;
    if !verify(tag) { rep.fail(&format!("{}: correct authenticator rejected", what), detail.clone()); }
    for bit in 0..tag.len() * 8 {
        let mut t = tag.to_vec();
        t[bit / 8] ^= 1 << (bit % 8);
        rep.evaluations += 1;
        if verify(&t) { rep.fail(&format!("{}: accepts an authenticator with one bit changed", what), json!({"input": detail, "bit": bit})); }
    }
}

/// `prims-sweep-c07 <out.json> <seed> <maxlen> <first> <stride>`: dryoc = libsodium on every length, every
/// digest/key length pair at the extremes, adversarial blocks; verify functions.
pub fn cmd_sweep_c07(args: &[String]) {
    let seed: u64 = args[1].parse().unwrap();
    let maxlen: usize = args[2].parse().unwrap();
    let first: usize = args[3].parse().unwrap();
    let stride: usize = args[4].parse().unwrap();
    let mut rng = Rng::new(seed ^ 0xc07);
    let mut rep = Report::new();
    for len in 0..=maxlen {
        let fillers: [Vec<u8>; 3] = [rng.bytes(len), vec![0xffu8; len], vec![0u8; len]];
        let key32: [u8; 32] = rng.arr();
        let key16: [u8; 16] = rng.arr();
        let klen = 16 + (rng.below(49) as usize);
        let outl = 16 + (rng.below(49) as usize);
        let gk = rng.bytes(64);
        if len % stride != first { continue; }
        for (fi, msg) in fillers.iter().enumerate() {
            let fname = ["random", "0xff", "zero"][fi]; let d = json!({"len": len, "filler": fname, "seed": seed});
            // generic hash: every digest/key extreme plus one random pair per length
            let pairs: Vec<(usize, usize)> = if fi == 0 { vec![(32, 0), (16, 0), (64, 0), (16, 16), (64, 64), (32, 32), (17, 33), (outl, klen), (outl, 0)] } else { vec![(32, 0), (64, 64)] };
            for (ol, kl) in pairs {
                let (i, s) = generichash(msg, &gk[..kl], ol);
                compare(&mut rep, "generichash", i, &[("libsodium", s.as_ref())], json!({"len": len, "outlen": ol, "keylen": kl, "filler": fi, "seed": seed}));
            }
            let (i, s) = sha512(msg); compare(&mut rep, "sha512", i, &[("libsodium", s.as_ref())], d.clone());
            let (i, s) = auth(&key32, msg); compare(&mut rep, "auth", i, &[("libsodium", s.as_ref())], d.clone());
            let (i, s) = shorthash(&key16, msg); compare(&mut rep, "shorthash", i, &[("libsodium", s.as_ref())], d.clone());
            // Poly1305: random key, and the keys that stress carries (r at its clamped maximum, s = 2^128-1)
            let mut kmax = [0xffu8; 32];
            for (j, b) in [0xffu8, 0xff, 0xff, 0x0f, 0xfc, 0xff, 0xff, 0x0f, 0xfc, 0xff, 0xff, 0x0f, 0xfc, 0xff, 0xff, 0x0f].iter().enumerate() { kmax[j] = *b; }
            for (kn, k) in [("random", key32), ("r max, s = 2^128-1", kmax), ("all 0xff (unclamped)", [0xffu8; 32])] {
                let (i, s) = onetimeauth(&k, msg);
                compare(&mut rep, "onetimeauth", i, &[("libsodium", s.as_ref())], json!({"len": len, "key": kn, "filler": fi}));
            }
        }
        // verify functions on the random filler
        let msg = &fillers[0];
        if len % 7 == 0 || len < 40 {
            let mut t = [0u8; 32]; ca::crypto_auth(&mut t, msg, &key32);
            flip_all(&mut rep, "crypto_auth_verify", &t, |x| ca::crypto_auth_verify(&a32(x), msg, &key32).is_ok(), json!({"len": len}));
            flip_all(&mut rep, "Auth::compute_and_verify", &t, |x| dryoc::auth::Auth::compute_and_verify(&a32(x), key32, &msg.to_vec()).is_ok(), json!({"len": len}));
            let mut t = [0u8; 16]; co::crypto_onetimeauth(&mut t, msg, &key32);
            flip_all(&mut rep, "crypto_onetimeauth_verify", &t, |x| co::crypto_onetimeauth_verify(&a16(x), msg, &key32).is_ok(), json!({"len": len}));
            flip_all(&mut rep, "OnetimeAuth::compute_and_verify", &t, |x| dryoc::onetimeauth::OnetimeAuth::compute_and_verify(&a16(x), key32, &msg.to_vec()).is_ok(), json!({"len": len}));
            for _ in 0..8 { let r: [u8; 32] = rng.arr(); if r != t_as32(&t) { rep.evaluations += 1; let mut t2 = [0u8; 32]; ca::crypto_auth(&mut t2, msg, &key32); if r != t2 && ca::crypto_auth_verify(&r, msg, &key32).is_ok() { rep.fail("crypto_auth_verify: accepts a random authenticator", json!({"len": len})); } } }
        }
    }
    if first == 0 {
        // core functions and increment: random and extreme operands
        for i in 0..4000u64 {
            let key: [u8; 32] = if i % 50 == 0 { [0xffu8; 32] } else if i % 50 == 1 { [0u8; 32] } else { rng.arr() };
            let input: [u8; 16] = if i % 40 == 0 { [0xffu8; 16] } else { rng.arr() };
            let c: Option<[u8; 16]> = if i % 3 == 0 { Some(rng.arr()) } else { None };
            let (im, s) = hsalsa(&key, &input, c); compare(&mut rep, "hsalsa20", im, &[("libsodium", s.as_ref())], json!({"i": i, "const": c.is_some()}));
            let (im, s) = hchacha(&key, &input, c); compare(&mut rep, "hchacha20", im, &[("libsodium", s.as_ref())], json!({"i": i, "const": c.is_some()}));
        }
        for len in 0..=40usize {
            for pat in 0..6 {
                let mut b = match pat { 0 => vec![0xffu8; len], 1 => vec![0u8; len], 2 => { let mut v = vec![0xffu8; len]; if len > 0 { v[len - 1] = 0x7f; } v } 3 => { let mut v = vec![0u8; len]; if len > 0 { v[0] = 0xff; } v } _ => rng.bytes(len) };
                if pat == 4 && len > 2 { b[0] = 0xff; b[1] = 0xff; }
                let (im, s) = increment(&b); compare(&mut rep, "increment", im, &[("libsodium", s.as_ref())], json!({"len": len, "pattern": pat}));
            }
        }
    }
    rep.sample(json!({"lengths": format!("0..={}", maxlen), "fillers": ["random", "0xff", "zero"], "poly1305 keys": ["random", "r max s max", "all ff"]}));
    rep.write(&args[0]);
}
fn t_as32(t: &[u8; 16]) -> [u8; 32] { let mut a = [0u8; 32]; a[..16].copy_from_slice(t); a }

// ------------------------------------------------------------------------------------------ C12 sweep
/// `prims-sweep-c12 <out.json> <seed>`
pub fn cmd_sweep_c12(args: &[String]) {
    let seed: u64 = args[1].parse().unwrap();
    let mut rng = Rng::new(seed ^ 0xc12);
    let mut rep = Report::new();
    let ids: [u64; 9] = [0, 1, 2, 255, 256, 1 << 32, 1 << 63, u64::MAX - 1, u64::MAX];
    let mut seen: std::collections::HashMap<Vec<u8>, String> = Default::default();
    for round in 0..4 {
        let key: [u8; 32] = rng.arr();
        let ctx: [u8; 8] = rng.arr();
        let ctx2: [u8; 8] = { let mut c = ctx; c[(round % 8) as usize] ^= 1; c };
        for len in 0..=80usize {
            for &id in ids.iter().chain([rng.next()].iter()) {
                let (imps, sod) = kdf(len, id, &ctx, &key);
                let accepted = (16..=64).contains(&len);
                if accepted {
                    if sod.is_none() { rep.fail("libsodium rejects an accepted length (harness error)", json!(len)); }
                    compare(&mut rep, "kdf", imps, &[("libsodium", sod.as_ref())], json!({"len": len, "id": id.to_string(), "seed": seed}));
                    if let Some(s) = &sod {
                        // distinctness over ids / contexts / lengths (on the reference values: a property of the construction)
                        let tagk = format!("len {} id {} round {} ctx0", len, id, round);
                        if let Some(prev) = seen.insert(s.clone(), tagk.clone()) { if prev != tagk { rep.fail("kdf: two different (id, context, length) give the same subkey", json!({"a": prev, "b": tagk})); } }
                        let (_, s2) = kdf(len, id, &ctx2, &key);
                        if s2.as_ref() == Some(s) { rep.fail("kdf: changing the context does not change the subkey", json!({"len": len})); }
                    }
                } else {
                    for (name, got) in imps {
                        rep.evaluations += 1;
                        if got.is_ok() { rep.fail(&format!("kdf: {} accepts a subkey length outside 16..=64", name), json!({"len": len})); }
                    }
                }
            }
        }
    }
    rep.sample(json!({"lengths": "0..=80 (16..=64 accepted)", "ids": ids.iter().map(|x| x.to_string()).collect::<Vec<_>>()}));
    rep.write(&args[0]);
}
