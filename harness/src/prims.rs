//! C07 / C12 / C05 / C13 / C09: primitives against two independent references — the values computed by TLC
//! from spec/ref (vector files) and libsodium — plus sweeps over every length / parameter class.
#![allow(unused_imports)]
use crate::common::*;
use dryoc::classic::{crypto_auth as ca, crypto_box as cb, crypto_core as cc, crypto_generichash as cg, crypto_hash as ch, crypto_kdf as ck,
                     crypto_kx as ckx, crypto_onetimeauth as co, crypto_pwhash as cp, crypto_shorthash as csh, crypto_sign as csg, crypto_sign_ed25519 as ced};
use dryoc::types::*;
use libsodium_sys as so;
use serde_json::{json, Value};
use std::io::BufRead;

fn bytes(v: &Value) -> Vec<u8> {
    v.as_array().map(|a| a.iter().map(|x| x.as_u64().unwrap_or(0) as u8).collect()).unwrap_or_default()
}
fn a16(b: &[u8]) -> [u8; 16] { let mut a = [0u8; 16]; a.copy_from_slice(&b[..16]); a }
fn a32(b: &[u8]) -> [u8; 32] { let mut a = [0u8; 32]; a.copy_from_slice(&b[..32]); a }
fn a8(b: &[u8]) -> [u8; 8] { let mut a = [0u8; 8]; a.copy_from_slice(&b[..8]); a }

// ------------------------------------------------------------------------------------------ implementations
/// every dryoc route to a primitive, by name; Err(text) = the call failed
type Impls = Vec<(String, Result<Vec<u8>, String>)>;

fn words(c: [u8; 16]) -> (u32, u32, u32, u32) {
    let w = |i: usize| u32::from_le_bytes([c[4 * i], c[4 * i + 1], c[4 * i + 2], c[4 * i + 3]]);
    (w(0), w(1), w(2), w(3))
}
fn es(e: dryoc::Error) -> String { format!("{:?}", e) }

pub fn generichash(msg: &[u8], key: &[u8], outlen: usize) -> (Impls, Option<Vec<u8>>) {
    let k = if key.is_empty() { None } else { Some(key) };
    let mut v: Impls = vec![];
    v.push(("crypto_generichash".into(), { let mut o = vec![0xA5u8; outlen]; cg::crypto_generichash(&mut o, msg, k).map(|_| o).map_err(es) }));
    v.push(("crypto_generichash_init/update/final".into(), (|| { let mut st = cg::crypto_generichash_init(k, outlen).map_err(es)?; cg::crypto_generichash_update(&mut st, msg);
        let mut o = vec![0x5Au8; outlen]; cg::crypto_generichash_final(st, &mut o).map_err(es)?; Ok(o) })()));
    if outlen == 32 && key.len() == 32 {
        v.push(("GenericHash<32,32>::hash_to_vec".into(), dryoc::generichash::GenericHash::<32, 32>::hash_to_vec(&msg.to_vec(), Some(&a32(key))).map_err(es)));
    }
    if outlen == 64 && key.is_empty() {
        v.push(("GenericHash<32,64>::hash_to_vec".into(), dryoc::generichash::GenericHash::<32, 64>::hash_to_vec::<_, [u8; 32]>(&msg.to_vec(), None).map_err(es)));
    }
    // the object API for every (key length, output length) pair it is instantiated with below
    macro_rules! gh_obj {
        ($k:literal, $o:literal) => {
            if outlen == $o && (key.len() == $k || key.is_empty()) {
                use dryoc::generichash::GenericHash;
                let kk: Option<StackByteArray<$k>> = if key.is_empty() { None } else { Some(StackByteArray::<$k>::try_from(key).unwrap()) };
                v.push((format!("GenericHash<{},{}>::hash", $k, $o), GenericHash::<$k, $o>::hash::<_, _, StackByteArray<$o>>(msg, kk.as_ref()).map(|x| x.to_vec()).map_err(es)));
                v.push((format!("GenericHash<{},{}>::new/update/finalize", $k, $o), (|| { let mut h = GenericHash::<$k, $o>::new(kk.as_ref()).map_err(es)?; h.update(msg);
                    let o: StackByteArray<$o> = h.finalize().map_err(es)?; Ok(o.to_vec()) })()));
                v.push((format!("GenericHash<{},{}>::new/update x2/finalize_to_vec", $k, $o), (|| { let mut h = GenericHash::<$k, $o>::new(kk.as_ref()).map_err(es)?;
                    let cut = msg.len() / 3; h.update(&msg[..cut]); h.update(&msg[cut..]); h.finalize_to_vec().map_err(es) })()));
            }
        };
    }
    gh_obj!(16, 16); gh_obj!(32, 32); gh_obj!(64, 64); gh_obj!(32, 64); gh_obj!(64, 32); gh_obj!(33, 17); gh_obj!(16, 64); gh_obj!(64, 16);
    if outlen == 32 && (key.len() == 32 || key.is_empty()) {
        use dryoc::generichash::GenericHash;
        let kk: Option<StackByteArray<32>> = if key.is_empty() { None } else { Some(StackByteArray::<32>::try_from(key).unwrap()) };
        v.push(("GenericHash::hash_with_defaults".into(), GenericHash::hash_with_defaults::<_, _, StackByteArray<32>>(msg, kk.as_ref()).map(|x| x.to_vec()).map_err(es)));
        v.push(("GenericHash::hash_with_defaults_to_vec".into(), GenericHash::hash_with_defaults_to_vec(msg, kk.as_ref()).map_err(es)));
        v.push(("GenericHash::new_with_defaults/update/finalize_to_vec".into(), (|| { let mut h = GenericHash::new_with_defaults(kk.as_ref()).map_err(es)?; h.update(msg); h.finalize_to_vec().map_err(es) })()));
    }
    let mut r = vec![0u8; outlen];
    let rc = unsafe { so::crypto_generichash(r.as_mut_ptr(), outlen, msg.as_ptr(), msg.len() as u64, if key.is_empty() { std::ptr::null() } else { key.as_ptr() }, key.len()) };
    (v, if rc == 0 { Some(r) } else { None })
}
pub fn sha512(msg: &[u8]) -> (Impls, Option<Vec<u8>>) {
    let mut v: Impls = vec![];
    v.push(("crypto_hash_sha512".into(), { let mut o = [0xA5u8; 64]; ch::crypto_hash_sha512(&mut o, msg); Ok(o.to_vec()) }));
    v.push(("Sha512::compute_to_vec".into(), Ok(dryoc::sha512::Sha512::compute_to_vec(msg))));
    {
        use dryoc::sha512::Sha512;
        v.push(("Sha512::compute".into(), Ok(Sha512::compute::<_, StackByteArray<64>>(msg).to_vec())));
        v.push(("Sha512::compute_into_bytes".into(), { let mut o = [0xA5u8; 64]; Sha512::compute_into_bytes(&mut o, msg); Ok(o.to_vec()) }));
        v.push(("Sha512::new/update/finalize".into(), { let mut h = Sha512::new(); h.update(msg); let o: StackByteArray<64> = h.finalize(); Ok(o.to_vec()) }));
        v.push(("Sha512::default/update x2/finalize_into_bytes".into(), { let mut h = Sha512::default(); let cut = msg.len() / 2; h.update(&msg[..cut]); h.update(&msg[cut..]);
            let mut o = [0x5Au8; 64]; h.finalize_into_bytes(&mut o); Ok(o.to_vec()) }));
        v.push(("Sha512::new/update/finalize_to_vec".into(), { let mut h = Sha512::new(); h.update(msg); Ok(h.finalize_to_vec()) }));
    }
    let mut r = vec![0u8; 64];
    unsafe { so::crypto_hash_sha512(r.as_mut_ptr(), msg.as_ptr(), msg.len() as u64) };
    (v, Some(r))
}
pub fn auth(key: &[u8; 32], msg: &[u8]) -> (Impls, Option<Vec<u8>>) {
    let mut v: Impls = vec![];
    v.push(("crypto_auth".into(), { let mut o = [0xA5u8; 32]; ca::crypto_auth(&mut o, msg, key); Ok(o.to_vec()) }));
    v.push(("Auth::compute_to_vec".into(), Ok(dryoc::auth::Auth::compute_to_vec(*key, &msg.to_vec()))));
    {
        use dryoc::auth::Auth;
        let m = msg.to_vec();
        v.push(("Auth::compute".into(), Ok(Auth::compute::<_, _, StackByteArray<32>>(StackByteArray::from(key), &m).to_vec())));
        v.push(("Auth::new/update/finalize".into(), { let mut a = Auth::new(*key); a.update(&m); let o: StackByteArray<32> = a.finalize(); Ok(o.to_vec()) }));
        v.push(("Auth::new/update x2/finalize_to_vec".into(), { let mut a = Auth::new(StackByteArray::from(key)); let cut = m.len() / 2; a.update(&m[..cut].to_vec()); a.update(&m[cut..].to_vec()); Ok(a.finalize_to_vec()) }));
        v.push(("crypto_auth_init/update/final".into(), { let mut st = ca::crypto_auth_init(key); ca::crypto_auth_update(&mut st, msg); let mut o = [0u8; 32]; ca::crypto_auth_final(st, &mut o); Ok(o.to_vec()) }));
    }
    let mut r = vec![0u8; 32];
    unsafe { so::crypto_auth(r.as_mut_ptr(), msg.as_ptr(), msg.len() as u64, key.as_ptr()) };
    (v, Some(r))
}
pub fn onetimeauth(key: &[u8; 32], msg: &[u8]) -> (Impls, Option<Vec<u8>>) {
    let mut v: Impls = vec![];
    v.push(("crypto_onetimeauth".into(), { let mut o = [0xA5u8; 16]; co::crypto_onetimeauth(&mut o, msg, key); Ok(o.to_vec()) }));
    v.push(("OnetimeAuth::compute_to_vec".into(), Ok(dryoc::onetimeauth::OnetimeAuth::compute_to_vec(*key, &msg.to_vec()))));
    {
        use dryoc::onetimeauth::OnetimeAuth;
        let m = msg.to_vec();
        v.push(("OnetimeAuth::compute".into(), Ok(OnetimeAuth::compute::<_, _, StackByteArray<16>>(StackByteArray::from(key), &m).to_vec())));
        v.push(("OnetimeAuth::new/update/finalize".into(), { let mut a = OnetimeAuth::new(*key); a.update(&m); let o: StackByteArray<16> = a.finalize(); Ok(o.to_vec()) }));
        v.push(("OnetimeAuth::new/update x2/finalize_to_vec".into(), { let mut a = OnetimeAuth::new(StackByteArray::from(key)); let cut = m.len() / 2; a.update(&m[..cut].to_vec()); a.update(&m[cut..].to_vec()); Ok(a.finalize_to_vec()) }));
    }
    v.push(("crypto_onetimeauth_init/update/final".into(), { let mut st = co::crypto_onetimeauth_init(key); co::crypto_onetimeauth_update(&mut st, msg); let mut o = [0u8; 16]; co::crypto_onetimeauth_final(st, &mut o); Ok(o.to_vec()) }));
    let mut r = vec![0u8; 16];
    unsafe { so::crypto_onetimeauth(r.as_mut_ptr(), msg.as_ptr(), msg.len() as u64, key.as_ptr()) };
    (v, Some(r))
}
pub fn shorthash(key: &[u8; 16], msg: &[u8]) -> (Impls, Option<Vec<u8>>) {
    let mut v: Impls = vec![];
    v.push(("crypto_shorthash".into(), { let mut o = [0xA5u8; 8]; csh::crypto_shorthash(&mut o, msg, key); Ok(o.to_vec()) }));
    let mut r = vec![0u8; 8];
    unsafe { so::crypto_shorthash(r.as_mut_ptr(), msg.as_ptr(), msg.len() as u64, key.as_ptr()) };
    (v, Some(r))
}
pub fn hsalsa(key: &[u8; 32], input: &[u8; 16], c: Option<[u8; 16]>) -> (Impls, Option<Vec<u8>>) {
    let mut v: Impls = vec![];
    v.push(("crypto_core_hsalsa20".into(), { let mut o = [0xA5u8; 32]; cc::crypto_core_hsalsa20(&mut o, input, key, c.map(words)); Ok(o.to_vec()) }));
    let mut r = vec![0u8; 32];
    unsafe { so::crypto_core_hsalsa20(r.as_mut_ptr(), input.as_ptr(), key.as_ptr(), c.as_ref().map(|x| x.as_ptr()).unwrap_or(std::ptr::null())) };
    (v, Some(r))
}
pub fn hchacha(key: &[u8; 32], input: &[u8; 16], c: Option<[u8; 16]>) -> (Impls, Option<Vec<u8>>) {
    let mut v: Impls = vec![];
    v.push(("crypto_core_hchacha20".into(), { let mut o = [0xA5u8; 32]; cc::crypto_core_hchacha20(&mut o, input, key, c.map(words)); Ok(o.to_vec()) }));
    let mut r = vec![0u8; 32];
    unsafe { so::crypto_core_hchacha20(r.as_mut_ptr(), input.as_ptr(), key.as_ptr(), c.as_ref().map(|x| x.as_ptr()).unwrap_or(std::ptr::null())) };
    (v, Some(r))
}
pub fn increment(b: &[u8]) -> (Impls, Option<Vec<u8>>) {
    let mut v: Impls = vec![];
    v.push(("utils::increment_bytes".into(), { let mut x = b.to_vec(); dryoc::utils::increment_bytes(&mut x); Ok(x) }));
    v.push(("utils::sodium_increment".into(), { let mut x = b.to_vec(); dryoc::utils::sodium_increment(&mut x); Ok(x) }));
    let mut r = b.to_vec();
    unsafe { so::sodium_increment(r.as_mut_ptr(), r.len()) };
    (v, Some(r))
}
pub fn kdf(outlen: usize, id: u64, ctx: &[u8; 8], key: &[u8; 32]) -> (Impls, Option<Vec<u8>>) {
    let mut v: Impls = vec![];
    // every third derivation follows an abandoned hash / MAC / signing state on the same thread
    if (id ^ outlen as u64) % 3 == 0 { disturb(id ^ outlen as u64); }
    v.push(("crypto_kdf_derive_from_key".into(), { let mut o = vec![0xC3u8; outlen]; ck::crypto_kdf_derive_from_key(&mut o, id, ctx, key).map(|_| o).map_err(es) }));
    if outlen == 32 {
        let k: dryoc::kdf::Kdf<StackByteArray<32>, StackByteArray<8>> = dryoc::kdf::Kdf::from_parts(StackByteArray::from(key), StackByteArray::from(ctx));
        v.push(("Kdf::derive_subkey_to_vec".into(), k.derive_subkey_to_vec(id).map_err(es)));
    }
    macro_rules! kdf_obj {
        ($n:literal) => {
            if outlen == $n {
                let k: dryoc::kdf::Kdf<StackByteArray<32>, StackByteArray<8>> = dryoc::kdf::Kdf::from_parts(StackByteArray::from(key), StackByteArray::from(ctx));
                v.push((format!("Kdf::derive_subkey::<StackByteArray<{}>>", $n), k.derive_subkey::<StackByteArray<$n>>(id).map(|x| x.to_vec()).map_err(es)));
                let k: dryoc::kdf::Kdf<[u8; 32], [u8; 8]> = dryoc::kdf::Kdf::from_parts(*key, *ctx);
                v.push((format!("Kdf<[u8;32],[u8;8]>::derive_subkey::<[u8;{}]>", $n), k.derive_subkey::<[u8; $n]>(id).map(|x| x.to_vec()).map_err(es)));
            }
        };
    }
    kdf_obj!(32);
    let mut r = vec![0u8; outlen];
    let rc = unsafe { so::crypto_kdf_derive_from_key(r.as_mut_ptr(), outlen, id, ctx.as_ptr() as *const _, key.as_ptr()) };
    (v, if rc == 0 { Some(r) } else { None })
}
/// X25519(scalar, point); libsodium returns None when it refuses (all-zero result)
pub fn x25519(n: &[u8; 32], p: &[u8; 32]) -> (Impls, Option<Vec<u8>>, bool) {
    let mut v: Impls = vec![];
    v.push(("crypto_scalarmult".into(), { let mut q = [0u8; 32]; cc::crypto_scalarmult(&mut q, n, p); Ok(q.to_vec()) }));
    // what the output buffer held before the call (a previous shared secret, say) does not matter
    v.push(("crypto_scalarmult (output buffer in use)".into(), { let mut q = [0x6Du8; 32]; q[0] = n[1]; cc::crypto_scalarmult(&mut q, n, p); Ok(q.to_vec()) }));
    let mut r = vec![0u8; 32];
    let rc = unsafe { so::crypto_scalarmult(r.as_mut_ptr(), n.as_ptr(), p.as_ptr()) };
    // libsodium computes the value even when it reports the all-zero result with -1
    (v, Some(r), rc == 0)
}
pub fn x25519base(n: &[u8; 32]) -> (Impls, Option<Vec<u8>>) {
    let mut v: Impls = vec![];
    v.push(("crypto_scalarmult_base".into(), { let mut q = [0u8; 32]; cc::crypto_scalarmult_base(&mut q, n); Ok(q.to_vec()) }));
    v.push(("KeyPair::from_secret_key".into(), { let kp: dryoc::dryocbox::KeyPair = dryoc::keypair::KeyPair::from_secret_key(StackByteArray::from(n)); Ok(kp.public_key.as_slice().to_vec()) }));
    let mut r = vec![0u8; 32];
    unsafe { so::crypto_scalarmult_base(r.as_mut_ptr(), n.as_ptr()) };
    (v, Some(r))
}
pub fn argon2(ty: u64, pwd: &[u8], salt: &[u8], t: u64, mkib: u64, outlen: usize) -> (Impls, Option<Vec<u8>>) {
    argon2_bytes(ty, pwd, salt, t, (mkib as usize) * 1024, outlen)
}
/// memlimit given in bytes (libsodium and the reference use floor(memlimit / 1024) KiB)
pub fn argon2_bytes(ty: u64, pwd: &[u8], salt: &[u8], t: u64, memlimit: usize, outlen: usize) -> (Impls, Option<Vec<u8>>) {
    let mkib = (memlimit / 1024) as u64;
    let alg = if ty == 1 { cp::PasswordHashAlgorithm::Argon2i13 } else { cp::PasswordHashAlgorithm::Argon2id13 };
    let mut v: Impls = vec![];
    v.push(("crypto_pwhash".into(), match catch(|| { let mut o = vec![0x3Cu8; outlen]; cp::crypto_pwhash(&mut o, pwd, salt, t, memlimit, alg).map(|_| o).map_err(es) }) { Ok(r) => r, Err(p) => Err(format!("PANIC {}", p)) }));
    // libsodium: 16-byte salts only; Argon2i needs t >= 3; outlen >= 16
    let mut r = vec![0u8; outlen];
    let ok = salt.len() == 16 && outlen >= 16 && !(ty == 1 && t < 3) && mkib >= 8;
    let rc = if ok { unsafe { so::crypto_pwhash(r.as_mut_ptr(), outlen as u64, pwd.as_ptr() as *const _, pwd.len() as u64, salt.as_ptr(), t, memlimit, ty as i32) } } else { -1 };
    (v, if rc == 0 { Some(r) } else { None })
}

fn compare(rep: &mut Report, what: &str, imps: Impls, refs: &[(&str, Option<&Vec<u8>>)], detail: Value) {
    rep.case(&format!("{}|{}", what, detail));
    for (name, got) in imps {
        rep.evaluations += 1;
        match got {
            Ok(g) => {
                for (rn, r) in refs {
                    if let Some(r) = r {
                        if &g != *r {
                            rep.fail(&format!("{}: {} differs from {}", what, name, rn), json!({"input": detail, "got": hex(&g), "reference": hex(r)}));
                        }
                    }
                }
            }
            Err(e) => rep.fail(&format!("{}: {} failed on accepted input", what, name), json!({"input": detail, "error": e})),
        }
    }
}

/// `prims-vectors <vectors.ndjson> <out.json>`: each line {fn, operands, out (value computed by TLC from spec/ref)}
pub fn cmd_vectors(args: &[String]) {
    let mut rep = Report::new();
    for line in std::io::BufReader::new(std::fs::File::open(&args[0]).unwrap()).lines() {
        let j: Value = serde_json::from_str(&line.unwrap()).unwrap();
        let tlc = bytes(&j["out"]);
        let f = j["fn"].as_str().unwrap();
        let brief = json!({"fn": f, "len": j["msg"].as_array().map(|a| a.len()), "tag": j["tag"], "outlen": j["outlen"], "keylen": j["key"].as_array().map(|a| a.len())});
        rep.count(&format!("vectors:{}", f));
        let (imps, sod) = match f {
            "blake2b" => generichash(&bytes(&j["msg"]), &bytes(&j["key"]), j["outlen"].as_u64().unwrap() as usize),
            "sha512" => sha512(&bytes(&j["msg"])),
            "hmacsha512256" => auth(&a32(&bytes(&j["key"])), &bytes(&j["msg"])),
            "poly1305" => onetimeauth(&a32(&bytes(&j["key"])), &bytes(&j["msg"])),
            "siphash24" => shorthash(&a16(&bytes(&j["key"])), &bytes(&j["msg"])),
            "hsalsa20" => { let c = bytes(&j["const"]); hsalsa(&a32(&bytes(&j["key"])), &a16(&bytes(&j["input"])), if c.len() == 16 { Some(a16(&c)) } else { None }) }
            "hchacha20" => { let c = bytes(&j["const"]); hchacha(&a32(&bytes(&j["key"])), &a16(&bytes(&j["input"])), if c.len() == 16 { Some(a16(&c)) } else { None }) }
            "increment" => increment(&bytes(&j["msg"])),
            "kdf" => kdf(j["outlen"].as_u64().unwrap() as usize, u64::from_le_bytes(a8(&bytes(&j["subkey_id"]))), &a8(&bytes(&j["ctx"])), &a32(&bytes(&j["key"]))),
            "x25519" => { let (i, s, _) = x25519(&a32(&bytes(&j["scalar"])), &a32(&bytes(&j["point"]))); (i, s) }
            "x25519base" => x25519base(&a32(&bytes(&j["scalar"]))),
            "argon2" => argon2(j["type"].as_u64().unwrap(), &bytes(&j["pwd"]), &bytes(&j["salt"]), j["t"].as_u64().unwrap(), j["m"].as_u64().unwrap(), j["outlen"].as_u64().unwrap() as usize),
            "secretbox" => { let o = crate::aead::mk_ops_fixed(&a32(&bytes(&j["key"])), &bytes(&j["nonce"]), &bytes(&j["msg"])); crate::aead::secretbox_impls(&o) }
            other => { rep.fail("HARNESS: unknown function in vector file", json!(other)); continue; }
        };
        // the two references must agree with each other, or the vector proves nothing
        if let Some(s) = &sod {
            if s != &tlc { rep.fail(&format!("{}: the TLA+ reference and libsodium disagree (specification error)", f), json!({"input": brief, "tlc": hex(&tlc), "sodium": hex(s)})); continue; }
        }
        if rep.samples.len() < 4 && rep.counters.get(&format!("vectors:{}", f)) == Some(&1) { rep.sample(json!({"vector": brief, "value": hex(&tlc)})); }
        compare(&mut rep, f, imps, &[("the TLA+ reference", Some(&tlc)), ("libsodium", sod.as_ref())], brief);
    }
    rep.write(&args[1]);
}

// ------------------------------------------------------------------------------------------ C07 sweep
fn flip_all<F: Fn(&[u8]) -> bool>(rep: &mut Report, what: &str, tag: &[u8], verify: F, detail: Value) {
    rep.evaluations += 1;
    if !verify(tag) { rep.fail(&format!("{}: correct authenticator rejected", what), detail.clone()); }
    for bit in 0..tag.len() * 8 {
        let mut t = tag.to_vec();
        t[bit / 8] ^= 1 << (bit % 8);
        rep.evaluations += 1;
        if verify(&t) { rep.fail(&format!("{}: accepts an authenticator with one bit changed", what), json!({"input": detail, "bit": bit})); }
    }
}

/// `prims-sweep-c07 <out.json> <seed> <maxlen> <first> <stride>`: dryoc = libsodium on every length, every
/// digest/key length pair at the extremes, adversarial blocks; verify functions.
pub fn cmd_sweep_c07(args: &[String]) {
    let seed: u64 = args[1].parse().unwrap();
    let maxlen: usize = args[2].parse().unwrap();
    let first: usize = args[3].parse().unwrap();
    let stride: usize = args[4].parse().unwrap();
    let mut rng = Rng::new(seed ^ 0xc07);
    let mut rep = Report::new();
    // every length up to maxlen, then lengths around the 4 KiB / 8 KiB / 64 KiB marks (chunked code paths start there)
    for len in (0..=maxlen).chain([4095usize, 4096, 4097, 8191, 8192, 8193, 16383, 16384, 16385, 65535, 65536, 65537].iter().copied()) {
        let fillers: [Vec<u8>; 3] = [rng.bytes(len), vec![0xffu8; len], vec![0u8; len]];
        let key32: [u8; 32] = rng.arr();
        let key16: [u8; 16] = rng.arr();
        let klen = 16 + (rng.below(49) as usize);
        let outl = 16 + (rng.below(49) as usize);
        let gk = rng.bytes(64);
        if len % stride != first { continue; }
        if len % 5 == 2 { disturb(len as u64); }
        for (fi, msg) in fillers.iter().enumerate() {
            let fname = ["random", "0xff", "zero"][fi]; let d = json!({"len": len, "filler": fname, "seed": seed});
            // generic hash: every digest/key extreme plus one random pair per length
            let pairs: Vec<(usize, usize)> = if fi == 0 { vec![(32, 0), (16, 0), (64, 0), (16, 16), (64, 64), (32, 32), (17, 33), (64, 32), (32, 64), (64, 16), (16, 64), (outl, klen), (outl, 0)] } else { vec![(32, 0), (64, 64)] };
            for (ol, kl) in pairs {
                let (i, s) = generichash(msg, &gk[..kl], ol);
                compare(&mut rep, "generichash", i, &[("libsodium", s.as_ref())], json!({"len": len, "outlen": ol, "keylen": kl, "filler": fi, "seed": seed}));
            }
            let (i, s) = sha512(msg); compare(&mut rep, "sha512", i, &[("libsodium", s.as_ref())], d.clone());
            let (i, s) = auth(&key32, msg); compare(&mut rep, "auth", i, &[("libsodium", s.as_ref())], d.clone());
            let (i, s) = shorthash(&key16, msg); compare(&mut rep, "shorthash", i, &[("libsodium", s.as_ref())], d.clone());
            // the same bytes at every address alignment (a slice that starts 1..7 bytes into a word-aligned buffer): a result is a
            // function of the bytes, not of where they lie
            if fi == 0 {
                for off in 1..8usize {
                    let mut shifted: Vec<u64> = vec![0u64; (len + off) / 8 + 2];
                    let bytes_: &mut [u8] = unsafe { std::slice::from_raw_parts_mut(shifted.as_mut_ptr() as *mut u8, shifted.len() * 8) };
                    bytes_[off..off + len].copy_from_slice(msg);
                    let m2 = &bytes_[off..off + len];
                    let dd = json!({"len": len, "offset_in_aligned_buffer": off, "seed": seed});
                    let (i, s) = shorthash(&key16, m2); compare(&mut rep, "shorthash (unaligned input)", i, &[("libsodium", s.as_ref())], dd.clone());
                    if off == 1 + len % 7 {
                        let (i, s) = generichash(m2, &gk[..32], 32); compare(&mut rep, "generichash (unaligned input)", i, &[("libsodium", s.as_ref())], dd.clone());
                        let (i, s) = sha512(m2); compare(&mut rep, "sha512 (unaligned input)", i, &[("libsodium", s.as_ref())], dd.clone());
                        let (i, s) = auth(&key32, m2); compare(&mut rep, "auth (unaligned input)", i, &[("libsodium", s.as_ref())], dd.clone());
                    }
                }
            }
            // Poly1305: random key, and the keys that stress carries (r at its clamped maximum, s = 2^128-1)
            let mut kmax = [0xffu8; 32];
            for (j, b) in [0xffu8, 0xff, 0xff, 0x0f, 0xfc, 0xff, 0xff, 0x0f, 0xfc, 0xff, 0xff, 0x0f, 0xfc, 0xff, 0xff, 0x0f].iter().enumerate() { kmax[j] = *b; }
            for (kn, k) in [("random", key32), ("r max, s = 2^128-1", kmax), ("all 0xff (unclamped)", [0xffu8; 32])] {
                let (i, s) = onetimeauth(&k, msg);
                compare(&mut rep, "onetimeauth", i, &[("libsodium", s.as_ref())], json!({"len": len, "key": kn, "filler": fi}));
            }
        }
        // verify functions on the random filler
        let msg = &fillers[0];
        if len % 7 == 0 || len < 40 {
            let mut t = [0u8; 32]; ca::crypto_auth(&mut t, msg, &key32);
            flip_all(&mut rep, "crypto_auth_verify", &t, |x| ca::crypto_auth_verify(&a32(x), msg, &key32).is_ok(), json!({"len": len}));
            flip_all(&mut rep, "Auth::compute_and_verify", &t, |x| dryoc::auth::Auth::compute_and_verify(&a32(x), key32, &msg.to_vec()).is_ok(), json!({"len": len}));
            let mut t = [0u8; 16]; co::crypto_onetimeauth(&mut t, msg, &key32);
            flip_all(&mut rep, "crypto_onetimeauth_verify", &t, |x| co::crypto_onetimeauth_verify(&a16(x), msg, &key32).is_ok(), json!({"len": len}));
            flip_all(&mut rep, "OnetimeAuth::compute_and_verify", &t, |x| dryoc::onetimeauth::OnetimeAuth::compute_and_verify(&a16(x), key32, &msg.to_vec()).is_ok(), json!({"len": len}));
            for _ in 0..8 { let r: [u8; 32] = rng.arr(); if r != t_as32(&t) { rep.evaluations += 1; let mut t2 = [0u8; 32]; ca::crypto_auth(&mut t2, msg, &key32); if r != t2 && ca::crypto_auth_verify(&r, msg, &key32).is_ok() { rep.fail("crypto_auth_verify: accepts a random authenticator", json!({"len": len})); } } }
        }
    }
    if first == 0 {
        // core functions and increment: random and extreme operands
        for i in 0..4000u64 {
            let key: [u8; 32] = if i % 50 == 0 { [0xffu8; 32] } else if i % 50 == 1 { [0u8; 32] } else { rng.arr() };
            let input: [u8; 16] = if i % 40 == 0 { [0xffu8; 16] } else { rng.arr() };
            // custom constants: random, all-zero (NOT the same as absent), all-0xff, one word zero, sigma passed explicitly
            let c: Option<[u8; 16]> = match i % 30 {
                0 => Some([0u8; 16]), 3 => Some([0xffu8; 16]), 6 => { let mut x: [u8; 16] = rng.arr(); for b in x[((i / 30) % 4 * 4) as usize..][..4].iter_mut() { *b = 0; } Some(x) }
                9 => Some(*b"expand 32-byte k"), 12 => Some(*b"expand 16-byte k"),
                k if k % 3 == 0 => Some(rng.arr()), _ => None };
            let (im, s) = hsalsa(&key, &input, c); compare(&mut rep, "hsalsa20", im, &[("libsodium", s.as_ref())], json!({"i": i, "const": c.is_some()}));
            let (im, s) = hchacha(&key, &input, c); compare(&mut rep, "hchacha20", im, &[("libsodium", s.as_ref())], json!({"i": i, "const": c.is_some()}));
        }
        // word-structured operands: every arrangement of {zero, all-0xff, random, 0xff..fe} 8-byte words (1..=5 words)
        // followed by a tail of 0..=7 bytes of 0xff or random - carries that die and start again inside the buffer
        for nw in 1..=5usize {
            for combo in 0..4usize.pow(nw as u32) {
                for tail in 0..8usize {
                    let mut b: Vec<u8> = vec![];
                    let mut c = combo;
                    for _ in 0..nw {
                        match c % 4 { 0 => b.extend_from_slice(&[0u8; 8]), 1 => b.extend_from_slice(&[0xffu8; 8]), 2 => b.extend(rng.bytes(8)), _ => { b.extend_from_slice(&[0xffu8; 7]); b.push(0xfe); } }
                        c /= 4;
                    }
                    if (combo + tail) % 2 == 0 { b.extend(vec![0xffu8; tail]); } else { b.extend(rng.bytes(tail)); }
                    let (im, s) = increment(&b); compare(&mut rep, "increment", im, &[("libsodium", s.as_ref())], json!({"words": nw, "combo": combo, "tail": tail}));
                }
            }
        }
        for len in 0..=40usize {
            for pat in 0..6 {
                let mut b = match pat { 0 => vec![0xffu8; len], 1 => vec![0u8; len], 2 => { let mut v = vec![0xffu8; len]; if len > 0 { v[len - 1] = 0x7f; } v } 3 => { let mut v = vec![0u8; len]; if len > 0 { v[0] = 0xff; } v } _ => rng.bytes(len) };
                if pat == 4 && len > 2 { b[0] = 0xff; b[1] = 0xff; }
                let (im, s) = increment(&b); compare(&mut rep, "increment", im, &[("libsodium", s.as_ref())], json!({"len": len, "pattern": pat}));
            }
        }
    }
    rep.sample(json!({"lengths": format!("0..={}", maxlen), "fillers": ["random", "0xff", "zero"], "poly1305 keys": ["random", "r max s max", "all ff"]}));
    rep.write(&args[0]);
}
fn t_as32(t: &[u8; 16]) -> [u8; 32] { let mut a = [0u8; 32]; a[..16].copy_from_slice(t); a }

// ------------------------------------------------------------------------------------------ C12 sweep
/// `prims-sweep-c12 <out.json> <seed>`
pub fn cmd_sweep_c12(args: &[String]) {
    let seed: u64 = args[1].parse().unwrap();
    let mut rng = Rng::new(seed ^ 0xc12);
    let mut rep = Report::new();
    let ids: [u64; 9] = [0, 1, 2, 255, 256, 1 << 32, 1 << 63, u64::MAX - 1, u64::MAX];
    let mut seen: std::collections::HashMap<Vec<u8>, String> = Default::default();
    for round in 0..4 {
        let key: [u8; 32] = rng.arr();
        let ctx: [u8; 8] = rng.arr();
        let ctx2: [u8; 8] = { let mut c = ctx; c[(round % 8) as usize] ^= 1; c };
        for len in 0..=80usize {
            for &id in ids.iter().chain([rng.next()].iter()) {
                let (imps, sod) = kdf(len, id, &ctx, &key);
                let accepted = (16..=64).contains(&len);
                if accepted {
                    if sod.is_none() { rep.fail("libsodium rejects an accepted length (harness error)", json!(len)); }
                    compare(&mut rep, "kdf", imps, &[("libsodium", sod.as_ref())], json!({"len": len, "id": id.to_string(), "seed": seed}));
                    if let Some(s) = &sod {
                        // distinctness over ids / contexts / lengths (on the reference values: a property of the construction)
                        let tagk = format!("len {} id {} round {} ctx0", len, id, round);
                        if let Some(prev) = seen.insert(s.clone(), tagk.clone()) { if prev != tagk { rep.fail("kdf: two different (id, context, length) give the same subkey", json!({"a": prev, "b": tagk})); } }
                        let (_, s2) = kdf(len, id, &ctx2, &key);
                        if s2.as_ref() == Some(s) { rep.fail("kdf: changing the context does not change the subkey", json!({"len": len})); }
                    }
                } else {
                    for (name, got) in imps {
                        rep.evaluations += 1;
                        if got.is_ok() { rep.fail(&format!("kdf: {} accepts a subkey length outside 16..=64", name), json!({"len": len})); }
                    }
                }
            }
        }
    }
    // structured contexts: a zero byte at every position followed by non-zero bytes, all-zero, all-0xff, printable, and
    // pairs that differ only behind a zero byte; every byte of the context must reach the subkey
    let key: [u8; 32] = rng.arr();
    let mut ctxs: Vec<[u8; 8]> = vec![[0u8; 8], [0xffu8; 8], *b"hello123", *b"ab\0cdefg", [0, 1, 2, 3, 4, 5, 6, 7], [1, 0, 0, 0, 0, 0, 0, 9], [0, 0, 0, 0, 0, 0, 0, 1]];
    for z in 0..8 { let mut c: [u8; 8] = rng.arr(); for b in c.iter_mut() { if *b == 0 { *b = 1; } } c[z] = 0; ctxs.push(c); }
    // ... under an ordinary key and under the keys a wiped or never-initialised object holds (all-zero, all-0xff, a lone bit):
    // a main key is any 32 bytes, and the all-zero key with the all-zero context is as valid an input as any other
    let special_keys: Vec<[u8; 32]> = vec![[0u8; 32], [0xffu8; 32], { let mut k = [0u8; 32]; k[31] = 0x80; k }, { let mut k = [0u8; 32]; k[0] = 1; k }];
    for c in ctxs.clone().iter() {
        for &len in [16usize, 32, 33, 64].iter() {
            for &id in [0u64, 1, u64::MAX].iter() {
                let (imps, sod) = kdf(len, id, c, &key);
                compare(&mut rep, "kdf", imps, &[("libsodium", sod.as_ref())], json!({"len": len, "id": id.to_string(), "context": hex(c), "seed": seed}));
            }
        }
        for sk in special_keys.iter() {
            for &(len, id) in [(32usize, 0u64), (16, 1), (64, u64::MAX)].iter() {
                let (imps, sod) = kdf(len, id, c, sk);
                compare(&mut rep, "kdf (special main key)", imps, &[("libsodium", sod.as_ref())], json!({"len": len, "id": id.to_string(), "context": hex(c), "key": hex(sk)}));
            }
        }
        // flipping any single byte of the context changes the subkey
        let (_, base) = kdf(32, 7, c, &key);
        for i in 0..8 {
            let mut c2 = *c; c2[i] ^= 0x40;
            let (imps, _) = kdf(32, 7, &c2, &key);
            for (name, got) in imps { rep.evaluations += 1; if got.ok() == base { rep.fail(&format!("kdf: {} ignores byte {} of the context", name, i), json!({"context": hex(c)})); } }
        }
    }
    // subkey lengths far outside the range: errors, never a short write (lengths whose low byte falls into 16..=64 included)
    for &len in [65usize, 100, 127, 128, 255, 256, 257, 271, 272, 288, 300, 320, 321, 512, 528, 544, 576, 1040, 4096 + 32, 65536 + 32, 65536 + 16].iter() {
        let ctx: [u8; 8] = rng.arr();
        let (imps, sod) = kdf(len, 3, &ctx, &key);
        if sod.is_some() { rep.fail("libsodium accepts a subkey length outside 16..=64 (harness error)", json!(len)); }
        for (name, got) in imps { rep.evaluations += 1; if got.is_ok() { rep.fail(&format!("kdf: {} accepts a subkey length outside 16..=64", name), json!({"len": len})); } }
    }
    rep.sample(json!({"lengths": "0..=80 (16..=64 accepted) and 21 lengths up to 65568", "ids": ids.iter().map(|x| x.to_string()).collect::<Vec<_>>(), "structured_contexts": ctxs.len()}));
    rep.write(&args[0]);
}

// ------------------------------------------------------------------------------------------ C05 sweep
fn le_bytes_of_decimal(dec: &str) -> [u8; 32] {
    // small bignum: decimal string -> 32 LE bytes
    let mut v = [0u8; 32];
    for ch in dec.bytes() {
        let mut carry = (ch - b'0') as u32;
        for b in v.iter_mut() { let t = (*b as u32) * 10 + carry; *b = (t & 0xff) as u8; carry = t >> 8; }
    }
    v
}
/// the low-order points of Curve25519 and its twist in every encoding (canonical, non-canonical, top bit set),
/// plus the interesting u-coordinates of the property
pub fn special_points() -> Vec<(&'static str, [u8; 32])> {
    let p_minus_1 = { let mut v = [0xffu8; 32]; v[0] = 0xec; v[31] = 0x7f; v };
    let p = { let mut v = [0xffu8; 32]; v[0] = 0xed; v[31] = 0x7f; v };
    let p_plus_1 = { let mut v = [0xffu8; 32]; v[0] = 0xee; v[31] = 0x7f; v };
    let mut one = [0u8; 32]; one[0] = 1;
    let l1 = le_bytes_of_decimal("325606250916557431795983626356110631294008115727848805560023387167927233504");
    let l2 = le_bytes_of_decimal("39382357235489614581723060781553021112529911719440698176882885853963445705823");
    let mut two = [0u8; 32]; two[0] = 2;
    let mut nine = [0u8; 32]; nine[0] = 9;
    let all_ones_255 = { let mut v = [0xffu8; 32]; v[31] = 0x7f; v };
    let p_plus_9 = { let mut v = [0xffu8; 32]; v[0] = 0xf6; v[31] = 0x7f; v };
    let base: Vec<(&'static str, [u8; 32], bool)> = vec![
        ("u=0 (order 4)", [0u8; 32], true), ("u=1 (order 1)", one, true), ("order 8 (a)", l1, true), ("order 8 (b)", l2, true),
        ("u=p-1 (order 2)", p_minus_1, true), ("u=p (non-canonical 0, order 4)", p, true), ("u=p+1 (non-canonical 1, order 1)", p_plus_1, true),
        ("u=2 (twist)", two, false), ("u=9 (base)", nine, false), ("u=2^255-1 (non-canonical 18)", all_ones_255, false), ("u=p+9 (non-canonical base)", p_plus_9, false),
    ];
    let mut out = vec![];
    for (n, b, _) in base.iter() {
        out.push((*n, *b));
        let mut h = *b; h[31] |= 0x80;
        let nm: &'static str = Box::leak(format!("{} with bit 255 set", n).into_boxed_str());
        out.push((nm, h));
    }
    out
}
pub fn is_low_order(name: &str) -> bool { name.contains("order") }

/// `prims-sweep-c05 <kx_table.json> <out.json> <seed> <nrandom> <iterations>`
pub fn cmd_sweep_c05(args: &[String]) {
    let table: Value = serde_json::from_str(&std::fs::read_to_string(&args[0]).unwrap()).unwrap();
    let seed: u64 = args[2].parse().unwrap();
    let nrandom: u64 = args[3].parse().unwrap();
    let iters: u64 = args[4].parse().unwrap();
    let mut rng = Rng::new(seed ^ 0xc05);
    let mut rep = Report::new();
    let specials = special_points();
    let scalars: Vec<(&str, [u8; 32])> = vec![("rfc", a32(&hex::decode("a546e36bf0527c9d3b16154b82465edd62144c0ac1fc5a18506a2244ba449ac4").unwrap())), ("zero", [0u8; 32]), ("all ff", [0xffu8; 32]), ("07..07", [7u8; 32]), ("random", rng.arr()), ("random2", rng.arr())];
    // the special table, every scalar
    for (pn, p) in specials.iter() {
        for (sn, n) in scalars.iter() {
            let (im, sod, _) = x25519(n, p);
            compare(&mut rep, "x25519 special point", im, &[("libsodium", sod.as_ref())], json!({"point": pn, "scalar": sn}));
        }
    }
    // uniformly random (scalar, encoding) pairs: ~94% are off the prime-order subgroup
    let (mut pn, mut pp): ([u8; 32], [u8; 32]) = (rng.arr(), rng.arr());
    for i in 0..nrandom {
        // now and then one operand is the previous call's (whatever is kept between calls must not depend on half the input)
        let n: [u8; 32] = if i % 10 == 3 { pn } else { rng.arr() };
        let p: [u8; 32] = if i % 10 == 7 { pp } else { rng.arr() };
        pn = n; pp = p;
        let (im, sod, _) = x25519(&n, &p);
        compare(&mut rep, "x25519 random point", im, &[("libsodium", sod.as_ref())], json!({"i": i, "scalar": hex(&n), "point": hex(&p), "seed": seed}));
        if i % 16 == 0 {
            let (im, sod) = x25519base(&n);
            compare(&mut rep, "x25519 base", im, &[("libsodium", sod.as_ref())], json!({"scalar": hex(&n)}));
        }
    }
    // RFC 7748 iteration: k, u := X25519(k, u), k
    let mut k = { let mut v = [0u8; 32]; v[0] = 9; v };
    let mut u = k;
    for it in 0..iters {
        let mut q = [0u8; 32];
        cc::crypto_scalarmult(&mut q, &k, &u);
        let mut r = [0u8; 32];
        unsafe { so::crypto_scalarmult(r.as_mut_ptr(), k.as_ptr(), u.as_ptr()) };
        rep.evaluations += 1;
        if q != r { rep.fail("x25519 iterated vector: crypto_scalarmult differs from libsodium", json!({"iteration": it})); break; }
        u = k; k = q;
    }
    if iters >= 1000 {
        let want = hex::decode("684cf59ba83309552800ef566f2f4d3c1c3887c49360e3875f2eb94d99532c51").unwrap();
        if k.to_vec() != want { rep.fail("x25519 iterated vector: value after 1000 iterations differs from RFC 7748", json!({"got": hex(&k)})); }
    }
    // DH commutes; beforenm = libsodium; object API routes
    for i in 0..200u64 {
        let a: [u8; 32] = rng.arr();
        let b: [u8; 32] = rng.arr();
        let (mut pa, mut pb) = ([0u8; 32], [0u8; 32]);
        cc::crypto_scalarmult_base(&mut pa, &a); cc::crypto_scalarmult_base(&mut pb, &b);
        let (mut s1, mut s2) = ([0u8; 32], [0u8; 32]);
        cc::crypto_scalarmult(&mut s1, &a, &pb); cc::crypto_scalarmult(&mut s2, &b, &pa);
        rep.evaluations += 1;
        if s1 != s2 { rep.fail("x25519: Diffie-Hellman does not commute for honest pairs", json!({"i": i})); }
        let k1 = cb::crypto_box_beforenm(&pb, &a);
        let mut ks = [0u8; 32];
        unsafe { so::crypto_box_beforenm(ks.as_mut_ptr(), pb.as_ptr(), a.as_ptr()) };
        let pre = dryoc::precalc::PrecalcSecretKey::precalculate(&StackByteArray::from(&pb), &StackByteArray::from(&a));
        let kp: dryoc::dryocbox::KeyPair = dryoc::keypair::KeyPair::from_secret_key(StackByteArray::from(&a));
        let pre2 = kp.precalculate(&StackByteArray::from(&pb));
        rep.evaluations += 3;
        if k1 != ks { rep.fail("crypto_box_beforenm differs from libsodium", json!({"i": i})); }
        if pre.as_slice() != ks || pre2.as_slice() != ks { rep.fail("PrecalcSecretKey / KeyPair::precalculate differs from libsodium", json!({"i": i})); }
        let pre3 = dryoc::precalc::PrecalcSecretKey::precalculate(&pb, &a);
        rep.evaluations += 1;
        if pre3.as_slice() != ks { rep.fail("PrecalcSecretKey::precalculate over [u8;32] differs from libsodium", json!({"i": i})); }
        #[cfg(feature = "nightly")]
        if i < 60 {
            use dryoc::protected::{HeapByteArray, NewLockedFromSlice};
            let lk = |x: &[u8; 32]| HeapByteArray::<32>::from_slice_into_locked(x).unwrap();
            let ro = |x: &[u8; 32]| HeapByteArray::<32>::from_slice_into_readonly_locked(x).unwrap();
            rep.evaluations += 4;
            match dryoc::precalc::PrecalcSecretKey::precalculate_locked(&StackByteArray::from(&pb), &lk(&a)) { Ok(k) => if k.as_slice() != ks { rep.fail("PrecalcSecretKey::precalculate_locked differs from libsodium", json!({"i": i})); }, Err(e) => rep.fail("PrecalcSecretKey::precalculate_locked failed", json!(format!("{:?}", e))) }
            match dryoc::precalc::PrecalcSecretKey::precalculate_readonly_locked(&StackByteArray::from(&pb), &lk(&a)) { Ok(k) => if k.as_slice() != ks { rep.fail("PrecalcSecretKey::precalculate_readonly_locked differs from libsodium", json!({"i": i})); }, Err(e) => rep.fail("PrecalcSecretKey::precalculate_readonly_locked failed", json!(format!("{:?}", e))) }
            let lkp: dryoc::dryocbox::protected::LockedKeyPair = dryoc::keypair::KeyPair { public_key: lk(&pa), secret_key: lk(&a) };
            match lkp.precalculate_locked(&lk(&pb)) { Ok(k) => if k.as_slice() != ks { rep.fail("KeyPair<Locked>::precalculate_locked differs from libsodium", json!({"i": i})); }, Err(e) => rep.fail("KeyPair<Locked>::precalculate_locked failed", json!(format!("{:?}", e))) }
            let rkp: dryoc::dryocbox::protected::LockedROKeyPair = dryoc::keypair::KeyPair { public_key: ro(&pa), secret_key: ro(&a) };
            match rkp.precalculate_readonly_locked(&ro(&pb)) { Ok(k) => if k.as_slice() != ks { rep.fail("KeyPair<LockedRO>::precalculate_readonly_locked differs from libsodium", json!({"i": i})); }, Err(e) => rep.fail("KeyPair<LockedRO>::precalculate_readonly_locked failed", json!(format!("{:?}", e))) }
        }
    }
    // beforenm with adversarial peer keys: equal to libsodium wherever libsodium produces a key
    for (pn, p) in specials.iter() {
        let a: [u8; 32] = rng.arr();
        let mut ks = [0u8; 32];
        let rc = unsafe { so::crypto_box_beforenm(ks.as_mut_ptr(), p.as_ptr(), a.as_ptr()) };
        rep.evaluations += 1;
        if rc == 0 && cb::crypto_box_beforenm(p, &a) != ks { rep.fail("crypto_box_beforenm differs from libsodium on a special point", json!({"point": pn})); }
    }
    // key exchange: per role and peer class of Kx.tla
    for row in table.as_array().unwrap() {
        let role = row["role"].as_str().unwrap();
        let cls = row["peer"].as_str().unwrap();
        let model_ok = row["ok"].as_bool().unwrap();
        let peers: Vec<(String, [u8; 32])> = match cls {
            "honest" => (0..20).map(|_| { let s: [u8; 32] = rng.arr(); let mut p = [0u8; 32]; cc::crypto_scalarmult_base(&mut p, &s); ("honest".to_string(), p) }).collect(),
            "low_order" => specials.iter().filter(|(n, _)| is_low_order(n)).map(|(n, p)| (n.to_string(), *p)).collect(),
            "twist" => (0..20).map(|i| { let mut p: [u8; 32] = rng.arr(); if i == 0 { p = [0u8; 32]; p[0] = 2; } (format!("random encoding {}", i), p) }).collect(),
            "non_canonical" => specials.iter().filter(|(n, _)| n.contains("non-canonical") && !is_low_order(n) && !n.contains("bit 255")).map(|(n, p)| (n.to_string(), *p)).collect(),
            "high_bit_set" => (0..10).map(|_| { let s: [u8; 32] = rng.arr(); let mut p = [0u8; 32]; cc::crypto_scalarmult_base(&mut p, &s); p[31] |= 0x80; ("honest with bit 255 set".to_string(), p) }).collect(),
            _ => vec![],
        };
        for (pn, peer) in peers {
            let me_sk: [u8; 32] = rng.arr();
            let mut me_pk = [0u8; 32];
            cc::crypto_scalarmult_base(&mut me_pk, &me_sk);
            // the own public key enters the session keys as the bytes the caller holds: usually the key that belongs to the
            // secret key, sometimes another encoding of it (bit 255 set) or a key that does not belong to it at all
            match rng.below(4) { 1 => me_pk[31] |= 0x80, 2 => { let o: [u8; 32] = rng.arr(); cc::crypto_scalarmult_base(&mut me_pk, &o); } _ => {} }
            let (mut srx, mut stx) = ([0u8; 32], [0u8; 32]);
            let rc = unsafe {
                if role == "client" { so::crypto_kx_client_session_keys(srx.as_mut_ptr(), stx.as_mut_ptr(), me_pk.as_ptr(), me_sk.as_ptr(), peer.as_ptr()) }
                else { so::crypto_kx_server_session_keys(srx.as_mut_ptr(), stx.as_mut_ptr(), me_pk.as_ptr(), me_sk.as_ptr(), peer.as_ptr()) }
            };
            // a random 32-byte string may itself be low order only with negligible probability; libsodium's verdict is the class
            let sod_ok = rc == 0;
            if cls != "twist" && sod_ok != model_ok { rep.fail("Kx.tla's verdict differs from libsodium (specification error)", json!({"role": role, "peer": pn})); continue; }
            let (mut rx, mut tx) = ([0u8; 32], [0u8; 32]);
            let r = if role == "client" { ckx::crypto_kx_client_session_keys(&mut rx, &mut tx, &me_pk, &me_sk, &peer) } else { ckx::crypto_kx_server_session_keys(&mut rx, &mut tx, &me_pk, &me_sk, &peer) };
            rep.evaluations += 1;
            rep.case(&format!("kx|{}|{}|{}", role, cls, hex(&peer)));
            let d = json!({"role": role, "peer_class": cls, "peer": pn, "peer_key": hex(&peer)});
            match (r.is_ok(), sod_ok) {
                (true, true) => { if rx != srx || tx != stx { rep.fail("crypto_kx session keys differ from libsodium", d.clone()); } }
                (false, false) => {}
                (true, false) => rep.fail("crypto_kx accepts a peer key whose shared secret is all-zero", d.clone()),
                (false, true) => rep.fail("crypto_kx rejects a peer key libsodium accepts", d.clone()),
            }
            // object API
            let kp: dryoc::kx::KeyPair = dryoc::keypair::KeyPair { public_key: StackByteArray::from(&me_pk), secret_key: StackByteArray::from(&me_sk) };
            let sess: Result<dryoc::kx::Session<StackByteArray<32>>, _> = if role == "client" { dryoc::kx::Session::new_client(&kp, &StackByteArray::from(&peer)) } else { dryoc::kx::Session::new_server(&kp, &StackByteArray::from(&peer)) };
            let sess2: Result<dryoc::kx::Session<StackByteArray<32>>, _> = if role == "client" { kp.kx_new_client_session(&StackByteArray::from(&peer)) } else { kp.kx_new_server_session(&StackByteArray::from(&peer)) };
            let sess3: Result<dryoc::kx::Session<StackByteArray<32>>, _> = if role == "client" { dryoc::kx::Session::new_client_with_defaults(&kp, &StackByteArray::from(&peer)) } else { dryoc::kx::Session::new_server_with_defaults(&kp, &StackByteArray::from(&peer)) };
            let akp: dryoc::keypair::KeyPair<[u8; 32], [u8; 32]> = dryoc::keypair::KeyPair { public_key: me_pk, secret_key: me_sk };
            let sess4: Result<dryoc::kx::Session<StackByteArray<32>>, _> = if role == "client" { dryoc::kx::Session::new_client(&akp, &peer) } else { dryoc::kx::Session::new_server(&akp, &peer) };
            rep.evaluations += 4;
            // every accessor of the session object: (rx_as_slice, tx_as_slice, rx_as_array, tx_as_array, into_parts)
            fn proj<K: dryoc::types::ByteArray<32> + zeroize::Zeroize>(s: dryoc::kx::Session<K>) -> Vec<Vec<u8>> {
                let mut v = vec![s.rx_as_slice().to_vec(), s.tx_as_slice().to_vec(), s.rx_as_array().to_vec(), s.tx_as_array().to_vec()];
                let (rx, tx) = s.into_parts(); v.push(rx.as_slice().to_vec()); v.push(tx.as_slice().to_vec()); v
            }
            let mut all = vec![("Session::new", sess.map(proj)), ("KeyPair::kx_new_session", sess2.map(proj)), ("Session::new_with_defaults", sess3.map(proj)), ("Session::new over [u8;32] keys", sess4.map(proj))];
            #[cfg(feature = "nightly")]
            {
                use dryoc::protected::{HeapByteArray, NewLockedFromSlice, Locked};
                let lkp: dryoc::kx::protected::LockedKeyPair = dryoc::keypair::KeyPair { public_key: HeapByteArray::<32>::from_slice_into_locked(&me_pk).unwrap(), secret_key: HeapByteArray::<32>::from_slice_into_locked(&me_sk).unwrap() };
                let lpeer = HeapByteArray::<32>::from_slice_into_locked(&peer).unwrap();
                let ls: Result<dryoc::kx::Session<Locked<HeapByteArray<32>>>, _> = if role == "client" { dryoc::kx::Session::new_client(&lkp, &lpeer) } else { dryoc::kx::Session::new_server(&lkp, &lpeer) };
                rep.evaluations += 1;
                all.push(("Session<Locked>::new over locked keys", ls.map(proj)));
            }
            let want = vec![srx.to_vec(), stx.to_vec(), srx.to_vec(), stx.to_vec(), srx.to_vec(), stx.to_vec()];
            for (nm, s) in all {
                match (s, sod_ok) {
                    (Ok(got), true) => { if got != want { rep.fail(&format!("{} keys differ from libsodium", nm), d.clone()); } }
                    (Err(_), false) => {}
                    (Ok(_), false) => rep.fail(&format!("{} accepts a peer key whose shared secret is all-zero", nm), d.clone()),
                    (Err(_), true) => rep.fail(&format!("{} rejects a peer key libsodium accepts", nm), d.clone()),
                }
            }
        }
    }
    // mirror: the client's rx/tx are the server's tx/rx
    for i in 0..100u64 {
        let (c_sk, s_sk): ([u8; 32], [u8; 32]) = (rng.arr(), rng.arr());
        let (mut c_pk, mut s_pk) = ([0u8; 32], [0u8; 32]);
        cc::crypto_scalarmult_base(&mut c_pk, &c_sk); cc::crypto_scalarmult_base(&mut s_pk, &s_sk);
        let (mut crx, mut ctx, mut srx, mut stx) = ([0u8; 32], [0u8; 32], [0u8; 32], [0u8; 32]);
        let r1 = ckx::crypto_kx_client_session_keys(&mut crx, &mut ctx, &c_pk, &c_sk, &s_pk);
        let r2 = ckx::crypto_kx_server_session_keys(&mut srx, &mut stx, &s_pk, &s_sk, &c_pk);
        rep.evaluations += 1;
        if r1.is_err() || r2.is_err() || crx != stx || ctx != srx || crx == ctx { rep.fail("crypto_kx: client and server keys do not mirror", json!({"i": i})); }
    }
    rep.sample(json!({"special_points": specials.iter().map(|s| s.0).collect::<Vec<_>>(), "scalars": scalars.iter().map(|s| s.0).collect::<Vec<_>>(), "random_pairs": nrandom, "iterations": iters}));
    rep.write(&args[1]);
}

// ------------------------------------------------------------------------------------------ C13 sweep
/// `prims-sweep-c13 <out.json> <seed>`
pub fn cmd_sweep_c13(args: &[String]) {
    let seed: u64 = args[1].parse().unwrap();
    let mut rng = Rng::new(seed ^ 0xc13);
    let mut rep = Report::new();
    // box key pairs from seeds of every length 0..=128: sk = SHA-512(seed)[..32], pk = base * sk; libsodium's own for 32
    for len in 0..=128usize {
        for round in 0..4 {
            let s = if round == 0 { vec![0xffu8; len] } else if round == 3 { vec![0u8; len] } else { rng.bytes(len) };
            let mut h = [0u8; 64];
            unsafe { so::crypto_hash_sha512(h.as_mut_ptr(), s.as_ptr(), len as u64) };
            let want_sk = a32(&h);
            let mut want_pk = [0u8; 32];
            unsafe { so::crypto_scalarmult_base(want_pk.as_mut_ptr(), want_sk.as_ptr()) };
            if len == 32 {
                let (mut p2, mut s2) = ([0u8; 32], [0u8; 32]);
                unsafe { so::crypto_box_seed_keypair(p2.as_mut_ptr(), s2.as_mut_ptr(), s.as_ptr()) };
                if p2 != want_pk || s2 != want_sk { rep.fail("construction differs from libsodium's crypto_box_seed_keypair (specification error)", json!(len)); }
            }
            rep.case(&format!("boxseed|{}|{}", len, round));
            let (pk, sk) = cb::crypto_box_seed_keypair(&s);
            // output buffers that already hold something: zeros, or the seed itself (a cache from an earlier derivation)
            let (mut pk2, mut sk2) = ([0u8; 32], [0u8; 32]);
            if round == 1 { let n = len.min(32); sk2[..n].copy_from_slice(&s[..n]); pk2 = [0x3cu8; 32]; }
            cb::crypto_box_seed_keypair_inplace(&mut pk2, &mut sk2, &s);
            let kp: dryoc::dryocbox::KeyPair = dryoc::keypair::KeyPair::from_seed(&s);
            rep.evaluations += 3;
            let d = json!({"seed_len": len, "round": round});
            if pk != want_pk || sk != want_sk { rep.fail("crypto_box_seed_keypair differs from libsodium's construction", d.clone()); }
            if pk2 != want_pk || sk2 != want_sk { rep.fail("crypto_box_seed_keypair_inplace differs from libsodium's construction", d.clone()); }
            if kp.public_key.as_slice() != want_pk || kp.secret_key.as_slice() != want_sk { rep.fail("KeyPair::from_seed differs from libsodium's construction", d.clone()); }
        }
    }
    for i in 0..300u64 {
        // public key recomputed from any secret key, including unclamped ones
        let sk: [u8; 32] = match i { 0 => [0u8; 32], 1 => [0xffu8; 32], _ => rng.arr() };
        let (im, sod) = x25519base(&sk);
        compare(&mut rep, "public key from secret key", im, &[("libsodium", sod.as_ref())], json!({"i": i}));
        // kx and signing key pairs from 32-byte seeds
        let s: [u8; 32] = match i { 0 => [0u8; 32], 1 => [0xffu8; 32], 2 => { let mut z = [0u8; 32]; z[31] = 1; z }, _ => rng.arr() };
        rep.case(&format!("seed32|{}", hex(&s)));
        let (mut p2, mut s2) = ([0u8; 32], [0u8; 32]);
        unsafe { so::crypto_kx_seed_keypair(p2.as_mut_ptr(), s2.as_mut_ptr(), s.as_ptr()) };
        rep.evaluations += 1;
        match ckx::crypto_kx_seed_keypair(&s) { Ok((p, k)) => { if p != p2 || k != s2 { rep.fail("crypto_kx_seed_keypair differs from libsodium", json!({"i": i})); } } Err(e) => rep.fail("crypto_kx_seed_keypair failed", json!(format!("{:?}", e))) }
        let (mut ep, mut esk) = ([0u8; 32], [0u8; 64]);
        unsafe { so::crypto_sign_seed_keypair(ep.as_mut_ptr(), esk.as_mut_ptr(), s.as_ptr()) };
        let (dp, dsk) = csg::crypto_sign_seed_keypair(&s);
        let skp: dryoc::sign::SigningKeyPair<StackByteArray<32>, StackByteArray<64>> = dryoc::sign::SigningKeyPair::from_seed(&s);
        let skp2: dryoc::sign::SigningKeyPair<StackByteArray<32>, StackByteArray<64>> = dryoc::sign::SigningKeyPair::from_secret_key(StackByteArray::from(&esk));
        rep.evaluations += 3;
        // the same routes with the keys held in containers without a length of their own
        if i % 8 == 0 {
            rep.evaluations += 2;
            match catch(|| { let k: dryoc::sign::SigningKeyPair<Vec<u8>, Vec<u8>> = dryoc::sign::SigningKeyPair::from_secret_key(esk.to_vec()); (k.public_key.clone(), k.secret_key.clone()) }) {
                Ok((p, k)) => if p != ep || k != esk { rep.fail("SigningKeyPair<Vec,Vec>::from_secret_key differs from libsodium", json!({"i": i})); },
                Err(p) => rep.fail("SigningKeyPair<Vec,Vec>::from_secret_key panics", json!({"i": i, "panic": p})),
            }
            match catch(|| { let k: dryoc::sign::SigningKeyPair<Vec<u8>, Vec<u8>> = dryoc::sign::SigningKeyPair::from_seed(&s); (k.public_key.clone(), k.secret_key.clone()) }) {
                Ok((p, k)) => if p != ep || k != esk { rep.fail("SigningKeyPair<Vec,Vec>::from_seed differs from libsodium", json!({"i": i})); },
                Err(p) => rep.fail("SigningKeyPair<Vec,Vec>::from_seed panics", json!({"i": i, "panic": p})),
            }
            match catch(|| { let k: dryoc::keypair::KeyPair<Vec<u8>, Vec<u8>> = dryoc::keypair::KeyPair::from_secret_key(s2.to_vec()); k.public_key.clone() }) {
                Ok(p) => { let mut w = [0u8; 32]; unsafe { so::crypto_scalarmult_base(w.as_mut_ptr(), s2.as_ptr()) }; if p != w { rep.fail("KeyPair<Vec,Vec>::from_secret_key differs from libsodium", json!({"i": i})); } },
                Err(p) => rep.fail("KeyPair<Vec,Vec>::from_secret_key panics", json!({"i": i, "panic": p})),
            }
        }
        if dp != ep || dsk != esk { rep.fail("crypto_sign_seed_keypair differs from libsodium", json!({"i": i})); }
        {
            // in-place and per-curve entry points, into buffers that are not zero beforehand
            let (mut ip, mut isk) = ([0xA5u8; 32], [0x5Au8; 64]);
            csg::crypto_sign_seed_keypair_inplace(&mut ip, &mut isk, &s);
            // buffers left over from an earlier derivation: the seed half in place, the public half stale or zero
            for stale in [[0u8; 32], [0x77u8; 32], ep] {
                let (mut jp, mut jsk) = ([0u8; 32], [0u8; 64]);
                jsk[..32].copy_from_slice(&s); jsk[32..].copy_from_slice(&stale); jp = stale;
                csg::crypto_sign_seed_keypair_inplace(&mut jp, &mut jsk, &s);
                rep.evaluations += 1;
                if jp != ep || jsk != esk { rep.fail("crypto_sign_seed_keypair_inplace into preloaded buffers differs from libsodium", json!({"i": i, "stale_public_half": hex(&stale)})); }
            }
            // a stored secret key whose public half is not the public key of its seed: the pair is recomputed from the seed
            for stale in [[0u8; 32], [0x77u8; 32]] {
                let mut bad = esk; bad[32..].copy_from_slice(&stale);
                let kp: dryoc::sign::SigningKeyPair<StackByteArray<32>, StackByteArray<64>> = dryoc::sign::SigningKeyPair::from_secret_key(StackByteArray::from(&bad));
                rep.evaluations += 1;
                if kp.public_key.as_slice() != ep || kp.secret_key.as_slice() != esk { rep.fail("SigningKeyPair::from_secret_key: pair not recomputed from the seed half", json!({"i": i, "stale_public_half": hex(&stale)})); }
            }
            rep.evaluations += 1;
            if ip != ep || isk != esk { rep.fail("crypto_sign_seed_keypair_inplace differs from libsodium", json!({"i": i})); }
            // the key pair object over other containers
            let akp: dryoc::sign::SigningKeyPair<[u8; 32], [u8; 64]> = dryoc::sign::SigningKeyPair::from_seed(&s);
            let vkp: dryoc::sign::SigningKeyPair<StackByteArray<32>, StackByteArray<64>> = dryoc::sign::SigningKeyPair::from_seed(&s.to_vec());
            rep.evaluations += 2;
            if akp.public_key != ep || akp.secret_key != esk { rep.fail("SigningKeyPair<[u8;32],[u8;64]>::from_seed differs from libsodium", json!({"i": i})); }
            if vkp.public_key.as_slice() != ep || vkp.secret_key.as_slice() != esk { rep.fail("SigningKeyPair::from_seed(Vec seed) differs from libsodium", json!({"i": i})); }
        }
        if skp.public_key.as_slice() != ep || skp.secret_key.as_slice() != esk { rep.fail("SigningKeyPair::from_seed differs from libsodium", json!({"i": i})); }
        if skp2.public_key.as_slice() != ep || skp2.secret_key.as_slice() != esk { rep.fail("SigningKeyPair::from_secret_key differs from libsodium", json!({"i": i})); }
        // Ed25519 -> X25519
        let (mut xs, mut xp) = ([0u8; 32], [0u8; 32]);
        unsafe { so::crypto_sign_ed25519_sk_to_curve25519(xs.as_mut_ptr(), esk.as_ptr()); so::crypto_sign_ed25519_pk_to_curve25519(xp.as_mut_ptr(), ep.as_ptr()); }
        let (mut dxs, mut dxp) = ([0u8; 32], [0u8; 32]);
        ced::crypto_sign_ed25519_sk_to_curve25519(&mut dxs, &esk);
        let r = ced::crypto_sign_ed25519_pk_to_curve25519(&mut dxp, &ep);
        rep.evaluations += 3;
        if dxs != xs { rep.fail("crypto_sign_ed25519_sk_to_curve25519 differs from libsodium", json!({"i": i})); }
        if r.is_err() || dxp != xp { rep.fail("crypto_sign_ed25519_pk_to_curve25519 differs from libsodium", json!({"i": i})); }
        let mut base = [0u8; 32];
        cc::crypto_scalarmult_base(&mut base, &dxs);
        if base != dxp { rep.fail("converted Ed25519 pair is not consistent: base * xsk != xpk", json!({"i": i})); }
    }
    // Ed25519 public keys with rare byte patterns (y close to 2^255: top byte 0x7f/0xff, low byte >= 0xed, 0xff bytes inside):
    // found by search over counter seeds; conversion must equal libsodium's like for any other key
    {
        let mut found = [0usize; 4];
        let mut ctr = 0u64;
        while ctr < 400_000 && (found[0] < 6 || found[1] < 4 || found[2] < 3 || found[3] < 6) {
            ctr += 1;
            let mut sd = [0u8; 32];
            sd[..8].copy_from_slice(&ctr.to_le_bytes()); sd[8] = (seed & 0xff) as u8;
            let (mut ep, mut esk) = ([0u8; 32], [0u8; 64]);
            unsafe { so::crypto_sign_seed_keypair(ep.as_mut_ptr(), esk.as_mut_ptr(), sd.as_ptr()) };
            let top = ep[31] & 0x7f == 0x7f;
            let class = if top && ep[0] >= 0xed && ep[1..31].iter().any(|b| *b == 0xff) { 2 } else if top && ep[0] >= 0xed { 1 } else if top { 0 }
                        else if ep.iter().filter(|b| **b == 0xff).count() >= 2 || ep[31] & 0x7f == 0 { 3 } else { continue };
            if found[class] >= 6 { continue; }
            found[class] += 1;
            rep.case(&format!("rarepk|{}", hex(&ep)));
            let (mut xp, mut dxp) = ([0u8; 32], [0u8; 32]);
            let src = unsafe { so::crypto_sign_ed25519_pk_to_curve25519(xp.as_mut_ptr(), ep.as_ptr()) };
            let r = ced::crypto_sign_ed25519_pk_to_curve25519(&mut dxp, &ep);
            rep.evaluations += 2;
            if (src == 0) != r.is_ok() || (src == 0 && dxp != xp) { rep.fail("crypto_sign_ed25519_pk_to_curve25519 differs from libsodium on a public key with a rare byte pattern", json!({"pk": hex(&ep), "class": class})); }
            let (dp, dsk) = csg::crypto_sign_seed_keypair(&sd);
            if dp != ep || dsk != esk { rep.fail("crypto_sign_seed_keypair differs from libsodium", json!({"pk": hex(&ep)})); }
        }
        rep.add("rare_public_key_patterns_found", found.iter().sum::<usize>() as u64);
    }
    // a key pair derived with an Argon2i configuration (such a Config only comes out of a parsed string or of serde):
    // libsodium's minimum pass count for Argon2i (3) and above
    for (t, mem) in [(3u64, 8192usize), (4, 8192), (3, 16384), (5, 12288)] {
        let pw = rng.bytes(9);
        let salt = rng.bytes(16);
        let mut sbuf = [0i8; 128];
        let rc = unsafe { so::crypto_pwhash_str_alg(sbuf.as_mut_ptr(), pw.as_ptr() as *const _, pw.len() as u64, t, mem, 1) };
        if rc != 0 { rep.fail("HARNESS: libsodium could not produce an Argon2i string", json!({"t": t})); continue; }
        let sref: String = sbuf.iter().take_while(|c| **c != 0).map(|c| *c as u8 as char).collect();
        rep.evaluations += 1;
        rep.case(&format!("argon2i-keypair|{}|{}", t, mem));
        let cfg = match dryoc::pwhash::PwHash::<Vec<u8>, Vec<u8>>::from_string(&sref) { Ok(p) => p.into_parts().2, Err(e) => { rep.fail("PwHash::from_string rejects a libsodium Argon2i string", json!(format!("{:?}", e))); continue; } };
        let kp: Result<dryoc::dryocbox::KeyPair, _> = dryoc::pwhash::PwHash::<Vec<u8>, Vec<u8>>::derive_keypair(&pw, salt.clone(), cfg);
        let mut want_sk = [0u8; 32];
        let rc = unsafe { so::crypto_pwhash(want_sk.as_mut_ptr(), 32, pw.as_ptr() as *const _, pw.len() as u64, salt.as_ptr(), t, mem, 1) };
        let mut want_pk = [0u8; 32];
        unsafe { so::crypto_scalarmult_base(want_pk.as_mut_ptr(), want_sk.as_ptr()) };
        match kp {
            Ok(kp) => if rc != 0 || kp.secret_key.as_slice() != want_sk || kp.public_key.as_slice() != want_pk { rep.fail("PwHash::derive_keypair (Argon2i) differs from libsodium's construction", json!({"t": t, "mem": mem})); },
            Err(e) => if rc == 0 { rep.fail("PwHash::derive_keypair refuses Argon2i parameters libsodium accepts", json!({"t": t, "mem": mem, "err": format!("{:?}", e)})); },
        }
    }
    // key pair derived from a password: secret = Argon2(password), public = base * secret
    for i in 0..18u64 {
        // passwords of every kind libsodium accepts: the empty one, a single zero byte, ordinary ones
        let pw = match i { 16 => vec![], 17 => vec![0u8], _ => rng.bytes(5 + i as usize) };
        let salt = rng.bytes(16);
        // the key pair is the 32-byte Argon2 output whatever the configuration's hash/salt length settings are
        let hl = [32usize, 16, 33, 64, 128, 31][(i % 6) as usize];
        // the configuration is built in every order of the setters, from every preset (a setter keeps what the others set)
        let (ol, ml, sl) = (1 + i % 3, 8192 * (1 + i as usize), 8 + (i as usize) % 24);
        let cfg = match i % 4 {
            0 => dryoc::pwhash::Config::interactive().with_opslimit(ol).with_memlimit(ml).with_hash_length(hl).with_salt_length(sl),
            1 => dryoc::pwhash::Config::moderate().with_memlimit(ml).with_opslimit(ol).with_salt_length(sl).with_hash_length(hl),
            2 => dryoc::pwhash::Config::sensitive().with_hash_length(hl).with_memlimit(ml).with_salt_length(sl).with_opslimit(ol),
            _ => dryoc::pwhash::Config::interactive().with_opslimit(7).with_memlimit(ml).with_opslimit(ol).with_hash_length(hl).with_salt_length(sl),
        };
        let kp: Result<dryoc::dryocbox::KeyPair, _> = dryoc::pwhash::PwHash::<Vec<u8>, Vec<u8>>::derive_keypair(&pw, salt.clone(), cfg);
        let mut want_sk = [0u8; 32];
        let rc = unsafe { so::crypto_pwhash(want_sk.as_mut_ptr(), 32, pw.as_ptr() as *const _, pw.len() as u64, salt.as_ptr(), 1 + i % 3, 8192 * (1 + i as usize), 2) };
        let mut want_pk = [0u8; 32];
        unsafe { so::crypto_scalarmult_base(want_pk.as_mut_ptr(), want_sk.as_ptr()) };
        rep.evaluations += 1;
        match kp { Ok(kp) => { if rc != 0 || kp.secret_key.as_slice() != want_sk || kp.public_key.as_slice() != want_pk { rep.fail("PwHash::derive_keypair differs from libsodium's construction", json!({"i": i, "config_hash_length": hl})); } } Err(e) => rep.fail("PwHash::derive_keypair failed", json!(format!("{:?}", e))) }
    }
    rep.sample(json!({"box_seed_lengths": "0..=128 x 3", "seeds_32": 300, "password_keypairs": 16}));
    rep.write(&args[0]);
}

// ------------------------------------------------------------------------------------------ C09 sweep
/// `prims-sweep-c09 <out.json> <seed> <first> <stride> <thorough 0|1>`: dryoc = libsodium over the parameter grid
/// wherever libsodium accepts; rejected parameters are errors on both; object API verify.
pub fn cmd_sweep_c09(args: &[String]) {
    let seed: u64 = args[1].parse().unwrap();
    let first: usize = args[2].parse().unwrap();
    let stride: usize = args[3].parse().unwrap();
    let thorough = args[4] == "1";
    let mut rng = Rng::new(seed ^ 0xc09);
    let mut rep = Report::new();
    let mut idx = 0usize;
    let mut case = |rep: &mut Report, rng: &mut Rng, ty: u64, t: u64, mkib: u64, outlen: usize, pwlen: usize| {
        let pw = rng.bytes(pwlen);
        let salt = rng.bytes(16);
        idx += 1;
        if idx % stride != first { return; }
        // the memory limit is given in bytes: whole KiB and every kind of remainder
        let rem = [0usize, 0, 1, 512, 1023][idx % 5];
        let (im, sod) = argon2_bytes(ty, &pw, &salt, t, (mkib as usize) * 1024 + rem, outlen);
        if sod.is_none() { rep.fail("libsodium rejects a grid point (harness error)", json!({"type": ty, "t": t, "m": mkib, "outlen": outlen})); return; }
        compare(rep, "argon2", im, &[("libsodium", sod.as_ref())], json!({"type": ty, "t": t, "m_kib": mkib, "memlimit_bytes": (mkib as usize) * 1024 + rem, "outlen": outlen, "pwlen": pwlen, "seed": seed}));
    };
    // output lengths: every length 16..=200 (all residues mod 32 around 64, 96, 128), then around 1024 and up to 1100
    for outlen in (16..=200usize).chain([255, 256, 257, 1023, 1024, 1025, 1100]) {
        for ty in [1u64, 2] { case(&mut rep, &mut rng, ty, 3, 8, outlen, 7); }
    }
    // password lengths 0..=300
    for pwlen in (0..=300usize).step_by(if thorough { 1 } else { 7 }).chain([0, 1, 63, 64, 65, 127, 128, 129]) {
        case(&mut rep, &mut rng, 2, 1, 8, 32, pwlen);
    }
    // passes and memory sizes, including sizes that are not a multiple of 4 KiB (segment rounding)
    let mems: Vec<u64> = if thorough { (8..=64).chain([100, 127, 128, 129, 255, 256, 257, 511, 512, 1000, 1024, 2047, 2048, 4096]).collect() } else { vec![8, 9, 10, 11, 12, 13, 15, 16, 17, 19, 23, 31, 32, 33, 63, 64, 65, 127, 128, 129, 255, 256, 513, 1024] };
    // segment lengths (memory / 4) above one 128-entry address block and not a multiple of it; slice boundaries
    let mems: Vec<u64> = mems.into_iter().chain([511u64, 512, 515, 516, 520, 1000, 1023, 1500, 2051, 4000]).collect();
    for &m in mems.iter() {
        for t in 1..=(if thorough { 6 } else { 4 }) {
            case(&mut rep, &mut rng, 2, t, m, 32, 9);
            if t >= 3 { case(&mut rep, &mut rng, 1, t, m, 32, 9); }
        }
    }
    if first == 0 {
        // out-of-range parameters are errors, on both sides
        let pw = b"password".to_vec();
        let salt = [7u8; 16];
        for (what, t, mem, outlen) in [("opslimit 0", 0u64, 8192usize, 32usize), ("memlimit 8191", 1, 8191, 32), ("memlimit 0", 1, 0, 32), ("outlen 15", 1, 8192, 15), ("outlen 0", 1, 8192, 0), ("opslimit 2^32", 1u64 << 32, 8192, 32),
            ("opslimit 2^32+1", (1u64 << 32) + 1, 8192, 32), ("opslimit 7*2^32+3", (7u64 << 32) + 3, 8192, 32), ("opslimit 2^63+2", (1u64 << 63) + 2, 8192, 32),
            ("memlimit 2^42+8192 (KiB count wraps to 8)", 1, (1usize << 42) + 8192, 32), ("memlimit 2^42+2^26", 1, (1usize << 42) + (1usize << 26), 32)] {
            let mut o = vec![0u8; outlen];
            let r = catch(|| cp::crypto_pwhash(&mut o, &pw, &salt, t, mem, cp::PasswordHashAlgorithm::Argon2id13));
            let mut so_o = vec![0u8; outlen.max(1)];
            let rc = unsafe { so::crypto_pwhash(so_o.as_mut_ptr(), outlen as u64, pw.as_ptr() as *const _, pw.len() as u64, salt.as_ptr(), t, mem, 2) };
            rep.evaluations += 1;
            if rc == 0 { rep.fail("libsodium accepts an out-of-range parameter (harness error)", json!(what)); continue; }
            match r { Ok(Err(_)) => {}, Ok(Ok(())) => rep.fail("crypto_pwhash accepts an out-of-range parameter", json!(what)), Err(p) => rep.fail("crypto_pwhash panics on an out-of-range parameter", json!({"what": what, "panic": p})) }
        }
        // the same limits through the object API
        for (what, t, mem) in [("opslimit 0", 0u64, 8192usize), ("opslimit 2^32+1", (1u64 << 32) + 1, 8192), ("opslimit 7*2^32+3", (7u64 << 32) + 3, 8192), ("memlimit 8191", 1, 8191), ("memlimit 2^42+8192", 1, (1usize << 42) + 8192)] {
            rep.evaluations += 1;
            let cfg = dryoc::pwhash::Config::interactive().with_opslimit(t).with_memlimit(mem);
            match catch(|| dryoc::pwhash::PwHash::<Vec<u8>, Vec<u8>>::hash_with_salt(&pw, salt.to_vec(), cfg)) {
                Ok(Err(_)) => {}
                Ok(Ok(_)) => rep.fail("PwHash::hash_with_salt accepts an out-of-range parameter", json!(what)),
                Err(p) => rep.fail("PwHash::hash_with_salt panics on an out-of-range parameter", json!({"what": what, "panic": p})),
            }
        }
        // output and salt lengths beyond the range (2^32 and up): an error from every entry point that sizes a buffer after them
        for (what, hl, sl) in [("hash_length 15", 15usize, 16usize), ("hash_length 0", 0, 16), ("hash_length usize::MAX", usize::MAX, 16), ("hash_length 2^63", 1usize << 63, 16), ("hash_length 2^32", 1usize << 32, 16),
            ("salt_length usize::MAX", 32, usize::MAX), ("salt_length 2^63", 32, 1usize << 63), ("salt_length 7", 32, 7), ("salt_length 0", 32, 0)] {
            let cfg = || dryoc::pwhash::Config::interactive().with_opslimit(1).with_memlimit(8192).with_hash_length(hl).with_salt_length(sl);
            rep.evaluations += 2;
            match catch(|| dryoc::pwhash::PwHash::<Vec<u8>, Vec<u8>>::hash(&pw, cfg())) {
                Ok(Err(_)) => {}
                Ok(Ok(_)) => rep.fail("PwHash::hash accepts an out-of-range length", json!(what)),
                Err(p) => rep.fail("PwHash::hash panics on an out-of-range length", json!({"what": what, "panic": p})),
            }
            if sl == 16 {
                match catch(|| dryoc::pwhash::PwHash::<Vec<u8>, Vec<u8>>::hash_with_salt(&pw, salt.to_vec(), cfg())) {
                    Ok(Err(_)) => {}
                    Ok(Ok(_)) => rep.fail("PwHash::hash_with_salt accepts an out-of-range length", json!(what)),
                    Err(p) => rep.fail("PwHash::hash_with_salt panics on an out-of-range length", json!({"what": what, "panic": p})),
                }
            }
        }
        // the builder of the object API: every order of the with_* calls and every preset as a starting point configure the
        // same hash (a setter keeps what the other setters set)
        {
            use dryoc::pwhash::{Config, PwHash};
            let (t, mem, hl, sl) = (2u64, 16 * 1024usize, 40usize, 24usize);
            let salt24 = rng.bytes(sl);
            let mut want = vec![0u8; hl];
            let rc = unsafe { so::crypto_pwhash(want.as_mut_ptr(), hl as u64, pw.as_ptr() as *const _, pw.len() as u64, salt24.as_ptr(), t, mem, 2) };
            // libsodium needs a 16-byte salt; for other salt lengths the classic function (checked above against libsodium) is the reference
            let mut want2 = vec![0u8; hl];
            let _ = rc;
            cp::crypto_pwhash(&mut want2, &pw, &salt24, t, mem, cp::PasswordHashAlgorithm::Argon2id13).unwrap();
            let setters: [(&str, fn(Config) -> Config); 4] = [("opslimit", |c| c.with_opslimit(2)), ("memlimit", |c| c.with_memlimit(16 * 1024)), ("hash_length", |c| c.with_hash_length(40)), ("salt_length", |c| c.with_salt_length(24))];
            let perms: [[usize; 4]; 8] = [[0, 1, 2, 3], [1, 0, 2, 3], [1, 2, 3, 0], [3, 2, 1, 0], [2, 0, 3, 1], [0, 3, 1, 2], [2, 3, 0, 1], [3, 0, 2, 1]];
            for (bn, base) in [("interactive", Config::interactive as fn() -> Config), ("moderate", Config::moderate), ("sensitive", Config::sensitive), ("default", Config::default)] {
                for perm in perms.iter() {
                    let mut c = base();
                    for &i in perm.iter() { c = (setters[i].1)(c); }
                    rep.evaluations += 1;
                    let order: Vec<&str> = perm.iter().map(|&i| setters[i].0).collect();
                    match catch(|| PwHash::<Vec<u8>, Vec<u8>>::hash_with_salt(&pw, salt24.clone(), c)) {
                        Ok(Ok(p)) => { let (h, _s, _c) = p.into_parts(); if h != want2 { rep.fail("PwHash: the configuration depends on the order of the with_* calls", json!({"preset": bn, "order": order, "got_len": h.len()})); } }
                        Ok(Err(e)) => rep.fail("PwHash::hash_with_salt failed on a built configuration", json!({"preset": bn, "order": order, "err": format!("{:?}", e)})),
                        Err(pn) => rep.fail("PwHash::hash_with_salt panicked on a built configuration", json!({"preset": bn, "order": order, "panic": pn})),
                    }
                }
            }
        }
        // a caller-supplied salt is used as given, whatever salt length the configuration names (that setting sizes the
        // RANDOM salt of PwHash::hash): the object API equals the classic function on the same salt
        for (sl_cfg, sl) in [(16usize, 24usize), (16, 64), (16, 8), (8, 16), (32, 17), (24, 24)] {
            use dryoc::pwhash::{Config, PwHash};
            let saltx = rng.bytes(sl);
            let cfg = Config::interactive().with_opslimit(1).with_memlimit(8192).with_salt_length(sl_cfg);
            let mut want = vec![0u8; 32];
            cp::crypto_pwhash(&mut want, &pw, &saltx, 1, 8192, cp::PasswordHashAlgorithm::Argon2id13).unwrap();
            rep.evaluations += 2;
            match catch(|| PwHash::<Vec<u8>, Vec<u8>>::hash_with_salt(&pw, saltx.clone(), cfg.clone())) {
                Ok(Ok(p)) => {
                    let (h, s2, _c) = p.into_parts();
                    if h != want || s2 != saltx { rep.fail("PwHash::hash_with_salt: the hash is not the classic hash of the salt that was supplied", json!({"config_salt_length": sl_cfg, "salt_len": sl})); }
                }
                Ok(Err(e)) => rep.fail("PwHash::hash_with_salt failed on a supplied salt", json!({"config_salt_length": sl_cfg, "salt_len": sl, "err": format!("{:?}", e)})),
                Err(pn) => rep.fail("PwHash::hash_with_salt panicked on a supplied salt", json!({"salt_len": sl, "panic": pn})),
            }
            // an object assembled from a classic hash verifies
            let obj: PwHash<Vec<u8>, Vec<u8>> = PwHash::from_parts(want.clone(), saltx.clone(), cfg);
            if catch(|| obj.verify(&pw).is_ok()) != Ok(true) { rep.fail("PwHash::from_parts(classic hash).verify rejects the right password", json!({"config_salt_length": sl_cfg, "salt_len": sl})); }
        }
        // salts shorter than 8 bytes are outside Argon2's domain
        let mut o = [0u8; 32];
        rep.evaluations += 1;
        if let Ok(Ok(())) = catch(|| cp::crypto_pwhash(&mut o, &pw, &[1u8; 7], 1, 8192, cp::PasswordHashAlgorithm::Argon2id13)) { rep.fail("crypto_pwhash accepts a 7-byte salt", json!({})); }
        // object API: verify accepts the password that produced a hash and rejects every other
        for i in 0..12u64 {
            let pwl = rng.below(40) as usize;
            let pw = rng.bytes(pwl);
            let cfg = dryoc::pwhash::Config::interactive().with_opslimit(1 + i % 3).with_memlimit(8192 + 1024 * (i as usize)).with_hash_length(16 + 7 * i as usize).with_salt_length(8 + i as usize);
            rep.evaluations += 1;
            match dryoc::pwhash::PwHash::<Vec<u8>, Vec<u8>>::hash(&pw, cfg) {
                Ok(h) => {
                    if h.verify(&pw).is_err() { rep.fail("PwHash::verify rejects the password that produced the hash", json!({"i": i})); }
                    for k in 0..pw.len().min(6) * 8 { let mut w = pw.clone(); w[k / 8] ^= 1 << (k % 8); rep.evaluations += 1; if h.verify(&w).is_ok() { rep.fail("PwHash::verify accepts another password", json!({"i": i, "bit": k})); } }
                    let mut longer = pw.clone(); longer.push(0);
                    if h.verify(&longer).is_ok() { rep.fail("PwHash::verify accepts another password", json!({"i": i, "how": "one byte appended"})); }
                }
                Err(e) => rep.fail("PwHash::hash failed on accepted parameters", json!(format!("{:?}", e))),
            }
        }
    }
    rep.sample(json!({"outlens": "16..=200, 255..257, 1023..1025, 1100 (both types, t=3)", "pwlens": "0..=300", "memory_kib": mems, "passes": "1..=4 (thorough 6); Argon2i from 3"}));
    rep.write(&args[0]);
}

// ------------------------------------------------------------------------------------------ end-to-end composition
/// `e2e <out.json> <seed> <n>`: Dryoc.tla's composition with dryoc on one side and libsodium on the other:
/// key exchange -> a secret stream in each direction, a box with the precomputed key, a sealed box.
pub fn cmd_e2e(args: &[String]) {
    use crate::stream::{so_pull, so_push, so_zero, ABYTES};
    use dryoc::classic::crypto_secretstream_xchacha20poly1305 as cs;
    let seed: u64 = args[1].parse().unwrap();
    let n: u64 = args[2].parse().unwrap();
    let mut rng = Rng::new(seed ^ 0xe2e);
    let mut rep = Report::new();
    for i in 0..n {
        // dryoc is the client, libsodium the server (and the other way round on odd rounds)
        let dry_client = i % 2 == 0;
        let (cs1, ss1): ([u8; 32], [u8; 32]) = (rng.arr(), rng.arr());
        let (cpk, csk) = ckx::crypto_kx_seed_keypair(&cs1).unwrap();
        let (mut spk, mut ssk) = ([0u8; 32], [0u8; 32]);
        unsafe { so::crypto_kx_seed_keypair(spk.as_mut_ptr(), ssk.as_mut_ptr(), ss1.as_ptr()) };
        let (mut drx, mut dtx, mut srx, mut stx) = ([0u8; 32], [0u8; 32], [0u8; 32], [0u8; 32]);
        let ok = if dry_client {
            ckx::crypto_kx_client_session_keys(&mut drx, &mut dtx, &cpk, &csk, &spk).is_ok()
                && unsafe { so::crypto_kx_server_session_keys(srx.as_mut_ptr(), stx.as_mut_ptr(), spk.as_ptr(), ssk.as_ptr(), cpk.as_ptr()) == 0 }
        } else {
            // dryoc plays the server with the libsodium-generated pair; libsodium the client with dryoc's pair
            ckx::crypto_kx_server_session_keys(&mut drx, &mut dtx, &spk, &ssk, &cpk).is_ok()
                && unsafe { so::crypto_kx_client_session_keys(srx.as_mut_ptr(), stx.as_mut_ptr(), cpk.as_ptr(), csk.as_ptr(), spk.as_ptr()) == 0 }
        };
        rep.evaluations += 1;
        rep.case(&format!("e2e|{}", i));
        if !ok || drx != stx || dtx != srx { rep.fail("e2e: session keys of a dryoc/libsodium key exchange do not meet", json!({"i": i, "dryoc_is_client": dry_client})); continue; }
        if drx == dtx { rep.fail("e2e: both directions share one key", json!({"i": i})); }
        // stream dryoc -> libsodium keyed with dryoc's tx, and libsodium -> dryoc keyed with libsodium's tx
        let mut dst = cs::State::new();
        let mut hdr = [0u8; 24];
        cs::crypto_secretstream_xchacha20poly1305_init_push(&mut dst, &mut hdr, &dtx);
        let mut sst = so_zero();
        unsafe { so::crypto_secretstream_xchacha20poly1305_init_pull(&mut sst, hdr.as_ptr(), srx.as_ptr()) };
        let mut sps = so_zero();
        let mut hdr2 = [0u8; 24];
        unsafe { so::crypto_secretstream_xchacha20poly1305_init_push(&mut sps, hdr2.as_mut_ptr(), stx.as_ptr()) };
        let mut dpl = cs::State::new();
        cs::crypto_secretstream_xchacha20poly1305_init_pull(&mut dpl, &hdr2, &drx);
        for k in 0..6u64 {
            let mlen = rng.below(200) as usize;
            let m = rng.bytes(mlen);
            let tag = (k % 4) as u8;
            let mut c = vec![0u8; mlen + ABYTES];
            cs::crypto_secretstream_xchacha20poly1305_push(&mut dst, &mut c, &m, None, tag).unwrap();
            rep.evaluations += 2;
            match so_pull(&mut sst, &c, None) { Ok((mm, t)) => if mm != m || t != tag { rep.fail("e2e: libsodium pulls something else than dryoc pushed", json!({"i": i, "k": k})); }, Err(()) => rep.fail("e2e: libsodium rejects a dryoc stream message keyed by the exchange", json!({"i": i, "k": k})) }
            let c2 = so_push(&mut sps, &m, None, tag);
            let mut out = vec![0u8; mlen];
            let mut t = 0u8;
            match cs::crypto_secretstream_xchacha20poly1305_pull(&mut dpl, &mut out, &mut t, &c2, None) { Ok(_) => if out != m || t != tag { rep.fail("e2e: dryoc pulls something else than libsodium pushed", json!({"i": i, "k": k})); }, Err(_) => rep.fail("e2e: dryoc rejects a libsodium stream message keyed by the exchange", json!({"i": i, "k": k})) }
        }
        // box with precomputed keys: dryoc precomputes with (spk, csk), libsodium with (cpk, ssk)
        let pre_d = cb::crypto_box_beforenm(&spk, &csk);
        let mut pre_s = [0u8; 32];
        unsafe { so::crypto_box_beforenm(pre_s.as_mut_ptr(), cpk.as_ptr(), ssk.as_ptr()) };
        rep.evaluations += 1;
        if pre_d != pre_s { rep.fail("e2e: precomputed box keys of the two parties differ", json!({"i": i})); }
        // sealed box from dryoc opened by libsodium
        let ml = rng.below(100) as usize;
        let m = rng.bytes(ml);
        let mut c = vec![0u8; m.len() + 48];
        cb::crypto_box_seal(&mut c, &m, &spk).unwrap();
        let mut o = vec![0u8; m.len()];
        rep.evaluations += 1;
        if unsafe { so::crypto_box_seal_open(o.as_mut_ptr(), c.as_ptr(), c.len() as u64, spk.as_ptr(), ssk.as_ptr()) } != 0 || o != m { rep.fail("e2e: libsodium cannot open a dryoc sealed box for the exchange key", json!({"i": i})); }
    }
    rep.sample(json!({"rounds": n, "per_round": ["kx dryoc<->libsodium", "6 stream messages each way", "beforenm both sides", "sealed box"]}));
    rep.write(&args[0]);
}
