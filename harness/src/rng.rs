//! C11: every randomised entry point, N calls each, recorded for validation against Rng.tla.
use crate::common::*;
use dryoc::classic::{crypto_auth as ca, crypto_box as cb, crypto_generichash as cg, crypto_kdf as ck, crypto_kx as ckx, crypto_onetimeauth as co,
                     crypto_pwhash as cp, crypto_secretbox as csb, crypto_secretstream_xchacha20poly1305 as cs, crypto_shorthash as csh, crypto_sign as csg};
use dryoc::types::*;
use serde_json::json;
use std::io::Write;

type Draw = fn() -> Vec<u8>;
thread_local! { static REUSE: std::cell::RefCell<[u8; 96]> = std::cell::RefCell::new([0x5au8; 96]); }

pub fn b64dec(s: &str) -> Vec<u8> {
    use base64::Engine as _;
    base64::engine::general_purpose::STANDARD_NO_PAD.decode(s).unwrap_or_default()
}

/// (name, cost class, draw): cost 0 = cheap, 1 = password hashing at minimum cost, 2 = fixed expensive defaults
pub fn entry_points() -> Vec<(&'static str, u8, Draw)> {
    let mut v: Vec<(&'static str, u8, Draw)> = vec![
        ("rng::copy_randombytes", 0, || { let mut b = [0u8; 32]; dryoc::rng::copy_randombytes(&mut b); b.to_vec() }),
        ("rng::randombytes_buf", 0, || dryoc::rng::randombytes_buf(32)),
        ("StackByteArray::gen", 0, || StackByteArray::<32>::gen().as_slice().to_vec()),
        ("[u8; N]::gen", 0, || <[u8; 24] as NewByteArray<24>>::gen().to_vec()),
        ("Vec<u8>::gen", 0, || <Vec<u8> as NewByteArray<32>>::gen()),
        ("crypto_secretbox_keygen", 0, || csb::crypto_secretbox_keygen().to_vec()),
        ("crypto_secretbox_keygen_inplace", 0, || { let mut k = [0u8; 32]; csb::crypto_secretbox_keygen_inplace(&mut k); k.to_vec() }),
        ("crypto_auth_keygen", 0, || ca::crypto_auth_keygen().to_vec()),
        ("crypto_onetimeauth_keygen", 0, || co::crypto_onetimeauth_keygen().to_vec()),
        ("crypto_shorthash_keygen", 0, || csh::crypto_shorthash_keygen().to_vec()),
        ("crypto_generichash_keygen", 0, || cg::crypto_generichash_keygen().to_vec()),
        ("crypto_kdf_keygen", 0, || ck::crypto_kdf_keygen().to_vec()),
        ("crypto_secretstream_keygen", 0, || { let mut k = [0u8; 32]; cs::crypto_secretstream_xchacha20poly1305_keygen(&mut k); k.to_vec() }),
        ("crypto_box_keypair", 0, || { let (p, s) = cb::crypto_box_keypair(); [&s[..], &p[..]].concat() }),
        ("crypto_box_keypair_inplace", 0, || { let (mut p, mut s) = ([0u8; 32], [0u8; 32]); cb::crypto_box_keypair_inplace(&mut p, &mut s); [&s[..], &p[..]].concat() }),
        ("crypto_kx_keypair", 0, || { let (p, s) = ckx::crypto_kx_keypair(); [&s[..], &p[..]].concat() }),
        ("crypto_sign_keypair", 0, || { let (_p, s) = csg::crypto_sign_keypair(); s.to_vec() }),
        ("crypto_sign_keypair_inplace", 0, || { let (mut p, mut s) = ([0u8; 32], [0u8; 64]); csg::crypto_sign_keypair_inplace(&mut p, &mut s); s.to_vec() }),
        ("KeyPair::gen", 0, || { let k: dryoc::dryocbox::KeyPair = dryoc::keypair::KeyPair::gen(); [k.secret_key.as_slice(), k.public_key.as_slice()].concat() }),
        ("KeyPair::gen_with_defaults", 0, || { let k = dryoc::keypair::KeyPair::gen_with_defaults(); [k.secret_key.as_slice(), k.public_key.as_slice()].concat() }),
        ("SigningKeyPair::gen", 0, || { let k: dryoc::sign::SigningKeyPair<StackByteArray<32>, StackByteArray<64>> = dryoc::sign::SigningKeyPair::gen(); k.secret_key.as_slice().to_vec() }),
        ("SigningKeyPair::gen_with_defaults", 0, || { let k = dryoc::sign::SigningKeyPair::gen_with_defaults(); k.secret_key.as_slice().to_vec() }),
        ("Kdf::gen", 0, || { let k: dryoc::kdf::Kdf<StackByteArray<32>, StackByteArray<8>> = dryoc::kdf::Kdf::gen(); let (a, b) = k.into_parts(); [a.as_slice(), b.as_slice()].concat() }),
        ("Kdf::gen_with_defaults", 0, || { let k = dryoc::kdf::Kdf::gen_with_defaults(); let (a, b) = k.into_parts(); [a.as_slice(), b.as_slice()].concat() }),
        ("crypto_box_seal ephemeral key", 0, || { let pk = [9u8; 32]; let mut c = vec![0u8; 48 + 3]; cb::crypto_box_seal(&mut c, b"abc", &pk).unwrap(); c[..32].to_vec() }),
        ("DryocBox::seal ephemeral key", 0, || { let pk = StackByteArray::<32>::from(&[9u8; 32]); let b = dryoc::dryocbox::VecBox::seal_to_vecbox(b"abc", &pk).unwrap(); b.to_vec()[..32].to_vec() }),
        ("crypto_secretstream init_push header", 0, || { let mut st = cs::State::new(); let mut h = [0u8; 24]; cs::crypto_secretstream_xchacha20poly1305_init_push(&mut st, &mut h, &[1u8; 32]); h.to_vec() }),
        ("DryocStream::init_push header", 0, || { let k = StackByteArray::<32>::from(&[1u8; 32]); let (_s, h): (_, dryoc::dryocstream::Header) = dryoc::dryocstream::DryocStream::init_push(&k); h.as_slice().to_vec() }),
        // in-place generators called again and again on the SAME buffers (what they held before must not matter)
        ("crypto_box_keypair_inplace (reused buffers)", 0, || REUSE.with(|b| { let mut b = b.borrow_mut(); let (p, s) = b.split_at_mut(32); cb::crypto_box_keypair_inplace((&mut p[..32]).try_into().unwrap(), (&mut s[..32]).try_into().unwrap()); [&s[..32], &p[..32]].concat() })),
        ("crypto_sign_keypair_inplace (reused buffers)", 0, || REUSE.with(|b| { let mut b = b.borrow_mut(); let (p, s) = b.split_at_mut(32); csg::crypto_sign_keypair_inplace((&mut p[..32]).try_into().unwrap(), (&mut s[..64]).try_into().unwrap()); s[..64].to_vec() })),
        ("crypto_secretbox_keygen_inplace (reused buffer)", 0, || REUSE.with(|b| { let mut b = b.borrow_mut(); csb::crypto_secretbox_keygen_inplace((&mut b[..32]).try_into().unwrap()); b[..32].to_vec() })),
        ("crypto_secretstream_keygen (reused buffer)", 0, || REUSE.with(|b| { let mut b = b.borrow_mut(); cs::crypto_secretstream_xchacha20poly1305_keygen((&mut b[..32]).try_into().unwrap()); b[..32].to_vec() })),
        ("rng::copy_randombytes (reused buffer)", 0, || REUSE.with(|b| { let mut b = b.borrow_mut(); dryoc::rng::copy_randombytes(&mut b[..48]); b[..48].to_vec() })),
        // requests longer than any internal key, around the 256-byte mark and beyond (cost class 3: few calls, long values)
        ("rng::copy_randombytes 257 bytes", 3, || { let mut b = vec![0u8; 257]; dryoc::rng::copy_randombytes(&mut b); b }),
        ("rng::copy_randombytes 1000 bytes", 3, || { let mut b = vec![0u8; 1000]; dryoc::rng::copy_randombytes(&mut b); b }),
        ("rng::copy_randombytes 5000 bytes", 3, || { let mut b = vec![0u8; 5000]; dryoc::rng::copy_randombytes(&mut b); b }),
        ("rng::randombytes_buf 300 bytes", 3, || dryoc::rng::randombytes_buf(300)),
        ("rng::randombytes_buf 4097 bytes", 3, || dryoc::rng::randombytes_buf(4097)),
        ("StackByteArray<300>::gen", 3, || StackByteArray::<300>::gen().as_slice().to_vec()),
        ("[u8; 1000]::gen", 3, || <[u8; 1000] as NewByteArray<1000>>::gen().to_vec()),
        ("PwHash::hash salt", 1, || { let cfg = dryoc::pwhash::Config::interactive().with_opslimit(1).with_memlimit(8192); let p = dryoc::pwhash::PwHash::<Vec<u8>, Vec<u8>>::hash(b"pw", cfg).unwrap(); let (_h, s, _c) = p.into_parts(); s }),
        ("PwHash::hash salt (salt_length 8)", 1, || { let cfg = dryoc::pwhash::Config::interactive().with_opslimit(1).with_memlimit(8192).with_salt_length(8); let p = dryoc::pwhash::PwHash::<Vec<u8>, Vec<u8>>::hash(b"pw", cfg).unwrap(); let (_h, s, _c) = p.into_parts(); s }),
        ("PwHash::hash salt (salt_length 17)", 1, || { let cfg = dryoc::pwhash::Config::interactive().with_opslimit(1).with_memlimit(8192).with_salt_length(17); let p = dryoc::pwhash::PwHash::<Vec<u8>, Vec<u8>>::hash(b"pw", cfg).unwrap(); let (_h, s, _c) = p.into_parts(); s }),
        ("PwHash::hash salt (salt_length 64)", 1, || { let cfg = dryoc::pwhash::Config::interactive().with_opslimit(1).with_memlimit(8192).with_salt_length(64).with_hash_length(64); let p = dryoc::pwhash::PwHash::<Vec<u8>, Vec<u8>>::hash(b"pw", cfg).unwrap(); let (_h, s, _c) = p.into_parts(); s }),
        ("PwHash::hash_with_defaults salt", 2, || { let p = dryoc::pwhash::PwHash::hash_with_defaults(b"pw").unwrap(); let (_h, s, _c) = p.into_parts(); s }),
        ("PwHash::hash_interactive salt", 2, || { let p = dryoc::pwhash::PwHash::<Vec<u8>, Vec<u8>>::hash_interactive(b"pw").unwrap(); let (_h, s, _c) = p.into_parts(); s }),
        ("crypto_pwhash_str salt", 1, || { let s = cp::crypto_pwhash_str(b"pw", 1, 8192).unwrap(); let parts: Vec<&str> = s.split('$').collect(); b64dec(parts[parts.len() - 2]) }),
    ];
    #[cfg(feature = "nightly")]
    {
        use dryoc::protected::*;
        let n: Vec<(&'static str, u8, Draw)> = vec![
            ("HeapByteArray::gen", 0, || HeapByteArray::<32>::gen().as_slice().to_vec()),
            ("Locked<HeapByteArray>::gen", 0, || <Locked<HeapByteArray<32>> as NewByteArray<32>>::gen().as_slice().to_vec()),
            ("HeapByteArray::gen_locked", 0, || HeapByteArray::<32>::gen_locked().unwrap().as_slice().to_vec()),
            ("HeapByteArray::gen_readonly_locked", 0, || HeapByteArray::<32>::gen_readonly_locked().unwrap().as_slice().to_vec()),
            ("KeyPair::gen_locked_keypair", 0, || { let k = dryoc::dryocbox::protected::LockedKeyPair::gen_locked_keypair().unwrap(); [k.secret_key.as_slice(), k.public_key.as_slice()].concat() }),
            ("KeyPair::gen_readonly_locked_keypair", 0, || { let k = dryoc::dryocbox::protected::LockedROKeyPair::gen_readonly_locked_keypair().unwrap(); [k.secret_key.as_slice(), k.public_key.as_slice()].concat() }),
            ("SigningKeyPair::gen_locked_keypair", 0, || { let k = dryoc::sign::protected::LockedSigningKeyPair::gen_locked_keypair().unwrap(); k.secret_key.as_slice().to_vec() }),
            ("SigningKeyPair::gen_readonly_locked_keypair", 0, || { let k = dryoc::sign::SigningKeyPair::<LockedRO<HeapByteArray<32>>, LockedRO<HeapByteArray<64>>>::gen_readonly_locked_keypair().unwrap(); k.secret_key.as_slice().to_vec() }),
        ];
        v.extend(n);
    }
    v
}

/// nightly: generators of locked containers while the operating system refuses every lock request.  A call may fail
/// (panic or Err: no value is returned); a value that IS returned must be as fresh as any other.
#[cfg(feature = "nightly")]
pub fn refused_entry_points() -> Vec<(&'static str, fn() -> Option<Vec<u8>>)> {
    use dryoc::protected::*;
    vec![
        ("Locked<HeapByteArray>::gen [locks refused]", || Some(<Locked<HeapByteArray<32>> as NewByteArray<32>>::gen().as_slice().to_vec())),
        ("HeapByteArray::gen_locked [locks refused]", || HeapByteArray::<32>::gen_locked().ok().map(|k| k.as_slice().to_vec())),
        ("HeapByteArray::gen_readonly_locked [locks refused]", || HeapByteArray::<32>::gen_readonly_locked().ok().map(|k| k.as_slice().to_vec())),
        ("KeyPair::gen_locked_keypair [locks refused]", || dryoc::dryocbox::protected::LockedKeyPair::gen_locked_keypair().ok().map(|k| [k.secret_key.as_slice(), k.public_key.as_slice()].concat())),
        ("SigningKeyPair::gen_locked_keypair [locks refused]", || dryoc::sign::protected::LockedSigningKeyPair::gen_locked_keypair().ok().map(|k| k.secret_key.as_slice().to_vec())),
        ("LockedKdf::gen [locks refused]", || { let k: dryoc::kdf::protected::LockedKdf = dryoc::kdf::Kdf::gen(); let (a, b) = k.into_parts(); Some([a.as_slice(), b.as_slice()].concat()) }),
    ]
}
#[cfg(not(feature = "nightly"))]
pub fn refused_entry_points() -> Vec<(&'static str, fn() -> Option<Vec<u8>>)> { vec![] }

/// cheap generators exercised while the operating system's random source fails (getrandom returns EAGAIN): a call may fail
/// (no value); a value that IS returned must be as fresh as any other
pub fn os_fault_names() -> Vec<String> {
    entry_points().into_iter().filter(|e| e.1 == 0 && !e.0.contains("reused")).map(|e| format!("{} [os rng refused]", e.0)).collect()
}

/// Installs a seccomp filter that makes getrandom(2) fail with EAGAIN for this process (used in a forked child only).
fn break_os_rng() -> bool {
    #[repr(C)] struct SockFilter { code: u16, jt: u8, jf: u8, k: u32 }
    #[repr(C)] struct SockFprog { len: libc::c_ushort, filter: *const SockFilter }
    let prog = [
        SockFilter { code: 0x20, jt: 0, jf: 0, k: 0 },                                   // A = seccomp_data.nr
        SockFilter { code: 0x15, jt: 0, jf: 1, k: libc::SYS_getrandom as u32 },         // if A == getrandom
        SockFilter { code: 0x06, jt: 0, jf: 0, k: 0x0005_0000 | (libc::EAGAIN as u32) }, //   return ERRNO(EAGAIN)
        SockFilter { code: 0x06, jt: 0, jf: 0, k: 0x7fff_0000 },                         // else ALLOW
    ];
    let fprog = SockFprog { len: prog.len() as libc::c_ushort, filter: prog.as_ptr() };
    unsafe {
        if libc::prctl(libc::PR_SET_NO_NEW_PRIVS, 1, 0, 0, 0) != 0 { return false; }
        if libc::prctl(libc::PR_SET_SECCOMP, 2 as libc::c_ulong, &fprog as *const SockFprog) != 0 { return false; }
        // the fault is in effect?
        let mut b = [0u8; 8];
        libc::syscall(libc::SYS_getrandom, b.as_mut_ptr(), 8usize, 0u32) < 0
    }
}

/// runs the cheap generators in a forked child whose OS random source is broken; returns the recorded events
fn os_fault_events(n: usize) -> Option<Vec<serde_json::Value>> {
    let path = format!("/tmp/conform-rngfault-{}.ndjson", std::process::id());
    let pid = unsafe { libc::fork() };
    if pid == 0 {
        let mut lines: Vec<String> = vec![];
        if !break_os_rng() { std::fs::write(&path, "UNAVAILABLE\n").ok(); unsafe { libc::_exit(0) } }
        for (name, cost, f) in entry_points() {
            if cost != 0 || name.contains("reused") { continue; }
            let nm = format!("{} [os rng refused]", name);
            for _ in 0..n {
                match catch(|| f()) {
                    Ok(v) => lines.push(json!({"ev": "draw", "e": nm, "v": v}).to_string()),
                    Err(_) => lines.push(json!({"ev": "novalue", "e": nm, "v": []}).to_string()),
                }
            }
            lines.push(json!({"ev": "done", "e": nm, "v": []}).to_string());
        }
        std::fs::write(&path, lines.join("\n") + "\n").ok();
        unsafe { libc::_exit(0) }
    }
    let mut st = 0;
    unsafe { libc::waitpid(pid, &mut st, 0) };
    let txt = std::fs::read_to_string(&path).ok()?;
    let _ = std::fs::remove_file(&path);
    if txt.starts_with("UNAVAILABLE") { return None; }
    Some(txt.lines().filter_map(|l| serde_json::from_str(l).ok()).collect())
}

fn shim(budget: i32) -> bool {
    type SetFn = unsafe extern "C" fn(i32);
    unsafe {
        let f = libc::dlsym(libc::RTLD_DEFAULT, b"mlockfail_set\0".as_ptr() as *const _);
        if f.is_null() { return false; }
        let f: SetFn = std::mem::transmute(f);
        f(budget);
        true
    }
}

/// `rng-list`: the names, one per line
pub fn cmd_list(_args: &[String]) {
    for (n, _, _) in entry_points() { println!("{}", n); }
    for (n, _) in refused_entry_points() { println!("{}", n); }
    for n in os_fault_names() { println!("{}", n); }
}

/// `rng-trace <out.ndjson> <n cheap> <n pwhash> <n default-cost>`
pub fn cmd_trace(args: &[String]) {
    let n0: usize = args[1].parse().unwrap();
    let n1: usize = args[2].parse().unwrap();
    let n2: usize = args[3].parse().unwrap();
    let mut out = std::io::BufWriter::new(std::fs::File::create(&args[0]).unwrap());
    for (name, cost, f) in entry_points() {
        let n = match cost { 0 => n0, 1 => n1, _ => n2.max(10) };
        for _ in 0..n {
            match catch(|| f()) {
                Ok(v) => writeln!(out, "{}", json!({"ev": "draw", "e": name, "v": v})).unwrap(),
                Err(p) => { writeln!(out, "{}", json!({"ev": "panic", "e": name, "v": [], "panic": p})).unwrap(); break; }
            }
        }
        // the process forks: whatever state a generator keeps in memory is now in two processes; the values the child returns
        // and the values the parent returns afterwards belong to one history (Rng.tla: Fork changes nothing, Draw stays strict)
        if cost == 0 {
            out.flush().unwrap();
            let tmp = format!("{}.fork", args[0]);
            let pid = unsafe { libc::fork() };
            if pid == 0 {
                let mut lines = String::new();
                for _ in 0..3 { if let Ok(v) = catch(|| f()) { lines.push_str(&format!("{}\n", json!({"ev": "draw", "e": name, "v": v, "process": "child"}))); } }
                std::fs::write(&tmp, lines).ok();
                unsafe { libc::_exit(0) };
            }
            let mut st = 0;
            unsafe { libc::waitpid(pid, &mut st, 0) };
            writeln!(out, "{}", json!({"ev": "fork", "e": name, "v": []})).unwrap();
            for _ in 0..3 { if let Ok(v) = catch(|| f()) { writeln!(out, "{}", json!({"ev": "draw", "e": name, "v": v, "process": "parent"})).unwrap(); } }
            if let Ok(txt) = std::fs::read_to_string(&tmp) { out.write_all(txt.as_bytes()).unwrap(); }
            std::fs::remove_file(&tmp).ok();
        }
        // further threads call the entry point at the same time, each for the first time in its thread (Rng.tla: Spawn
        // changes nothing, the threads' values join the one history of the entry point)
        if cost == 0 {
            let barrier = std::sync::Arc::new(std::sync::Barrier::new(4));
            let hs: Vec<_> = (0..4).map(|t| { let b = barrier.clone(); std::thread::spawn(move || {
                b.wait();
                let mut vs = Vec::new();
                for _ in 0..3 { if let Ok(v) = catch(|| f()) { vs.push((t, v)); } }
                vs
            }) }).collect();
            writeln!(out, "{}", json!({"ev": "spawn", "e": name, "v": []})).unwrap();
            for h in hs { if let Ok(vs) = h.join() { for (t, v) in vs { writeln!(out, "{}", json!({"ev": "draw", "e": name, "v": v, "thread": t})).unwrap(); } } }
        }
        writeln!(out, "{}", json!({"ev": "done", "e": name, "v": []})).unwrap();
    }
    // the OS random source fails (seccomp filter in a forked child): a call may fail, a returned value must be fresh
    match os_fault_events(8) {
        Some(evs) => {
            let names = os_fault_names();
            for e in evs.iter() { writeln!(out, "{}", e).unwrap(); }
            // a generator the child never reached (it died) is closed without calls
            for nm in names { if !evs.iter().any(|e| e["e"] == nm.as_str() && e["ev"] == "done") { writeln!(out, "{}", json!({"ev": "done", "e": nm, "v": []})).unwrap(); } }
        }
        None => {
            eprintln!("NOTE: seccomp filter not available here; generators under a failing OS random source are not exercised");
            for nm in os_fault_names() { writeln!(out, "{}", json!({"ev": "done", "e": nm, "v": []})).unwrap(); }
        }
    }
    // locks refused (nightly): needs the mlock interposer
    let refused = refused_entry_points();
    if !refused.is_empty() {
        if !shim(0) { eprintln!("HARNESS: mlock interposer not loaded (LD_PRELOAD)"); std::process::exit(3); }
        shim(-1);
        for (name, f) in refused {
            for _ in 0..n1 {
                shim(0);
                let r = catch(|| f());
                shim(-1);
                match r {
                    Ok(Some(v)) => writeln!(out, "{}", json!({"ev": "draw", "e": name, "v": v})).unwrap(),
                    _ => writeln!(out, "{}", json!({"ev": "novalue", "e": name, "v": []})).unwrap(),
                }
            }
            writeln!(out, "{}", json!({"ev": "done", "e": name, "v": []})).unwrap();
        }
    }
}
