//! C06: Ed25519 signatures byte-exact with libsodium; strict verification per the table of Sign.tla.
use crate::common::*;
use dryoc::classic::crypto_sign as csg;
use dryoc::sign::{IncrementalSigner, SignedMessage, SigningKeyPair};
use dryoc::types::*;
use libsodium_sys as so;
use serde_json::{json, Value};

type Sig = [u8; 64];
fn a64(b: &[u8]) -> Sig { let mut a = [0u8; 64]; a.copy_from_slice(&b[..64]); a }

/// L = 2^252 + 27742317777372353535851937790883648493, little-endian
const L: [u8; 32] = [0xed, 0xd3, 0xf5, 0x5c, 0x1a, 0x63, 0x12, 0x58, 0xd6, 0x9c, 0xf7, 0xa2, 0xde, 0xf9, 0xde, 0x14, 0, 0, 0, 0, 0, 0, 0, 0, 0, 0, 0, 0, 0, 0, 0, 0x10];

/// s + k*L if it fits 256 bits
fn add_kl(s: &[u8], k: u32) -> Option<[u8; 32]> {
    let mut out = [0u8; 32];
    let mut carry: u64 = 0;
    for i in 0..32 {
        let t = s[i] as u64 + (L[i] as u64) * (k as u64) + carry;
        out[i] = (t & 0xff) as u8;
        carry = t >> 8;
    }
    if carry != 0 { None } else { Some(out) }
}

/// the small-order points of edwards25519 in every encoding libsodium blacklists (with either sign bit)
pub fn small_order_points() -> Vec<[u8; 32]> {
    let ff = |b0: u8| { let mut h = String::new(); h.push_str(&format!("{:02x}", b0)); for _ in 0..30 { h.push_str("ff"); } h.push_str("7f"); h };
    let hexes = vec!["0000000000000000000000000000000000000000000000000000000000000000".to_string(), "0100000000000000000000000000000000000000000000000000000000000000".to_string(),
        "26e8958fc2b227b045c3f489f2ef98f0d5dfac05d3c63339b13802886d53fc05".to_string(), "c7176a703d4dd84fba3c0b760d10670f2a2053fa2c39ccc64ec7fd7792ac037a".to_string(),
        ff(0xec), ff(0xed), ff(0xee)];
    let mut v = vec![];
    for h in hexes.iter() { let b = hex::decode(h).unwrap(); let mut a = [0u8; 32]; a.copy_from_slice(&b); v.push(a); let mut c = a; c[31] |= 0x80; v.push(c); }
    v
}

// ---- verifiers: (name, mode it verifies in, fn)
type Vf = fn(&Sig, &[u8], &[u8; 32]) -> bool;
fn so_verify(sig: &Sig, m: &[u8], pk: &[u8; 32]) -> bool { unsafe { so::crypto_sign_verify_detached(sig.as_ptr(), m.as_ptr(), m.len() as u64, pk.as_ptr()) == 0 } }
fn so_verify_ph(sig: &Sig, m: &[u8], pk: &[u8; 32]) -> bool {
    unsafe { let mut st: so::crypto_sign_state = std::mem::zeroed(); so::crypto_sign_init(&mut st); so::crypto_sign_update(&mut st, m.as_ptr(), m.len() as u64); so::crypto_sign_final_verify(&mut st, sig.as_ptr(), pk.as_ptr()) == 0 }
}
fn verifiers(mode: &str) -> Vec<(&'static str, Vf)> {
    if mode == "pure" {
        vec![("crypto_sign_verify_detached", |s, m, p| csg::crypto_sign_verify_detached(s, m, p).is_ok()),
             ("crypto_sign_open", |s, m, p| { let sm = [&s[..], m].concat(); let mut out = vec![0u8; m.len()]; csg::crypto_sign_open(&mut out, &sm, p).is_ok() }),
             ("SignedMessage::from_parts+verify", |s, m, p| SignedMessage::<StackByteArray<64>, Vec<u8>>::from_parts(StackByteArray::from(s), m.to_vec()).verify(p).is_ok()),
             ("SignedMessage::from_bytes+verify", |s, m, p| { let sm = [&s[..], m].concat(); match SignedMessage::<StackByteArray<64>, Vec<u8>>::from_bytes(&sm) { Ok(x) => x.verify(p).is_ok(), Err(_) => false } })]
    } else {
        vec![("crypto_sign_final_verify", |s, m, p| { let mut st = csg::crypto_sign_init(); csg::crypto_sign_update(&mut st, m); csg::crypto_sign_final_verify(st, s, p).is_ok() }),
             ("IncrementalSigner::verify", |s, m, p| { let mut st = IncrementalSigner::new(); st.update(&m.to_vec()); st.verify(s, p).is_ok() }),
             ("IncrementalSigner::default + verify", |s, m, p| { let mut st = IncrementalSigner::default(); st.update(&m.to_vec()); st.verify(s, p).is_ok() }),
             // Sign.tla UpdateCalls: the same message presented through no update call at all (empty message) or through two
             ("crypto_sign_final_verify (no update call for an empty message, two otherwise)", |s, m, p| { let mut st = csg::crypto_sign_init(); if !m.is_empty() { let h = m.len() / 2; csg::crypto_sign_update(&mut st, &m[..h]); csg::crypto_sign_update(&mut st, &m[h..]); } csg::crypto_sign_final_verify(st, s, p).is_ok() }),
             ("IncrementalSigner::verify (no update call for an empty message, two otherwise)", |s, m, p| { let mut st = IncrementalSigner::new(); if !m.is_empty() { let h = m.len() / 2; st.update(&m[..h].to_vec()); st.update(&m[h..].to_vec()); } st.verify(s, p).is_ok() }),
             ("IncrementalSigner::default + verify (no update call for an empty message, two otherwise)", |s, m, p| { let mut st = IncrementalSigner::default(); if !m.is_empty() { let h = m.len() / 2; st.update(&m[..h].to_vec()); st.update(&m[h..].to_vec()); } st.verify(s, p).is_ok() })]
    }
}

fn so_sign(m: &[u8], sk: &[u8; 64], mode: &str) -> Sig {
    let mut sig = [0u8; 64];
    // the confusion modes of Sign.tla: a pure-mode signature over the digest the pre-hashed mode would sign
    if mode == "pure_over_digest" || mode == "pure_over_dom2_digest" {
        let mut h = [0u8; 64];
        unsafe { so::crypto_hash_sha512(h.as_mut_ptr(), m.as_ptr(), m.len() as u64) };
        let mut signed: Vec<u8> = vec![];
        if mode == "pure_over_dom2_digest" { signed.extend_from_slice(b"SigEd25519 no Ed25519 collisions"); signed.push(1); signed.push(0); }
        signed.extend_from_slice(&h);
        unsafe { so::crypto_sign_detached(sig.as_mut_ptr(), std::ptr::null_mut(), signed.as_ptr(), signed.len() as u64, sk.as_ptr()) };
        return sig;
    }
    unsafe {
        if mode == "pure" { so::crypto_sign_detached(sig.as_mut_ptr(), std::ptr::null_mut(), m.as_ptr(), m.len() as u64, sk.as_ptr()); }
        else { let mut st: so::crypto_sign_state = std::mem::zeroed(); so::crypto_sign_init(&mut st); so::crypto_sign_update(&mut st, m.as_ptr(), m.len() as u64); so::crypto_sign_final_create(&mut st, sig.as_mut_ptr(), std::ptr::null_mut(), sk.as_ptr()); }
    }
    sig
}

/// S = H([dom2] R A M) * a mod L for the secret scalar a of `kseed`: the response of a signer whose nonce is zero
fn zero_nonce_s(r: &[u8; 32], pk: &[u8; 32], kseed: &[u8; 32], msg: &[u8], mode: &str) -> [u8; 32] {
    let sha = |b: &[u8]| { let mut h = [0u8; 64]; unsafe { so::crypto_hash_sha512(h.as_mut_ptr(), b.as_ptr(), b.len() as u64) }; h };
    let mut a = [0u8; 32];
    a.copy_from_slice(&sha(kseed)[..32]);
    a[0] &= 248; a[31] &= 127; a[31] |= 64;
    let mut buf: Vec<u8> = vec![];
    if mode != "pure" { buf.extend_from_slice(b"SigEd25519 no Ed25519 collisions"); buf.push(1); buf.push(0); }
    buf.extend_from_slice(r); buf.extend_from_slice(pk);
    if mode != "pure" { buf.extend_from_slice(&sha(msg)); } else { buf.extend_from_slice(msg); }
    let kh = sha(&buf);
    let (mut k, mut ar, mut s) = ([0u8; 32], [0u8; 32], [0u8; 32]);
    let mut a64 = [0u8; 64]; a64[..32].copy_from_slice(&a);
    unsafe {
        so::crypto_core_ed25519_scalar_reduce(k.as_mut_ptr(), kh.as_ptr());
        so::crypto_core_ed25519_scalar_reduce(ar.as_mut_ptr(), a64.as_ptr());
        so::crypto_core_ed25519_scalar_mul(s.as_mut_ptr(), k.as_ptr(), ar.as_ptr());
    }
    s
}

// ---------------------------------------------------------------------------------------------
// The families of SignAlgebra.tla built concretely: points are (prime-order part) + (8-torsion part); for every shape
// of public key {honest, mixed, neutral, small} and commitment {full, neutral/small} the torsion part of R is searched
// (8 candidates) until the cofactorless equation [S]B = R + [k]A holds with k = H([dom2] R A M).  The generator only
// builds cases; the verdict is the specification's (accept iff S reduced, R and A not of small order) and libsodium's.
pub struct AlgCase { pub family: String, pub sig: Sig, pub pk: [u8; 32], pub accept: bool }
pub fn algebra_cases(kseed: &[u8; 32], msg: &[u8], mode: &str, rng: &mut Rng) -> Vec<AlgCase> {
    use curve25519_dalek::constants::{ED25519_BASEPOINT_POINT as B, EIGHT_TORSION};
    use curve25519_dalek::edwards::EdwardsPoint;
    use curve25519_dalek::scalar::Scalar;
    use curve25519_dalek::traits::{Identity, IsIdentity};
    let sha = |b: &[u8]| { let mut h = [0u8; 64]; unsafe { so::crypto_hash_sha512(h.as_mut_ptr(), b.as_ptr(), b.len() as u64) }; h };
    let mut ab = [0u8; 32];
    ab.copy_from_slice(&sha(kseed)[..32]);
    ab[0] &= 248; ab[31] &= 127; ab[31] |= 64;
    let a = Scalar::from_bytes_mod_order(ab);
    let hk = |r: &[u8; 32], pk: &[u8; 32]| -> Scalar {
        let mut buf: Vec<u8> = vec![];
        if mode != "pure" { buf.extend_from_slice(b"SigEd25519 no Ed25519 collisions"); buf.push(1); buf.push(0); }
        buf.extend_from_slice(r); buf.extend_from_slice(pk);
        if mode != "pure" { buf.extend_from_slice(&sha(msg)); } else { buf.extend_from_slice(msg); }
        Scalar::from_bytes_mod_order_wide(&sha(&buf))
    };
    let mut out: Vec<AlgCase> = vec![];
    // public keys: (shape, point, secret scalar of its prime-order part)
    let mut keys: Vec<(&str, EdwardsPoint, Scalar)> = vec![("honest", B * a, a), ("neutral", EdwardsPoint::identity(), Scalar::ZERO)];
    for j in 1..8 { keys.push(("mixed", B * a + EIGHT_TORSION[j], a)); keys.push(("small", EIGHT_TORSION[j], Scalar::ZERO)); }
    for (ashape, apt, asec) in keys.iter() {
        let pkb = apt.compress().to_bytes();
        for rshape in ["full", "torsion"] {
            for _try in 0..2 {
                let r = if rshape == "full" { let w: [u8; 32] = rng.arr(); let mut w64 = [0u8; 64]; w64[..32].copy_from_slice(&w); Scalar::from_bytes_mod_order_wide(&w64) } else { Scalar::ZERO };
                if rshape == "full" && r == Scalar::ZERO { continue; }
                for t in 0..8 {
                    let rpt = B * r + EIGHT_TORSION[t];
                    let rb = rpt.compress().to_bytes();
                    let k = hk(&rb, &pkb);
                    let s = r + k * asec;
                    if B * s != rpt + apt * k {
                        // the torsion parts do not cancel: the cofactorless equation fails.  Where [8] times it holds and nothing
                        // else is wrong, only a cofactored verifier would accept: strict verification must not
                        if rshape == "full" && (*ashape == "honest" || *ashape == "mixed") && (B * s - rpt - apt * k).is_small_order() {
                            let mut sig = [0u8; 64];
                            sig[..32].copy_from_slice(&rb); sig[32..].copy_from_slice(s.as_bytes());
                            out.push(AlgCase { family: format!("cofactored_only/{}", ashape), sig, pk: pkb, accept: false });
                        }
                        continue;
                    }
                    let rname = if rshape == "full" { "full" } else if rpt.is_identity() { "neutral" } else { "small" };
                    let mut sig = [0u8; 64];
                    sig[..32].copy_from_slice(&rb); sig[32..].copy_from_slice(s.as_bytes());
                    let ok = rname == "full" && (*ashape == "honest" || *ashape == "mixed");
                    out.push(AlgCase { family: format!("reduced/{}/{}", rname, ashape), sig, pk: pkb, accept: ok });
                    if let Some(s2) = add_kl(s.as_bytes(), 1) {
                        let mut sig2 = sig; sig2[32..].copy_from_slice(&s2);
                        out.push(AlgCase { family: format!("unreduced/{}/{}", rname, ashape), sig: sig2, pk: pkb, accept: false });
                    }
                }
                if rshape != "full" { break; }
            }
        }
    }
    out
}

/// `sign <table.json> <out.json> <seed> <Lmax> <nseeds> <first> <stride>`
pub fn cmd_sign(args: &[String]) {
    let table: Value = serde_json::from_str(&std::fs::read_to_string(&args[0]).unwrap()).unwrap();
    let seed: u64 = args[2].parse().unwrap();
    let lmax: usize = args[3].parse().unwrap();
    let nseeds: u64 = args[4].parse().unwrap();
    let first: usize = args[5].parse().unwrap();
    let stride: usize = args[6].parse().unwrap();
    let mut rng = Rng::new(seed ^ 0xc06);
    let mut rep = Report::new();
    let small = small_order_points();
    let mut idx = 0usize;
    for sd in 0..nseeds {
        let kseed: [u8; 32] = rng.arr();
        let (mut pk, mut sk) = ([0u8; 32], [0u8; 64]);
        unsafe { so::crypto_sign_seed_keypair(pk.as_mut_ptr(), sk.as_mut_ptr(), kseed.as_ptr()) };
        for len in 0..=lmax {
            let msg = rng.bytes(len);
            idx += 1;
            if idx % stride != first { continue; }
            // ---- signing: deterministic, byte-exact, every form
            for mode in ["pure", "ph"] {
                let want = so_sign(&msg, &sk, mode);
                let mut got: Vec<(&str, Result<Vec<u8>, String>)> = vec![];
                if mode == "pure" {
                    got.push(("crypto_sign_detached", { let mut s = [0xA5u8; 64]; csg::crypto_sign_detached(&mut s, &msg, &sk).map(|_| s.to_vec()).map_err(|e| format!("{:?}", e)) }));
                    got.push(("crypto_sign (combined)", { let mut sm = vec![0x5Au8; len + 64]; csg::crypto_sign(&mut sm, &msg, &sk).map_err(|e| format!("{:?}", e)).and_then(|_| if sm[64..] == msg[..] { Ok(sm[..64].to_vec()) } else { Err("combined form does not carry the message".into()) }) }));
                    let kp: SigningKeyPair<StackByteArray<32>, StackByteArray<64>> = SigningKeyPair::from_seed(&kseed);
                    got.push(("SigningKeyPair::sign_with_defaults", kp.sign_with_defaults(msg.clone()).map(|s| { let (sig, _m) = s.into_parts(); sig.as_slice().to_vec() }).map_err(|e| format!("{:?}", e))));
                    got.push(("SigningKeyPair::sign + to_vec", kp.sign::<StackByteArray<64>, Vec<u8>>(msg.clone()).map(|s| s.to_vec()[..64].to_vec()).map_err(|e| format!("{:?}", e))));
                } else {
                    got.push(("crypto_sign_final_create", { let mut st = csg::crypto_sign_init(); csg::crypto_sign_update(&mut st, &msg); let mut s = [0xC3u8; 64]; csg::crypto_sign_final_create(st, &mut s, &sk).map(|_| s.to_vec()).map_err(|e| format!("{:?}", e)) }));
                    got.push(("IncrementalSigner::finalize", { let mut st = IncrementalSigner::new(); st.update(&msg); st.finalize::<Vec<u8>, _>(&sk).map_err(|e| format!("{:?}", e)) }));
                    // the same object obtained through its trait implementations
                    got.push(("IncrementalSigner::default + finalize", { let mut st = IncrementalSigner::default(); st.update(&msg); st.finalize::<Vec<u8>, _>(&sk).map_err(|e| format!("{:?}", e)) }));
                    // Sign.tla UpdateCalls: no update call at all for the empty message, two calls otherwise
                    let h = len / 2;
                    got.push(("crypto_sign_final_create (no update call for an empty message, two otherwise)", { let mut st = csg::crypto_sign_init(); if len > 0 { csg::crypto_sign_update(&mut st, &msg[..h]); csg::crypto_sign_update(&mut st, &msg[h..]); } let mut s = [0x3Cu8; 64]; csg::crypto_sign_final_create(st, &mut s, &sk).map(|_| s.to_vec()).map_err(|e| format!("{:?}", e)) }));
                    got.push(("IncrementalSigner::finalize (no update call for an empty message, two otherwise)", { let mut st = IncrementalSigner::new(); if len > 0 { st.update(&msg[..h].to_vec()); st.update(&msg[h..].to_vec()); } st.finalize::<Vec<u8>, _>(&sk).map_err(|e| format!("{:?}", e)) }));
                    got.push(("IncrementalSigner::default + finalize (no update call for an empty message, two otherwise)", { let mut st = IncrementalSigner::default(); if len > 0 { st.update(&msg[..h].to_vec()); st.update(&msg[h..].to_vec()); } st.finalize::<Vec<u8>, _>(&sk).map_err(|e| format!("{:?}", e)) }));
                }
                for (name, g) in got {
                    rep.evaluations += 1;
                    match g {
                        Ok(g) => if g != want { rep.fail(&format!("{}: signature differs from libsodium", name), json!({"len": len, "mode": mode, "seed": seed})); },
                        Err(e) => rep.fail(&format!("{}: signing failed", name), json!({"len": len, "err": e})),
                    }
                }
            }
            // ---- verification: the families of SignAlgebra.tla (equation-satisfying cases of every shape)
            if len < 3 || len % 16 == 5 {
                for mode in ["pure", "ph"] {
                    for ac in algebra_cases(&kseed, &msg, mode, &mut rng) {
                        rep.count(&format!("family:{}", ac.family));
                        rep.case(&format!("alg|{}|{}|{}|{}", ac.family, len, sd, mode));
                        let sod = if mode == "pure" { so_verify(&ac.sig, &msg, &ac.pk) } else { so_verify_ph(&ac.sig, &msg, &ac.pk) };
                        if sod != ac.accept { rep.fail("SignAlgebra.tla's verdict differs from libsodium (specification error)", json!({"family": ac.family, "sodium": sod, "sig": hex(&ac.sig), "pk": hex(&ac.pk)})); continue; }
                        for (name, vf) in verifiers(mode) {
                            rep.evaluations += 1;
                            match catch(|| vf(&ac.sig, &msg, &ac.pk)) {
                                Ok(v) => if v != ac.accept {
                                    let k = if v { format!("{}: accepts an equation-satisfying forgery of family {}", name, ac.family) } else { format!("{}: rejects a valid signature of family {} (libsodium accepts)", name, ac.family) };
                                    rep.fail(&k, json!({"len": len, "mode": mode, "seed": seed, "sig": hex(&ac.sig), "pk": hex(&ac.pk)}));
                                },
                                Err(pn) => rep.fail(&format!("{}: panicked", name), json!({"family": ac.family, "panic": pn})),
                            }
                        }
                    }
                }
            }
            // ---- verification: the table of Sign.tla
            let thin = len > 24 && len % 16 != 0;   // full position sweep on short and block-aligned lengths
            for row in table.as_array().unwrap() {
                let c = &row["case"];
                let accept = row["accept"].as_bool().unwrap();
                let (rc, sc, ac, mc) = (c["r"].as_str().unwrap(), c["s"].as_str().unwrap(), c["a"].as_str().unwrap(), c["m"].as_str().unwrap());
                let (signed, verified) = (c["signed"].as_str().unwrap(), c["verified"].as_str().unwrap());
                let base = so_sign(&msg, &sk, signed);
                // the family of concrete cases of this cell: (signature, message, public key, how)
                let mut fam: Vec<(Sig, Vec<u8>, [u8; 32], String)> = vec![];
                let deviations = [rc != "honest", sc != "honest", ac != "honest", mc != "same"].iter().filter(|x| **x).count();
                if rc == "small_order_forgery" {
                    // R, A small order, S = 0: the equation can hold for any message
                    for r in small.iter() { for a in small.iter() { let mut s = [0u8; 64]; s[..32].copy_from_slice(r); fam.push((s, msg.clone(), *a, "R and A small order, S = 0".into())); } }
                    // A small order, R = [S]B for a canonical S: with A the neutral element [k]A vanishes and the equation
                    // holds for every message; with A of order 2, 4, 8 it holds whenever k is a multiple of the order
                    for a in small.iter() { for _ in 0..3 {
                        let mut sc: [u8; 32] = rng.arr(); sc[31] &= 0x0f;
                        let mut r = [0u8; 32];
                        unsafe { so::crypto_scalarmult_ed25519_base_noclamp(r.as_mut_ptr(), sc.as_ptr()) };
                        let mut s = [0u8; 64]; s[..32].copy_from_slice(&r); s[32..].copy_from_slice(&sc);
                        fam.push((s, msg.clone(), *a, "A small order, R = [S]B".into()));
                    } }
                    // honest A, R small order, S = k*a mod L with k = H([dom2] R A M): [S]B = [k]A, so the equation holds
                    // exactly when R is the neutral element, and up to the cofactor for every small-order R
                    for r in small.iter() {
                        let mut s = [0u8; 64]; s[..32].copy_from_slice(r);
                        s[32..].copy_from_slice(&zero_nonce_s(r, &pk, &kseed, &msg, verified));
                        fam.push((s, msg.clone(), pk, "honest A, R small order, S = k*a".into()));
                    }
                } else if deviations == 0 {
                    fam.push((base, msg.clone(), pk, "honest".into()));
                } else if rc == "bit_flipped" { for b in 0..256 { if thin && b % 37 != 0 { continue; } let mut s = base; s[b / 8] ^= 1 << (b % 8); fam.push((s, msg.clone(), pk, format!("R bit {}", b))); } }
                else if rc == "small_order" { for r in small.iter() { let mut s = base; s[..32].copy_from_slice(r); fam.push((s, msg.clone(), pk, "R replaced by a small-order point".into())); } }
                else if sc == "bit_flipped" { for b in 256..512 { if thin && b % 37 != 0 { continue; } let mut s = base; s[b / 8] ^= 1 << (b % 8); fam.push((s, msg.clone(), pk, format!("S bit {}", b - 256))); } }
                else if sc == "plus_kL" { for k in 1..=16u32 { if let Some(s2) = add_kl(&base[32..], k) { let mut s = base; s[32..].copy_from_slice(&s2); fam.push((s, msg.clone(), pk, format!("S + {}L", k))); } } }
                else if sc == "random_ge_L" { for _ in 0..4 { let mut s = base; let mut r: [u8; 32] = rng.arr(); r[31] |= 0x20; s[32..].copy_from_slice(&r); fam.push((s, msg.clone(), pk, "random S >= L".into())); } }
                else if ac == "bit_flipped" { for b in 0..256 { if thin && b % 37 != 0 { continue; } let mut p = pk; p[b / 8] ^= 1 << (b % 8); fam.push((base, msg.clone(), p, format!("public key bit {}", b))); } }
                else if ac == "small_order" { for a in small.iter() { fam.push((base, msg.clone(), *a, "public key replaced by a small-order point".into())); } }
                else if mc == "bit_flipped" { for b in 0..len * 8 { if thin && b % 29 != 0 { continue; } let mut m = msg.clone(); m[b / 8] ^= 1 << (b % 8); fam.push((base, m, pk, format!("message bit {}", b))); } }
                else if mc == "truncated" { for n in 1..=len.min(8) { fam.push((base, msg[..len - n].to_vec(), pk, format!("message truncated by {}", n))); } }
                else if mc == "extended" { for n in 1..=3usize { let mut m = msg.clone(); m.extend(rng.bytes(n)); fam.push((base, m, pk, format!("message extended by {}", n))); } }
                rep.case(&format!("{}|{}|{}", c, len, sd));
                for (sig, m, p, how) in fam.iter() {
                    let sod = if verified == "pure" { so_verify(sig, m, p) } else { so_verify_ph(sig, m, p) };
                    // a flipped bit of S can land on another canonical scalar but never on a valid one; libsodium and the table must agree
                    if sod != accept { rep.fail("Sign.tla's verdict differs from libsodium (specification error)", json!({"case": c, "how": how, "sodium": sod})); continue; }
                    for (name, vf) in verifiers(verified) {
                        rep.evaluations += 1;
                        match catch(|| vf(sig, m, p)) {
                            Ok(v) => if v != accept {
                                let k = if v { format!("{}: accepts a signature with {}", name, cell_name(rc, sc, ac, mc, signed, verified)) } else { format!("{}: rejects an honest signature", name) };
                                rep.fail(&k, json!({"how": how, "len": len, "signed": signed, "verified": verified, "seed": seed, "sig": hex(sig), "pk": hex(p)}));
                            },
                            Err(pn) => rep.fail(&format!("{}: panicked", name), json!({"how": how, "panic": pn})),
                        }
                    }
                }
                if sd == 0 && len == 5 && rep.samples.len() < 4 && !fam.is_empty() { rep.sample(json!({"cell": c, "accept": accept, "cases": fam.len(), "first": fam[0].3})); }
            }
        }
    }
    rep.write(&args[1]);
}

fn cell_name(r: &str, s: &str, a: &str, m: &str, signed: &str, verified: &str) -> String {
    let mut v = vec![];
    if r != "honest" { v.push(format!("R {}", r)); }
    if s != "honest" { v.push(format!("S {}", s)); }
    if a != "honest" { v.push(format!("public key {}", a)); }
    if m != "same" { v.push(format!("message {}", m)); }
    if signed != verified { v.push(format!("mode {} verified as {}", signed, verified)); }
    v.join(", ")
}
