//! C04: every consuming entry point on attacker-controlled bytes: every length 0..=2*Ovh+64 x content class,
//! every stream tag byte, grammar-based and random password-hash strings. Outcomes outside {Ok, Err}
//! (panic, abort, absurd allocation) are violations; the two rows the spec fixes are checked too.
use crate::common::*;
use crate::stream::{init_pair, so_push, ABYTES};
use dryoc::classic::crypto_secretstream_xchacha20poly1305 as cs;
use dryoc::classic::{crypto_auth as ca, crypto_box as cb, crypto_onetimeauth as co, crypto_pwhash as cp, crypto_secretbox as csb, crypto_sign as csg, crypto_sign_ed25519 as ced};
use dryoc::dryocstream::{DryocStream, Pull};
use dryoc::types::*;
use libsodium_sys as so;
use serde_json::{json, Value};
use std::io::Write;
use std::sync::atomic::Ordering;

pub struct UCtx {
    key: [u8; 32],
    nonce: [u8; 24],
    spk: [u8; 32],
    ssk: [u8; 32],
    rpk: [u8; 32],
    rsk: [u8; 32],
    pre_r: [u8; 32],
    header: [u8; 24],
    sign_pk: [u8; 32],
    sign_sk: [u8; 64],
}

fn mk(rng: &mut Rng) -> UCtx {
    let (spk, ssk) = cb::crypto_box_seed_keypair(&rng.bytes(32));
    let (rpk, rsk) = cb::crypto_box_seed_keypair(&rng.bytes(32));
    let pre_r = cb::crypto_box_beforenm(&spk, &rsk);
    let seed: [u8; 32] = rng.arr();
    let (sign_pk, sign_sk) = csg::crypto_sign_seed_keypair(&seed);
    UCtx { key: rng.arr(), nonce: rng.arr(), spk, ssk, rpk, rsk, pre_r, header: rng.arr(), sign_pk, sign_sk }
}

type Run = fn(&UCtx, &[u8]) -> bool; // true = Ok, false = Err
type Auth = fn(&UCtx, usize, &mut Rng) -> Option<Vec<u8>>; // an authentic input of exactly this length

fn r2b<T, E>(r: Result<T, E>) -> bool { r.is_ok() }
fn a16(b: &[u8]) -> [u8; 16] { let mut a = [0u8; 16]; let n = b.len().min(16); a[..n].copy_from_slice(&b[..n]); a }
fn a32(b: &[u8]) -> [u8; 32] { let mut a = [0u8; 32]; let n = b.len().min(32); a[..n].copy_from_slice(&b[..n]); a }
fn a64(b: &[u8]) -> [u8; 64] { let mut a = [0u8; 64]; let n = b.len().min(64); a[..n].copy_from_slice(&b[..n]); a }

// authentic inputs come from libsodium
fn au_sb(c: &UCtx, len: usize, rng: &mut Rng) -> Option<Vec<u8>> {
    if len < 16 { return None; }
    let m = rng.bytes(len - 16);
    let mut w = vec![0u8; len];
    unsafe { so::crypto_secretbox_easy(w.as_mut_ptr(), m.as_ptr(), m.len() as u64, c.nonce.as_ptr(), c.key.as_ptr()) };
    Some(w)
}
fn au_box(c: &UCtx, len: usize, rng: &mut Rng) -> Option<Vec<u8>> {
    if len < 16 { return None; }
    let m = rng.bytes(len - 16);
    let mut w = vec![0u8; len];
    unsafe { so::crypto_box_easy(w.as_mut_ptr(), m.as_ptr(), m.len() as u64, c.nonce.as_ptr(), c.rpk.as_ptr(), c.ssk.as_ptr()) };
    Some(w)
}
fn au_seal(c: &UCtx, len: usize, rng: &mut Rng) -> Option<Vec<u8>> {
    if len < 48 { return None; }
    let m = rng.bytes(len - 48);
    let mut w = vec![0u8; len];
    unsafe { so::crypto_box_seal(w.as_mut_ptr(), m.as_ptr(), m.len() as u64, c.rpk.as_ptr()) };
    Some(w)
}
fn au_stream(c: &UCtx, len: usize, rng: &mut Rng) -> Option<Vec<u8>> {
    if len < ABYTES { return None; }
    let (_, mut s) = init_pair(&c.key, &c.header, 1);
    Some(so_push(&mut s, &rng.bytes(len - ABYTES), None, rng.below(4) as u8))
}
fn au_signed(c: &UCtx, len: usize, rng: &mut Rng) -> Option<Vec<u8>> {
    if len < 64 { return None; }
    let m = rng.bytes(len - 64);
    let mut w = vec![0u8; len];
    unsafe { so::crypto_sign(w.as_mut_ptr(), std::ptr::null_mut(), m.as_ptr(), m.len() as u64, c.sign_sk.as_ptr()) };
    Some(w)
}
/// signature(64) || message: the fixed-length part is a typed array in the API; the message is the byte string
fn au_sig_msg(c: &UCtx, len: usize, rng: &mut Rng) -> Option<Vec<u8>> {
    let m = rng.bytes(len);
    let mut sig = [0u8; 64];
    unsafe { so::crypto_sign_detached(sig.as_mut_ptr(), std::ptr::null_mut(), m.as_ptr(), m.len() as u64, c.sign_sk.as_ptr()) };
    Some([&sig[..], &m[..]].concat())
}
fn au_sigph_msg(c: &UCtx, len: usize, rng: &mut Rng) -> Option<Vec<u8>> {
    let m = rng.bytes(len);
    let mut sig = [0u8; 64];
    unsafe {
        let mut st: so::crypto_sign_state = std::mem::zeroed();
        so::crypto_sign_init(&mut st);
        so::crypto_sign_update(&mut st, m.as_ptr(), m.len() as u64);
        so::crypto_sign_final_create(&mut st, sig.as_mut_ptr(), std::ptr::null_mut(), c.sign_sk.as_ptr());
    }
    Some([&sig[..], &m[..]].concat())
}
fn au_auth(c: &UCtx, len: usize, rng: &mut Rng) -> Option<Vec<u8>> {
    let m = rng.bytes(len);
    let mut mac = [0u8; 32];
    unsafe { so::crypto_auth(mac.as_mut_ptr(), m.as_ptr(), m.len() as u64, c.key.as_ptr()) };
    Some([&mac[..], &m[..]].concat())
}
fn au_ota(c: &UCtx, len: usize, rng: &mut Rng) -> Option<Vec<u8>> {
    let m = rng.bytes(len);
    let mut mac = [0u8; 16];
    unsafe { so::crypto_onetimeauth(mac.as_mut_ptr(), m.as_ptr(), m.len() as u64, c.key.as_ptr()) };
    Some([&mac[..], &m[..]].concat())
}

/// size of the message buffer of a receiver that does not size it after the attacker's input
const FIXED: usize = 40;

// ---- fixed-length items (MAC, signature, box tag, stream header) as they arrive from the wire: in a Vec of whatever length
// the sender chose.  The message / ciphertext they belong to is fixed; the item is the attacker's input.
const VMSG: &[u8] = b"a message the receiver already holds; the item that authenticates it is what arrives";
fn v_auth(c: &UCtx) -> Vec<u8> { let mut t = [0u8; 32]; unsafe { so::crypto_auth(t.as_mut_ptr(), VMSG.as_ptr(), VMSG.len() as u64, c.key.as_ptr()) }; t.to_vec() }
fn v_ota(c: &UCtx) -> Vec<u8> { let mut t = [0u8; 16]; unsafe { so::crypto_onetimeauth(t.as_mut_ptr(), VMSG.as_ptr(), VMSG.len() as u64, c.key.as_ptr()) }; t.to_vec() }
fn v_sig(c: &UCtx) -> Vec<u8> { let mut t = [0u8; 64]; unsafe { so::crypto_sign_detached(t.as_mut_ptr(), std::ptr::null_mut(), VMSG.as_ptr(), VMSG.len() as u64, c.sign_sk.as_ptr()) }; t.to_vec() }
fn v_sigph(c: &UCtx) -> Vec<u8> {
    let mut t = [0u8; 64];
    unsafe { let mut st: so::crypto_sign_state = std::mem::zeroed(); so::crypto_sign_init(&mut st); so::crypto_sign_update(&mut st, VMSG.as_ptr(), VMSG.len() as u64);
        so::crypto_sign_final_create(&mut st, t.as_mut_ptr(), std::ptr::null_mut(), c.sign_sk.as_ptr()); }
    t.to_vec()
}
fn v_sb(c: &UCtx) -> (Vec<u8>, Vec<u8>) {
    let (mut t, mut d) = ([0u8; 16], vec![0u8; VMSG.len()]);
    unsafe { so::crypto_secretbox_detached(d.as_mut_ptr(), t.as_mut_ptr(), VMSG.as_ptr(), VMSG.len() as u64, c.nonce.as_ptr(), c.key.as_ptr()) };
    (t.to_vec(), d)
}
fn v_box(c: &UCtx) -> (Vec<u8>, Vec<u8>) {
    let (mut t, mut d) = ([0u8; 16], vec![0u8; VMSG.len()]);
    unsafe { so::crypto_box_detached(d.as_mut_ptr(), t.as_mut_ptr(), VMSG.as_ptr(), VMSG.len() as u64, c.nonce.as_ptr(), c.rpk.as_ptr(), c.ssk.as_ptr()) };
    (t.to_vec(), d)
}
fn exactly(n: usize, l: usize, v: Vec<u8>) -> Option<Vec<u8>> { if l == n { Some(v) } else { None } }

pub struct Entry {
    pub name: &'static str,
    /// bytes of a typed fixed-length prefix the harness splits off (signature / mac for detached forms)
    pub typed_prefix: usize,
    pub run: Run,
    pub auth: Auth,
}

fn entries() -> Vec<Entry> {
    vec![
        Entry { name: "crypto_secretbox_open_easy", typed_prefix: 0, auth: au_sb,
            run: |c, x| { let mut m = vec![0u8; x.len().saturating_sub(16)]; r2b(csb::crypto_secretbox_open_easy(&mut m, x, &c.nonce, &c.key)) } },
        Entry { name: "crypto_secretbox_open_easy_inplace", typed_prefix: 0, auth: au_sb,
            run: |c, x| { let mut b = x.to_vec(); r2b(csb::crypto_secretbox_open_easy_inplace(&mut b, &c.nonce, &c.key)) } },
        Entry { name: "crypto_secretbox_open_detached", typed_prefix: 16, auth: |c, l, r| au_sb(c, l + 16, r),
            run: |c, x| { let mut m = vec![0u8; x.len() - 16]; r2b(csb::crypto_secretbox_open_detached(&mut m, &a16(x), &x[16..], &c.nonce, &c.key)) } },
        Entry { name: "DryocSecretBox::from_bytes+decrypt", typed_prefix: 0, auth: au_sb,
            run: |c, x| match dryoc::dryocsecretbox::VecBox::from_bytes(x) { Ok(b) => r2b(b.decrypt_to_vec(&StackByteArray::from(&c.nonce), &StackByteArray::from(&c.key))), Err(_) => false } },
        Entry { name: "crypto_box_open_easy", typed_prefix: 0, auth: au_box,
            run: |c, x| { let mut m = vec![0u8; x.len().saturating_sub(16)]; r2b(cb::crypto_box_open_easy(&mut m, x, &c.nonce, &c.spk, &c.rsk)) } },
        Entry { name: "crypto_box_open_easy_inplace", typed_prefix: 0, auth: au_box,
            run: |c, x| { let mut b = x.to_vec(); r2b(cb::crypto_box_open_easy_inplace(&mut b, &c.nonce, &c.spk, &c.rsk)) } },
        Entry { name: "crypto_box_open_detached", typed_prefix: 16, auth: |c, l, r| au_box(c, l + 16, r),
            run: |c, x| { let mut m = vec![0u8; x.len() - 16]; r2b(cb::crypto_box_open_detached(&mut m, &a16(x), &x[16..], &c.nonce, &c.spk, &c.rsk)) } },
        Entry { name: "crypto_box_open_detached_afternm", typed_prefix: 16, auth: |c, l, r| au_box(c, l + 16, r),
            run: |c, x| { let mut m = vec![0u8; x.len() - 16]; r2b(cb::crypto_box_open_detached_afternm(&mut m, &a16(x), &x[16..], &c.nonce, &c.pre_r)) } },
        Entry { name: "DryocBox::from_bytes+decrypt", typed_prefix: 0, auth: au_box,
            run: |c, x| match dryoc::dryocbox::VecBox::from_bytes(x) { Ok(b) => r2b(b.decrypt_to_vec(&StackByteArray::from(&c.nonce), &StackByteArray::from(&c.spk), &StackByteArray::from(&c.rsk))), Err(_) => false } },
        Entry { name: "DryocBox::from_bytes+precalc_decrypt", typed_prefix: 0, auth: au_box,
            run: |c, x| match dryoc::dryocbox::VecBox::from_bytes(x) { Ok(b) => r2b(b.precalc_decrypt_to_vec(&StackByteArray::from(&c.nonce), &StackByteArray::from(&c.pre_r))), Err(_) => false } },
        Entry { name: "crypto_box_seal_open", typed_prefix: 0, auth: au_seal,
            run: |c, x| { let mut m = vec![0u8; x.len().saturating_sub(48)]; r2b(cb::crypto_box_seal_open(&mut m, x, &c.rpk, &c.rsk)) } },
        Entry { name: "DryocBox::from_sealed_bytes+unseal", typed_prefix: 0, auth: au_seal,
            run: |c, x| { let kp: dryoc::dryocbox::KeyPair = dryoc::keypair::KeyPair { public_key: StackByteArray::from(&c.rpk), secret_key: StackByteArray::from(&c.rsk) };
                match dryoc::dryocbox::VecBox::from_sealed_bytes(x) { Ok(b) => r2b(b.unseal_to_vec(&kp)), Err(_) => false } } },
        Entry { name: "crypto_secretstream_pull", typed_prefix: 0, auth: au_stream,
            run: |c, x| { let (mut d, _) = init_pair(&c.key, &c.header, 1); let mut m = vec![0u8; x.len().saturating_sub(ABYTES)]; let mut t = 0u8;
                r2b(cs::crypto_secretstream_xchacha20poly1305_pull(&mut d, &mut m, &mut t, x, None)) } },
        Entry { name: "DryocStream::pull", typed_prefix: 0, auth: au_stream,
            run: |c, x| { let (d, _) = init_pair(&c.key, &c.header, 1); let mut o: DryocStream<Pull> = DryocStream::verif_from_state(d);
                r2b(o.pull::<Vec<u8>, Vec<u8>>(&x.to_vec(), None)) } },
        Entry { name: "DryocStream::pull_to_vec", typed_prefix: 0, auth: au_stream,
            run: |c, x| { let (d, _) = init_pair(&c.key, &c.header, 1); let mut o: DryocStream<Pull> = DryocStream::verif_from_state(d);
                r2b(o.pull_to_vec(&x.to_vec(), None)) } },
        // Untrusted.tla family "stream", receiver state other than a freshly initialised one: a state object that was never
        // given a key (State::new / Default) or that was wiped (Zeroize) still answers Ok or Err to whatever bytes arrive
        Entry { name: "crypto_secretstream_pull (state never initialised)", typed_prefix: 0, auth: |_c, _l, _r| None,
            run: |_c, x| { let mut d = cs::State::new(); let mut m = vec![0u8; x.len().saturating_sub(ABYTES)]; let mut t = 0u8;
                r2b(cs::crypto_secretstream_xchacha20poly1305_pull(&mut d, &mut m, &mut t, x, None)) } },
        Entry { name: "crypto_secretstream_pull (state wiped after init_pull)", typed_prefix: 0, auth: |_c, _l, _r| None,
            run: |c, x| { use zeroize::Zeroize; let (mut d, _) = init_pair(&c.key, &c.header, 1); d.zeroize(); let mut m = vec![0u8; x.len().saturating_sub(ABYTES)]; let mut t = 0u8;
                r2b(cs::crypto_secretstream_xchacha20poly1305_pull(&mut d, &mut m, &mut t, x, None)) } },
        Entry { name: "DryocStream::pull_to_vec (stream wiped after init_pull)", typed_prefix: 0, auth: |_c, _l, _r| None,
            run: |c, x| { use zeroize::Zeroize; let mut o = DryocStream::init_pull(&StackByteArray::from(&c.key), &StackByteArray::from(&c.header)); o.zeroize();
                r2b(o.pull_to_vec(&x.to_vec(), None)) } },
        Entry { name: "crypto_sign_open", typed_prefix: 0, auth: au_signed,
            run: |c, x| { let mut m = vec![0u8; x.len().saturating_sub(64)]; r2b(csg::crypto_sign_open(&mut m, x, &c.sign_pk)) } },
        Entry { name: "crypto_sign_verify_detached", typed_prefix: 64, auth: au_sig_msg,
            run: |c, x| r2b(csg::crypto_sign_verify_detached(&a64(x), &x[64..], &c.sign_pk)) },
        Entry { name: "crypto_sign_final_verify", typed_prefix: 64, auth: au_sigph_msg,
            run: |c, x| { let mut st = csg::crypto_sign_init(); csg::crypto_sign_update(&mut st, &x[64..]); r2b(csg::crypto_sign_final_verify(st, &a64(x), &c.sign_pk)) } },
        Entry { name: "SignedMessage::from_bytes+verify", typed_prefix: 0, auth: au_signed,
            run: |c, x| match dryoc::sign::SignedMessage::<StackByteArray<64>, Vec<u8>>::from_bytes(x) { Ok(s) => r2b(s.verify(&c.sign_pk)), Err(_) => false } },
        Entry { name: "IncrementalSigner::verify", typed_prefix: 64, auth: au_sigph_msg,
            run: |c, x| { let mut s = dryoc::sign::IncrementalSigner::new(); s.update(&x[64..].to_vec()); r2b(s.verify(&a64(x), &c.sign_pk)) } },
        Entry { name: "crypto_auth_verify", typed_prefix: 32, auth: au_auth,
            run: |c, x| r2b(ca::crypto_auth_verify(&a32(x), &x[32..], &c.key)) },
        Entry { name: "Auth::compute_and_verify", typed_prefix: 32, auth: au_auth,
            run: |c, x| r2b(dryoc::auth::Auth::compute_and_verify(&a32(x), c.key, &x[32..].to_vec())) },
        Entry { name: "crypto_onetimeauth_verify", typed_prefix: 16, auth: au_ota,
            run: |c, x| r2b(co::crypto_onetimeauth_verify(&a16(x), &x[16..], &c.key)) },
        Entry { name: "OnetimeAuth::compute_and_verify", typed_prefix: 16, auth: au_ota,
            run: |c, x| r2b(dryoc::onetimeauth::OnetimeAuth::compute_and_verify(&a16(x), c.key, &x[16..].to_vec())) },
        // incremental MAC verification: the message arrives in pieces of every size (every two-way split is tried)
        Entry { name: "crypto_onetimeauth_init/update/final (every split)", typed_prefix: 16, auth: au_ota,
            run: |c, x| { let m = &x[16..]; let mut all = true;
                for i in 0..=m.len() { let mut st = co::crypto_onetimeauth_init(&c.key); co::crypto_onetimeauth_update(&mut st, &m[..i]); co::crypto_onetimeauth_update(&mut st, &m[i..]);
                    let mut t = [0u8; 16]; co::crypto_onetimeauth_final(st, &mut t); all &= t[..] == x[..16]; }
                all } },
        Entry { name: "OnetimeAuth::new/update/verify (every split)", typed_prefix: 16, auth: au_ota,
            run: |c, x| { let m = &x[16..]; let mut all = true;
                for i in 0..=m.len() { let mut a = dryoc::onetimeauth::OnetimeAuth::new(c.key); a.update(&m[..i].to_vec()); a.update(&m[i..].to_vec()); all &= a.verify(&a16(x)).is_ok(); }
                all } },
        Entry { name: "Auth::new/update/verify (every split)", typed_prefix: 32, auth: au_auth,
            run: |c, x| { let m = &x[32..]; let mut all = true;
                for i in 0..=m.len() { let mut a = dryoc::auth::Auth::new(c.key); a.update(&m[..i].to_vec()); a.update(&m[i..].to_vec()); all &= a.verify(&a32(x)).is_ok(); }
                all } },
        Entry { name: "crypto_sign_ed25519_pk_to_curve25519", typed_prefix: 32, auth: |c, _l, _r| Some(c.sign_pk.to_vec()),
            run: |_c, x| { let mut o = [0u8; 32]; r2b(ced::crypto_sign_ed25519_pk_to_curve25519(&mut o, &a32(x))) } },
        // keys supplied by the other party: public keys (any 32 bytes), and secret keys loaded from storage (any 64 bytes)
        Entry { name: "crypto_scalarmult (peer point)", typed_prefix: 32, auth: |c, _l, _r| Some(c.spk.to_vec()),
            run: |c, x| { let mut o = [0u8; 32]; dryoc::classic::crypto_core::crypto_scalarmult(&mut o, &c.rsk, &a32(x)); true } },
        Entry { name: "crypto_box_beforenm (peer key)", typed_prefix: 32, auth: |c, _l, _r| Some(c.spk.to_vec()),
            run: |c, x| { let _k = cb::crypto_box_beforenm(&a32(x), &c.rsk); true } },
        Entry { name: "crypto_box_easy (recipient key)", typed_prefix: 32, auth: |c, _l, _r| Some(c.rpk.to_vec()),
            run: |c, x| { let m = [5u8; 19]; let mut o = vec![0u8; 19 + 16]; r2b(cb::crypto_box_easy(&mut o, &m, &c.nonce, &a32(x), &c.ssk)) } },
        Entry { name: "crypto_box_seal (recipient key)", typed_prefix: 32, auth: |c, _l, _r| Some(c.rpk.to_vec()),
            run: |_c, x| { let m = [5u8; 19]; let mut o = vec![0u8; 19 + 48]; r2b(cb::crypto_box_seal(&mut o, &m, &a32(x))) } },
        Entry { name: "crypto_kx_client_session_keys (server key)", typed_prefix: 32, auth: |c, _l, _r| Some(c.rpk.to_vec()),
            run: |c, x| { let (mut rx, mut tx) = ([0u8; 32], [0u8; 32]); r2b(dryoc::classic::crypto_kx::crypto_kx_client_session_keys(&mut rx, &mut tx, &c.spk, &c.ssk, &a32(x))) } },
        Entry { name: "crypto_kx_server_session_keys (client key)", typed_prefix: 32, auth: |c, _l, _r| Some(c.spk.to_vec()),
            run: |c, x| { let (mut rx, mut tx) = ([0u8; 32], [0u8; 32]); r2b(dryoc::classic::crypto_kx::crypto_kx_server_session_keys(&mut rx, &mut tx, &c.rpk, &c.rsk, &a32(x))) } },
        Entry { name: "Session::new_client (server key)", typed_prefix: 32, auth: |c, _l, _r| Some(c.rpk.to_vec()),
            run: |c, x| { let kp: dryoc::kx::KeyPair = dryoc::keypair::KeyPair { public_key: StackByteArray::from(&c.spk), secret_key: StackByteArray::from(&c.ssk) };
                          let s: Result<dryoc::kx::Session<StackByteArray<32>>, _> = dryoc::kx::Session::new_client(&kp, &StackByteArray::from(&a32(x))); r2b(s) } },
        Entry { name: "DryocBox::encrypt (recipient key)", typed_prefix: 32, auth: |c, _l, _r| Some(c.rpk.to_vec()),
            run: |c, x| r2b(dryoc::dryocbox::VecBox::encrypt_to_vecbox(&[5u8; 19], &StackByteArray::from(&c.nonce), &StackByteArray::from(&a32(x)), &StackByteArray::from(&c.ssk))) },
        Entry { name: "DryocBox::seal (recipient key)", typed_prefix: 32, auth: |c, _l, _r| Some(c.rpk.to_vec()),
            run: |_c, x| r2b(dryoc::dryocbox::VecBox::seal_to_vecbox(&[5u8; 19], &StackByteArray::from(&a32(x)))) },
        Entry { name: "crypto_sign_ed25519_sk_to_curve25519 (stored key)", typed_prefix: 64, auth: |c, _l, _r| Some(c.sign_sk.to_vec()),
            run: |_c, x| { let mut o = [0u8; 32]; ced::crypto_sign_ed25519_sk_to_curve25519(&mut o, &a64(x)); true } },
        Entry { name: "crypto_sign_detached (stored key)", typed_prefix: 64, auth: |c, _l, _r| Some(c.sign_sk.to_vec()),
            run: |_c, x| { let mut sig = [0u8; 64]; r2b(csg::crypto_sign_detached(&mut sig, b"message", &a64(x))) } },
        Entry { name: "SigningKeyPair::from_secret_key (stored key)", typed_prefix: 64, auth: |c, _l, _r| Some(c.sign_sk.to_vec()),
            run: |_c, x| { let kp: dryoc::sign::SigningKeyPair<StackByteArray<32>, StackByteArray<64>> = dryoc::sign::SigningKeyPair::from_secret_key(StackByteArray::from(&a64(x)));
                           r2b(kp.sign_with_defaults(b"message".to_vec())) } },
        Entry { name: "KeyPair::from_slices", typed_prefix: 0, auth: |_c, l, r| if l == 64 { Some(r.bytes(64)) } else { None },
            run: |_c, x| { let h = x.len() / 2; r2b(dryoc::dryocbox::KeyPair::from_slices(&x[..h], &x[h..])) } },
        Entry { name: "SigningKeyPair::from_slices", typed_prefix: 0, auth: |_c, l, r| if l == 96 { Some(r.bytes(96)) } else { None },
            run: |_c, x| { let h = x.len() / 3; r2b(dryoc::sign::SigningKeyPair::<StackByteArray<32>, StackByteArray<64>>::from_slices(&x[..h], &x[h..])) } },
        Entry { name: "StackByteArray::try_from", typed_prefix: 0, auth: |_c, l, r| if l == 32 { Some(r.bytes(32)) } else { None },
            run: |_c, x| r2b(StackByteArray::<32>::try_from(x)) },
        // a receiver that opens into a message buffer of its own, fixed size (FIXED bytes): the attacker chooses the length of the
        // box, the receiver does not; Ok or Err for every length, whether the box is shorter than, as long as, or longer than the buffer
        Entry { name: "crypto_secretbox_open_easy (receiver buffer of fixed size)", typed_prefix: 0, auth: au_sb,
            run: |c, x| { let mut m = vec![0u8; FIXED]; r2b(csb::crypto_secretbox_open_easy(&mut m, x, &c.nonce, &c.key)) } },
        Entry { name: "crypto_secretbox_open_detached (receiver buffer of fixed size)", typed_prefix: 16, auth: |c, l, r| au_sb(c, l + 16, r),
            run: |c, x| { let mut m = vec![0u8; FIXED]; r2b(csb::crypto_secretbox_open_detached(&mut m, &a16(x), &x[16..], &c.nonce, &c.key)) } },
        Entry { name: "crypto_box_open_easy (receiver buffer of fixed size)", typed_prefix: 0, auth: au_box,
            run: |c, x| { let mut m = vec![0u8; FIXED]; r2b(cb::crypto_box_open_easy(&mut m, x, &c.nonce, &c.spk, &c.rsk)) } },
        Entry { name: "crypto_box_open_detached (receiver buffer of fixed size)", typed_prefix: 16, auth: |c, l, r| au_box(c, l + 16, r),
            run: |c, x| { let mut m = vec![0u8; FIXED]; r2b(cb::crypto_box_open_detached(&mut m, &a16(x), &x[16..], &c.nonce, &c.spk, &c.rsk)) } },
        Entry { name: "crypto_box_open_detached_afternm (receiver buffer of fixed size)", typed_prefix: 16, auth: |c, l, r| au_box(c, l + 16, r),
            run: |c, x| { let mut m = vec![0u8; FIXED]; r2b(cb::crypto_box_open_detached_afternm(&mut m, &a16(x), &x[16..], &c.nonce, &c.pre_r)) } },
        Entry { name: "crypto_box_seal_open (receiver buffer of fixed size)", typed_prefix: 0, auth: au_seal,
            run: |c, x| { let mut m = vec![0u8; FIXED]; r2b(cb::crypto_box_seal_open(&mut m, x, &c.rpk, &c.rsk)) } },
        Entry { name: "crypto_secretstream_pull (receiver buffer of fixed size)", typed_prefix: 0, auth: au_stream,
            run: |c, x| { let (mut d, _) = init_pair(&c.key, &c.header, 1); let mut m = vec![0u8; FIXED]; let mut t = 0u8;
                r2b(cs::crypto_secretstream_xchacha20poly1305_pull(&mut d, &mut m, &mut t, x, None)) } },
        Entry { name: "crypto_sign_open (receiver buffer of fixed size)", typed_prefix: 0, auth: au_signed,
            run: |c, x| { let mut m = vec![0u8; FIXED]; r2b(csg::crypto_sign_open(&mut m, x, &c.sign_pk)) } },
        // the tag byte of a stream message is the sender's choice: converting any byte to the tag type is total
        Entry { name: "secretstream Tag::from(u8), every byte", typed_prefix: 0, auth: |_c, l, r| Some(r.bytes(l)),
            run: |_c, x| { let mut acc = 0u32; for b in x.iter().copied().chain(0u8..=255) { acc = acc.wrapping_add(dryoc::dryocstream::Tag::from(b).bits() as u32); } acc != u32::MAX } },
        // fixed-length items held in a Vec (family "vecheld"): of the fixed length and genuine -> Ok; of any other length -> Err
        Entry { name: "Auth::compute_and_verify (MAC held in a Vec)", typed_prefix: 0, auth: |c, l, _r| exactly(32, l, v_auth(c)),
            run: |c, x| r2b(dryoc::auth::Auth::compute_and_verify(&x.to_vec(), c.key, &VMSG.to_vec())) },
        Entry { name: "Auth::new/update/verify (MAC held in a Vec)", typed_prefix: 0, auth: |c, l, _r| exactly(32, l, v_auth(c)),
            run: |c, x| { let mut a = dryoc::auth::Auth::new(c.key); a.update(&VMSG.to_vec()); r2b(a.verify(&x.to_vec())) } },
        Entry { name: "OnetimeAuth::compute_and_verify (MAC held in a Vec)", typed_prefix: 0, auth: |c, l, _r| exactly(16, l, v_ota(c)),
            run: |c, x| r2b(dryoc::onetimeauth::OnetimeAuth::compute_and_verify(&x.to_vec(), c.key, &VMSG.to_vec())) },
        Entry { name: "OnetimeAuth::new/update/verify (MAC held in a Vec)", typed_prefix: 0, auth: |c, l, _r| exactly(16, l, v_ota(c)),
            run: |c, x| { let mut a = dryoc::onetimeauth::OnetimeAuth::new(c.key); a.update(&VMSG.to_vec()); r2b(a.verify(&x.to_vec())) } },
        Entry { name: "SignedMessage::from_parts+verify (signature held in a Vec)", typed_prefix: 0, auth: |c, l, _r| exactly(64, l, v_sig(c)),
            run: |c, x| { let s: dryoc::sign::SignedMessage<Vec<u8>, Vec<u8>> = dryoc::sign::SignedMessage::from_parts(x.to_vec(), VMSG.to_vec()); r2b(s.verify(&c.sign_pk)) } },
        Entry { name: "IncrementalSigner::verify (signature held in a Vec)", typed_prefix: 0, auth: |c, l, _r| exactly(64, l, v_sigph(c)),
            run: |c, x| { let mut s = dryoc::sign::IncrementalSigner::new(); s.update(&VMSG.to_vec()); r2b(s.verify(&x.to_vec(), &c.sign_pk)) } },
        Entry { name: "DryocSecretBox::from_parts+decrypt (tag held in a Vec)", typed_prefix: 0, auth: |c, l, _r| exactly(16, l, v_sb(c).0),
            run: |c, x| { let b: dryoc::dryocsecretbox::DryocSecretBox<Vec<u8>, Vec<u8>> = dryoc::dryocsecretbox::DryocSecretBox::from_parts(x.to_vec(), v_sb(c).1);
                let r: Result<Vec<u8>, _> = b.decrypt(&c.nonce, &c.key); r2b(r) } },
        Entry { name: "DryocBox::from_parts+decrypt (tag held in a Vec)", typed_prefix: 0, auth: |c, l, _r| exactly(16, l, v_box(c).0),
            run: |c, x| { let b: dryoc::dryocbox::DryocBox<StackByteArray<32>, Vec<u8>, Vec<u8>> = dryoc::dryocbox::DryocBox::from_parts(x.to_vec(), v_box(c).1, None);
                let r: Result<Vec<u8>, _> = b.decrypt(&c.nonce, &c.spk, &c.rsk); r2b(r) } },
        Entry { name: "DryocBox::from_parts+precalc_decrypt (tag held in a Vec)", typed_prefix: 0, auth: |c, l, _r| exactly(16, l, v_box(c).0),
            run: |c, x| { let b: dryoc::dryocbox::DryocBox<StackByteArray<32>, Vec<u8>, Vec<u8>> = dryoc::dryocbox::DryocBox::from_parts(x.to_vec(), v_box(c).1, None);
                let r: Result<Vec<u8>, _> = b.precalc_decrypt(&c.nonce, &c.pre_r); r2b(r) } },
        Entry { name: "DryocBox::from_parts+unseal (tag held in a Vec)", typed_prefix: 0, auth: |_c, _l, _r| None,
            run: |c, x| { let b: dryoc::dryocbox::DryocBox<StackByteArray<32>, Vec<u8>, Vec<u8>> = dryoc::dryocbox::DryocBox::from_parts(x.to_vec(), v_box(c).1, Some(StackByteArray::from(&c.spk)));
                let kp: dryoc::dryocbox::KeyPair = dryoc::keypair::KeyPair { public_key: StackByteArray::from(&c.rpk), secret_key: StackByteArray::from(&c.rsk) };
                let r: Result<Vec<u8>, _> = b.unseal(&kp); r2b(r) } },
        Entry { name: "DryocStream::init_pull (header held in a Vec)", typed_prefix: 0, auth: |c, l, _r| exactly(24, l, c.header.to_vec()),
            run: |c, x| { let (_, mut s) = init_pair(&c.key, &c.header, 1); let w = so_push(&mut s, VMSG, None, 0);
                let mut p = DryocStream::init_pull(&StackByteArray::from(&c.key), &x.to_vec()); r2b(p.pull_to_vec(&w, None)) } },
    ]
}

fn ovh_of(table: &Value, name: &str) -> Option<usize> {
    table.as_array()?.iter().find(|r| r["e"] == name).and_then(|r| r["ovh"].as_u64()).map(|x| x as usize)
}

const ALLOC_SLACK: usize = 4 * 1024 * 1024; // "absurd" starts well above any scratch buffer a reasonable implementation might use

/// one call, classified: Ok / Err / Panic / HugeAlloc
fn classify(run: Run, c: &UCtx, x: &[u8], budget: usize) -> (&'static str, String) {
    crate::MAXALLOC.store(0, Ordering::SeqCst);
    let r = catch(|| run(c, x));
    let big = crate::MAXALLOC.load(Ordering::SeqCst);
    if big > budget {
        return ("HugeAlloc", format!("single allocation of {} bytes for an input of {} bytes", big, x.len()));
    }
    match r {
        Ok(true) => ("Ok", String::new()),
        Ok(false) => ("Err", String::new()),
        Err(p) => ("Panic", p),
    }
}

/// `untrusted <table.json> <out.json> <seed> <reps>`: every entry point in a forked child.
pub fn cmd_untrusted(args: &[String]) {
    let table: Value = serde_json::from_str(&std::fs::read_to_string(&args[0]).unwrap()).unwrap();
    let seed: u64 = args[2].parse().unwrap();
    let reps: u64 = args[3].parse().unwrap();
    let mut rep = Report::new();
    let es = entries();
    // every entry point of the specification must be dispatched here (pwstr ones are in cmd_pwstr)
    for row in table.as_array().unwrap() {
        let n = row["e"].as_str().unwrap();
        if row["fam"] != "pwstr" && !es.iter().any(|e| e.name == n) {
            rep.fail("HARNESS: entry point of Untrusted.tla has no dispatch arm", json!(n));
        }
    }
    for e in es.iter() {
        let ovh = match ovh_of(&table, e.name) { Some(o) => o, None => { rep.fail("HARNESS: entry point missing from Untrusted.tla", json!(e.name)); continue; } };
        let tmp = format!("{}.{}.child", args[1], e.name.replace(|c: char| !c.is_alphanumeric(), "_"));
        let progress = unsafe { libc::mmap(std::ptr::null_mut(), 4096, libc::PROT_READ | libc::PROT_WRITE, libc::MAP_SHARED | libc::MAP_ANONYMOUS, -1, 0) as *mut u32 };
        let pid = unsafe { libc::fork() };
        if pid == 0 {
            let mut r = Report::new();
            let mut rng = Rng::new(seed ^ 0xc04);
            let c = mk(&mut rng);
            let nmax = 2 * (ovh + e.typed_prefix) + 64;
            // Untrusted.tla, family "fixed": the receiver's buffer has its own size, an authentic box that does not fit may be refused
            let vec_fam = table.as_array().map(|a| a.iter().any(|r| r["e"] == e.name && r["fam"] == "vecheld")).unwrap_or(false);
            let fixed_fam = table.as_array().map(|a| a.iter().any(|r| r["e"] == e.name && r["fam"] == "fixed")).unwrap_or(false);
            for len in 0..=nmax {
                unsafe { *progress = len as u32 };
                for rr in 0..reps {
                    let total = len + e.typed_prefix;
                    let auth = (e.auth)(&c, len, &mut rng);
                    let mut inputs: Vec<(&str, Vec<u8>)> = vec![("zeros", vec![0u8; total]), ("ones", vec![0xffu8; total]), ("random", rng.bytes(total))];
                    // a longer authentic input cut down to this length, and an authentic one with one bit flipped
                    if let Some(longer) = (e.auth)(&c, len + 7 + (rr as usize), &mut rng) { inputs.push(("valid_prefix", longer[..total.min(longer.len())].to_vec())); }
                    if let Some(a) = &auth {
                        if !a.is_empty() { let mut m = a.clone(); let b = rng.below(8 * m.len() as u64) as usize; m[b / 8] ^= 1 << (b % 8); inputs.push(("valid_mutated", m)); }
                        inputs.push(("authentic", a.clone()));
                    }
                    // the genuine item followed by further bytes (Untrusted.tla, family "vecheld")
                    if vec_fam && len > ovh { if let Some(a) = (e.auth)(&c, ovh, &mut rng) { inputs.push(("authentic_extended", [&a[..], &rng.bytes(len - ovh)[..]].concat())); } }
                    for (class, x) in inputs {
                        if x.len() < e.typed_prefix { continue; }
                        r.evaluations += 1;
                        r.case(&format!("{}|{}|{}|{}", e.name, len, class, rr));
                        let (out, info) = classify(e.run, &c, &x, ALLOC_SLACK + 8 * x.len());
                        r.count(&format!("{}:{}", class, out));
                        let key_fixed = e.name.contains("from_slices") || e.name.contains("try_from") || e.name.contains("pk_to_curve");
                        if out == "Panic" || out == "HugeAlloc" {
                            r.fail(&format!("{}: {} on untrusted input", e.name, out), json!({"entry": e.name, "len": len, "class": class, "info": info, "input": hex(&x[..x.len().min(96)]), "seed": seed}));
                        } else if ovh > 0 && len < ovh && out != "Err" {
                            r.fail(&format!("{}: input shorter than the overhead accepted", e.name), json!({"len": len, "class": class}));
                        } else if vec_fam && len != ovh && out != "Err" {
                            r.fail(&format!("{}: an item that does not have the fixed length is accepted", e.name), json!({"len": len, "class": class, "fixed_length": ovh, "seed": seed}));
                        } else if fixed_fam && class == "authentic" && len.saturating_sub(ovh) == FIXED && out != "Ok" {
                            r.fail(&format!("{}: authentic input that fits the receiver's buffer exactly is rejected", e.name), json!({"len": len, "seed": seed}));
                        } else if class == "authentic" && out != "Ok" && !(key_fixed && false) && !fixed_fam {
                            r.fail(&format!("{}: authentic input rejected", e.name), json!({"len": len, "seed": seed}));
                        }
                    }
                }
            }
            r.write(&tmp);
            unsafe { libc::_exit(0) };
        }
        let mut st = 0;
        unsafe { libc::waitpid(pid, &mut st, 0) };
        if libc::WIFSIGNALED(st) {
            rep.fail(&format!("{}: Abort on untrusted input", e.name), json!({"entry": e.name, "signal": libc::WTERMSIG(st), "at_length": unsafe { *progress }, "seed": seed}));
        } else if let Ok(txt) = std::fs::read_to_string(&tmp) {
            let r: Value = serde_json::from_str(&txt).unwrap();
            rep.evaluations += r["evaluations"].as_u64().unwrap_or(0);
            rep.distinct_extra += r["distinct"].as_u64().unwrap_or(0);
            rep.nfail += r["nfail"].as_u64().unwrap_or(0);
            for f in r["failures"].as_array().unwrap() { if rep.failures.len() < 400 { rep.failures.push(f.clone()); } }
            for (k, v) in r["counters"].as_object().unwrap() { rep.add(&format!("{}|{}", e.name, k).replace(&format!("{}|fail:", e.name), "fail:"), v.as_u64().unwrap()); }
            std::fs::remove_file(&tmp).ok();
        }
        if rep.samples.len() < 3 { rep.sample(json!({"entry": e.name, "overhead": ovh, "lengths": format!("0..={}", 2 * (ovh + e.typed_prefix) + 64), "classes": ["zeros", "ones", "random", "valid_prefix", "valid_mutated", "authentic"]})); }
    }
    rep.write(&args[1]);
}

/// `untrusted-tags <out.json> <seed>`: an authentic stream message with every tag byte 0..=255, pulled through
/// the classic and the object API.
pub fn cmd_tags(args: &[String]) {
    let seed: u64 = args[1].parse().unwrap();
    let mut rng = Rng::new(seed ^ 0x7a65);
    let c = mk(&mut rng);
    let mut rep = Report::new();
    let tmp = format!("{}.child", args[0]);
    let progress = unsafe { libc::mmap(std::ptr::null_mut(), 4096, libc::PROT_READ | libc::PROT_WRITE, libc::MAP_SHARED | libc::MAP_ANONYMOUS, -1, 0) as *mut u32 };
    let pid = unsafe { libc::fork() };
    if pid == 0 {
        let mut r = Report::new();
        for tag in 0..=255u8 {
            unsafe { *progress = tag as u32 };
            for mlen in [0usize, 1, 33] {
                r.case(&format!("tag|{}|{}", tag, mlen));
                let (_, mut s) = init_pair(&c.key, &c.header, 1);
                let m = rng.bytes(mlen);
                let w = so_push(&mut s, &m, None, tag);
                r.evaluations += 3;
                let (mut d, _) = init_pair(&c.key, &c.header, 1);
                let mut out = vec![0u8; mlen];
                let mut t = 0u8;
                match catch(|| cs::crypto_secretstream_xchacha20poly1305_pull(&mut d, &mut out, &mut t, &w, None)) {
                    Ok(Ok(_)) => { if t != tag || out != m { r.fail("crypto_secretstream_pull: authentic message with an arbitrary tag byte mis-delivered", json!({"tag": tag})); } }
                    Ok(Err(_)) => r.fail("crypto_secretstream_pull: authentic input rejected", json!({"tag": tag})),
                    Err(p) => r.fail("crypto_secretstream_pull: Panic on untrusted input", json!({"tag": tag, "panic": p})),
                }
                for (nm, which) in [("DryocStream::pull", 0), ("DryocStream::pull_to_vec", 1)] {
                    let (d, _) = init_pair(&c.key, &c.header, 1);
                    let mut o: DryocStream<Pull> = DryocStream::verif_from_state(d);
                    let res = catch(|| if which == 0 { o.pull::<Vec<u8>, Vec<u8>>(&w, None).map(|(m, t)| (m, t.bits())) } else { o.pull_to_vec(&w, None).map(|(m, t)| (m, t.bits())) });
                    match res {
                        Ok(Ok((mm, _tt))) => { if mm != m { r.fail(&format!("{}: authentic message mis-delivered", nm), json!({"tag": tag})); } }
                        // an error for an authentic message whose tag has unknown bits stays inside the envelope {Ok, Err}
                        Ok(Err(_)) => { r.count(&format!("{}:err_on_unknown_tag", nm)); }
                        Err(p) => r.fail(&format!("{}: Panic on untrusted input", nm), json!({"tag": tag, "mlen": mlen, "panic": p, "what": "authentic stream message carrying this tag byte"})),
                    }
                }
            }
        }
        r.write(&tmp);
        unsafe { libc::_exit(0) };
    }
    let mut st = 0;
    unsafe { libc::waitpid(pid, &mut st, 0) };
    if libc::WIFSIGNALED(st) {
        rep.fail("stream pull: Abort on an authentic message", json!({"signal": libc::WTERMSIG(st), "tag": unsafe { *progress }}));
    } else if let Ok(txt) = std::fs::read_to_string(&tmp) {
        let r: Value = serde_json::from_str(&txt).unwrap();
        rep.evaluations += r["evaluations"].as_u64().unwrap_or(0);
            rep.distinct_extra += r["distinct"].as_u64().unwrap_or(0);
        rep.nfail += r["nfail"].as_u64().unwrap_or(0);
        for f in r["failures"].as_array().unwrap() { rep.failures.push(f.clone()); }
        for (k, v) in r["counters"].as_object().unwrap() { rep.add(k, v.as_u64().unwrap()); }
        std::fs::remove_file(&tmp).ok();
    }
    rep.sample(json!({"tags": "0..=255", "message_lengths": [0, 1, 33], "apis": ["classic pull", "DryocStream::pull", "DryocStream::pull_to_vec"]}));
    rep.write(&args[0]);
}

// ------------------------------------------------------------------------------------------ password-hash strings
fn declared_mem(s: &str) -> Option<u64> {
    let i = s.find("m=")?;
    let d: String = s[i + 2..].chars().take_while(|c| c.is_ascii_digit()).collect();
    d.parse::<u64>().ok()
}

/// `untrusted-pwstr <strings.ndjson> <out.json> <seed> <nrandom>`: strings from the grammar of PwStr.tla (one JSON
/// string per line) plus random ones; each through the four string-consuming entry points.
pub fn cmd_pwstr(args: &[String]) {
    use std::io::BufRead;
    let seed: u64 = args[2].parse().unwrap();
    let nrandom: u64 = args[3].parse().unwrap();
    let mut strings: Vec<String> = vec![];
    for line in std::io::BufReader::new(std::fs::File::open(&args[0]).unwrap()).lines() {
        let l = line.unwrap();
        if let Ok(Value::String(s)) = serde_json::from_str::<Value>(&l) { strings.push(s); }
    }
    let mut rng = Rng::new(seed ^ 0x9977);
    let alphabet: Vec<char> = "$$$,=argon2idvmtp0123456789+/ABCabcxyzZ \u{e9}\u{4e2d}".chars().collect();
    for i in 0..nrandom {
        let n = rng.below(if i % 5 == 0 { 200 } else { 60 }) as usize;
        let mut s: String = (0..n).map(|_| alphabet[rng.below(alphabet.len() as u64) as usize]).collect();
        // keep declared memory inside the property's "bounded cost parameters"
        if let Some(m) = declared_mem(&s) { if m > 1024 && m <= u32::MAX as u64 { s = s.replace("m=", "m=0"); if declared_mem(&s).map(|m| m > 1024).unwrap_or(false) { continue; } } }
        strings.push(s);
    }
    // text is not bytes: every field of a valid string, stretched, with a multi-byte character (2, 3 and 4 bytes) starting at
    // every byte offset 0..=34 - whatever byte index a parser or an error message cuts a field at, some string here has a
    // character straddling it
    {
        let fields = ["argon2id", "v=19", "m=8,t=1,p=1", "c2FsdHNhbHQ", "aGFzaGhhc2hoYXNoaGFzaA"];
        let filler = ["-variant-of-the-algorithm-with-a-long-name", "000000000000000000000000000000000000", ",x=1,y=2,z=3,w=4,q=5,r=6,s=7,u=8,k=9", "c2FsdHNhbHRzYWx0c2FsdHNhbHRzYWx0c2FsdA", "aGFzaGhhc2hoYXNoaGFzaGhhc2hoYXNoaGFzaA"];
        for f in 0..fields.len() {
            let long: String = format!("{}{}", fields[f], filler[f]);
            for k in 0..=34usize {
                for mb in ["\u{e9}", "\u{20ac}", "\u{1f600}"] {
                    let mut parts: Vec<String> = fields.iter().map(|x| x.to_string()).collect();
                    parts[f] = format!("{}{}{}", &long[..k], mb, &long[k..k.max(20)]);
                    strings.push(format!("${}", parts.join("$")));
                }
            }
        }
    }
    let mut rep = Report::new();
    let tmp = format!("{}.child", args[1]);
    let progress = unsafe { libc::mmap(std::ptr::null_mut(), 4096, libc::PROT_READ | libc::PROT_WRITE, libc::MAP_SHARED | libc::MAP_ANONYMOUS, -1, 0) as *mut u32 };
    let pid = unsafe { libc::fork() };
    if pid == 0 {
        let mut r = Report::new();
        for (i, s) in strings.iter().enumerate() {
            unsafe { *progress = i as u32 };
            let mem = declared_mem(s).unwrap_or(0);
            if mem > 1024 && mem <= u32::MAX as u64 { r.count("skipped: declared memory above the bounded-cost limit"); continue; }
            let budget = ALLOC_SLACK + 8 * s.len() + (mem as usize) * 1024 + 4096;
            type F = fn(&str) -> bool;
            let fs: [(&str, F); 4] = [
                ("crypto_pwhash_str_verify", |s| r2b(cp::crypto_pwhash_str_verify(s, b"password"))),
                ("crypto_pwhash_str_needs_rehash", |s| r2b(cp::crypto_pwhash_str_needs_rehash(s, 2, 65536))),
                ("PwHash::from_string+verify", |s| match dryoc::pwhash::PwHash::<Vec<u8>, Vec<u8>>::from_string(s) { Ok(p) => r2b(p.verify(b"password")), Err(_) => false }),
                ("PwHash::from_string_with_defaults", |s| r2b(dryoc::pwhash::PwHash::from_string_with_defaults(s))),
            ];
            r.case(s);
            for (name, f) in fs.iter() {
                r.evaluations += 1;
                crate::MAXALLOC.store(0, Ordering::SeqCst);
                let res = catch(|| f(s));
                let big = crate::MAXALLOC.load(Ordering::SeqCst);
                let out = if big > budget { "HugeAlloc" } else { match &res { Ok(true) => "Ok", Ok(false) => "Err", Err(_) => "Panic" } };
                r.count(&format!("{}:{}", name, out));
                if out == "Panic" || out == "HugeAlloc" {
                    r.fail(&format!("{}: {} on untrusted input", name, out), json!({"string": s, "alloc": big, "panic": res.err()}));
                }
            }
        }
        r.write(&tmp);
        unsafe { libc::_exit(0) };
    }
    let mut st = 0;
    unsafe { libc::waitpid(pid, &mut st, 0) };
    if libc::WIFSIGNALED(st) {
        let i = unsafe { *progress } as usize;
        rep.fail("password-hash string entry point: Abort on untrusted input", json!({"signal": libc::WTERMSIG(st), "string": strings.get(i)}));
    } else if let Ok(txt) = std::fs::read_to_string(&tmp) {
        let r: Value = serde_json::from_str(&txt).unwrap();
        rep.evaluations += r["evaluations"].as_u64().unwrap_or(0);
            rep.distinct_extra += r["distinct"].as_u64().unwrap_or(0);
        rep.nfail += r["nfail"].as_u64().unwrap_or(0);
        for f in r["failures"].as_array().unwrap() { rep.failures.push(f.clone()); }
        for (k, v) in r["counters"].as_object().unwrap() { rep.add(k, v.as_u64().unwrap()); }
        std::fs::remove_file(&tmp).ok();
    }
    rep.add("strings", strings.len() as u64);
    if let Some(s) = strings.first() { rep.sample(json!({"string": s})); }
    if let Some(s) = strings.last() { rep.sample(json!({"string": s})); }
    let _ = std::io::stdout().flush();
    rep.write(&args[1]);
}
