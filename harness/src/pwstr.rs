//! C10: password-hash strings: encode/parse round trips, interoperability with libsodium, needs-rehash table.
use crate::common::*;
use base64::Engine as _;
use dryoc::classic::crypto_pwhash as cp;
use dryoc::pwhash::{Config, PwHash};
use libsodium_sys as so;
use serde_json::{json, Value};
use std::ffi::CString;

fn b64(b: &[u8]) -> String {
    base64::engine::general_purpose::STANDARD_NO_PAD.encode(b)
}

/// renders the specification's segment sequence with the actual salt and hash
fn render(segs: &Value, salt: &[u8], hash: &[u8]) -> String {
    let mut parts: Vec<String> = vec![];
    let mut nb = 0;
    for s in segs.as_array().unwrap() {
        match s["k"].as_str().unwrap() {
            "empty" => parts.push(String::new()),
            "alg" => parts.push(s["name"].as_str().unwrap().to_string()),
            "ver" => parts.push(format!("v={}", s["v"]["val"])),
            "par" => parts.push(format!("m={},t={},p={}", s["m"]["val"], s["t"]["val"], s["p"]["val"])),
            "b64" => { nb += 1; parts.push(b64(if nb == 1 { salt } else { hash })); }
            _ => {}
        }
    }
    parts.join("$")
}

fn so_verify(s: &str, pw: &[u8]) -> bool {
    let c = CString::new(s).unwrap();
    unsafe { so::crypto_pwhash_str_verify(c.as_ptr(), pw.as_ptr() as *const _, pw.len() as u64) == 0 }
}
fn so_needs(s: &str, ops: u64, mem: usize) -> i32 {
    let c = CString::new(s).unwrap();
    unsafe { so::crypto_pwhash_str_needs_rehash(c.as_ptr(), ops, mem) }
}
fn so_str(pw: &[u8], ops: u64, mem: usize, alg: i32) -> Option<String> {
    let mut out = vec![0i8; 128];
    let r = unsafe { so::crypto_pwhash_str_alg(out.as_mut_ptr(), pw.as_ptr() as *const _, pw.len() as u64, ops, mem, alg) };
    if r != 0 { return None; }
    let b: Vec<u8> = out.iter().take_while(|c| **c != 0).map(|c| *c as u8).collect();
    String::from_utf8(b).ok()
}

/// `pwstr <table.json> <out.json> <seed>`
pub fn cmd_pwstr(args: &[String]) {
    let table: Value = serde_json::from_str(&std::fs::read_to_string(&args[0]).unwrap()).unwrap();
    let seed: u64 = args[2].parse().unwrap();
    let mut rng = Rng::new(seed ^ 0xc10);
    let mut rep = Report::new();
    let valid = table["valid"].as_array().unwrap();
    for (vi, v) in valid.iter().enumerate() {
        let o = &v["obj"];
        let alg = o["alg"].as_str().unwrap();
        let t = o["t"].as_u64().unwrap();
        let m = o["m"].as_u64().unwrap() as usize;
        let sl = o["saltlen"].as_u64().unwrap() as usize;
        let hl = o["hashlen"].as_u64().unwrap() as usize;
        let pwlen = rng.below(40) as usize;
        let pw = rng.bytes(pwlen);
        let mut wrong = pw.clone();
        if wrong.is_empty() { wrong.push(1) } else { let i = rng.below(wrong.len() as u64) as usize; wrong[i] ^= 1 << rng.below(8); }
        let salt = rng.bytes(sl);
        macro_rules! fail { ($k:expr, $($d:tt)*) => { rep.fail($k, json!({"object": o, "info": json!($($d)*), "seed": seed})) }; }
        // the hash this object must carry
        let algo = if alg == "argon2i" { cp::PasswordHashAlgorithm::Argon2i13 } else { cp::PasswordHashAlgorithm::Argon2id13 };
        let mut hash = vec![0u8; hl];
        match catch(|| cp::crypto_pwhash(&mut hash, &pw, &salt, t, m * 1024, algo)) {
            Ok(Ok(())) => {}
            other => { fail!("crypto_pwhash failed on accepted parameters", format!("{:?}", other.map(|r| r.map_err(|e| format!("{:?}", e))))); continue; }
        }
        let want = render(&v["segs"], &salt, &hash);
        rep.evaluations += 1;
        rep.case(&want);
        // libsodium accepts the string the specification prescribes, for the right password only
        if !so_verify(&want, &pw) { fail!("libsodium rejects the prescribed string for the right password", {"string": want}); }
        if so_verify(&want, &wrong) { fail!("libsodium accepts a wrong password (harness error)", {"string": want}); }
        // dryoc verifies it
        rep.evaluations += 4;
        // the classic verifier is libsodium's string API: 32-byte hashes (other hash lengths belong to the object API)
        if hl == 32 && cp::crypto_pwhash_str_verify(&want, &pw).is_err() { fail!("crypto_pwhash_str_verify rejects a valid string", {"string": want}); }
        if hl != 32 { rep.count("classic verify not judged: hash length other than 32"); }
        if cp::crypto_pwhash_str_verify(&want, &wrong).is_ok() && hl == 32 { fail!("crypto_pwhash_str_verify accepts a wrong password", {"string": want}); }
        // parse -> object -> re-encode: the same string, and the object verifies
        match catch(|| PwHash::<Vec<u8>, Vec<u8>>::from_string(&want)) {
            Ok(Ok(p)) => {
                let again = p.to_string();
                if again != want { fail!("from_string then to_string does not return the same string", {"string": want, "reencoded": again}); }
                if p.verify(&pw).is_err() { fail!("parsed PwHash rejects the right password", {"string": want}); }
                if p.verify(&wrong).is_ok() { fail!("parsed PwHash accepts a wrong password", {"string": want}); }
            }
            Ok(Err(e)) => fail!("PwHash::from_string rejects a valid string", {"string": want, "err": format!("{:?}", e)}),
            Err(p) => fail!("PwHash::from_string panicked", {"string": want, "panic": p}),
        }
        // the object API produces the prescribed string (the algorithm is fixed to argon2id by Config)
        if alg == "argon2id" {
            rep.evaluations += 2;
            let cfg = Config::interactive().with_opslimit(t).with_memlimit(m * 1024).with_salt_length(sl).with_hash_length(hl);
            match catch(|| PwHash::<Vec<u8>, Vec<u8>>::hash_with_salt(&pw, salt.clone(), cfg)) {
                Ok(Ok(p)) => {
                    let s = p.to_string();
                    if s != want { fail!("PwHash::to_string differs from the prescribed encoding", {"got": s, "want": want}); }
                    if !so_verify(&s, &pw) { fail!("libsodium rejects a string produced by PwHash::to_string", {"string": s}); }
                }
                Ok(Err(e)) => fail!("PwHash::hash_with_salt failed", format!("{:?}", e)),
                Err(p) => fail!("PwHash::hash_with_salt panicked", p),
            }
        }
        // the same object over heap and locked containers (nightly): identical string, same verdicts
        #[cfg(feature = "nightly")]
        if alg == "argon2id" && vi % 3 == 0 {
            use dryoc::protected::{HeapBytes, Locked, NewLockedFromSlice};
            rep.evaluations += 2;
            let cfg = Config::interactive().with_opslimit(t).with_memlimit(m * 1024).with_salt_length(sl).with_hash_length(hl);
            let lpw = HeapBytes::from_slice_into_locked(&pw).unwrap();
            let lsalt = HeapBytes::from_slice_into_locked(&salt).unwrap();
            match catch(|| PwHash::<Locked<HeapBytes>, Locked<HeapBytes>>::hash_with_salt(&lpw, lsalt, cfg.clone())) {
                Ok(Ok(p)) => {
                    let s = p.to_string();
                    if s != want { fail!("LockedPwHash::to_string differs from the prescribed encoding", {"got": s, "want": want}); }
                    if p.verify(&lpw).is_err() { fail!("LockedPwHash rejects the right password", {"string": want}); }
                    if p.verify(&wrong).is_ok() { fail!("LockedPwHash accepts a wrong password", {"string": want}); }
                }
                Ok(Err(e)) => fail!("LockedPwHash::hash_with_salt failed", format!("{:?}", e)),
                Err(p) => fail!("LockedPwHash::hash_with_salt panicked", p),
            }
            match catch(|| PwHash::<HeapBytes, HeapBytes>::hash_with_salt(&pw, HeapBytes::from(&salt[..]), cfg)) {
                Ok(Ok(p)) => { let s = p.to_string(); if s != want { fail!("PwHash<HeapBytes,HeapBytes>::to_string differs from the prescribed encoding", {"got": s, "want": want}); } }
                Ok(Err(e)) => fail!("PwHash<HeapBytes,HeapBytes>::hash_with_salt failed", format!("{:?}", e)),
                Err(p) => fail!("PwHash<HeapBytes,HeapBytes>::hash_with_salt panicked", p),
            }
        }
        if vi % 97 == 0 { rep.sample(json!({"object": o, "string": want})); }
    }
    // needs-rehash truth table of the specification, on dryoc and on libsodium
    for r in table["rehash"].as_array().unwrap() {
        let (t, m, ops, mem, needs) = (r["t"].as_u64().unwrap(), r["m"].as_u64().unwrap() as usize, r["ops"].as_u64().unwrap(), r["mem"].as_u64().unwrap() as usize, r["needs"].as_bool().unwrap());
        if t < 1 || m < 8 { continue; }
        let pw = rng.bytes(9);
        let s = match so_str(&pw, t, m * 1024, 2) { Some(s) => s, None => continue };
        rep.evaluations += 1;
        match cp::crypto_pwhash_str_needs_rehash(&s, ops, mem * 1024) {
            Ok(b) => { if b != needs { rep.fail("needs_rehash differs from the specification's table", json!({"row": r, "got": b, "string": s})); } }
            Err(e) => rep.fail("needs_rehash failed on a libsodium string", json!({"row": r, "err": format!("{:?}", e)})),
        }
        let sn = so_needs(&s, ops, mem * 1024);
        if (sn != 0) != needs { rep.fail("libsodium's needs_rehash differs from the specification's table (spec error)", json!({"row": r, "sodium": sn})); }
    }
    // salts and hashes whose base64 text happens to begin like another field ("argon2...", "v", "m", "t", "p"): a valid string
    // is recognised by the POSITION of its fields (libsodium), not by what their text looks like
    let looks: Vec<String> = table.get("lookalike_salts").and_then(|x| x.as_array()).map(|a| a.iter().filter_map(|x| x.as_str().map(|s| s.to_string())).collect()).unwrap_or_default();
    if looks.is_empty() { rep.fail("HARNESS: PwStr.tla exported no look-alike salts", json!({})); }
    for (si, stext) in looks.iter().enumerate() {
        let salt = crate::rng::b64dec(stext);
        if salt.len() != 16 { rep.fail("HARNESS: look-alike salt does not decode to 16 bytes", json!(stext)); continue; }
        let pw = rng.bytes(7 + si);
        for alg in [2i32, 1] {
            let (t, m) = (if alg == 1 { 3u64 } else { 1 }, 8192usize);
            let mut h = [0u8; 32];
            let rc = unsafe { libsodium_sys::crypto_pwhash(h.as_mut_ptr(), 32, pw.as_ptr() as *const _, pw.len() as u64, salt.as_ptr(), t, m, alg) };
            if rc != 0 { rep.fail("HARNESS: libsodium crypto_pwhash failed", json!(stext)); continue; }
            let st = format!("${}$v=19$m={},t={},p=1${}${}", if alg == 1 { "argon2i" } else { "argon2id" }, m / 1024, t, b64(&salt), b64(&h));
            rep.evaluations += 3;
            rep.case(&st);
            if !so_verify(&st, &pw) { rep.fail("libsodium rejects a string with a look-alike salt (harness error)", json!({"string": st})); continue; }
            match catch(|| cp::crypto_pwhash_str_verify(&st, &pw)) {
                Ok(Ok(())) => {}
                Ok(Err(e)) => rep.fail("crypto_pwhash_str_verify rejects a valid string whose salt text begins like another field", json!({"string": st, "err": format!("{:?}", e)})),
                Err(pn) => rep.fail("crypto_pwhash_str_verify panicked", json!({"string": st, "panic": pn})),
            }
            match catch(|| PwHash::<Vec<u8>, Vec<u8>>::from_string(&st)) {
                Ok(Ok(p)) => { if p.to_string() != st { rep.fail("from_string then to_string does not return the same string", json!({"string": st, "reencoded": p.to_string(), "producer": "look-alike salt"})); }
                               if p.verify(&pw).is_err() { rep.fail("parsed PwHash rejects the right password", json!({"string": st})); } }
                Ok(Err(e)) => rep.fail("PwHash::from_string rejects a valid string whose salt text begins like another field", json!({"string": st, "err": format!("{:?}", e)})),
                Err(pn) => rep.fail("PwHash::from_string panicked", json!({"string": st, "panic": pn})),
            }
        }
    }
    // cost fields over their whole domain (PwStr.tla CostRows / CostStrings): no hashing, strings with a stand-in salt and hash
    let fake = |m: &str, t: &str| format!("$argon2id$v=19$m={},t={},p=1${}${}", m, t, b64(&[7u8; 16]), b64(&[9u8; 32]));
    if let Some(rows) = table.get("costrows").and_then(|x| x.as_array()) {
        for r in rows {
            let (m, t, ops, k) = (r["m"].as_str().unwrap(), r["t"].as_str().unwrap(), r["ops"].as_str().unwrap(), r["memKiB"].as_str().unwrap());
            let (rem, needs) = (r["rem"].as_u64().unwrap() as usize, r["needs"].as_bool().unwrap());
            let st = fake(m, t);
            let opsn: u64 = ops.parse().unwrap();
            let memb: usize = k.parse::<usize>().unwrap() * 1024 + rem;
            rep.evaluations += 1;
            rep.case(&format!("costrow|{}|{}|{}|{}|{}", m, t, ops, k, rem));
            let wide = r["wide"].as_bool().unwrap_or(false);
            let sn = so_needs(&st, opsn, memb);
            // a request beyond 32 bits: libsodium answers with an error, the table with "needs a rehash" - never with "no"
            if wide { if sn == 0 || !needs { rep.fail("a request beyond 32 bits matches a stored cost in libsodium or in the cost table (specification error)", json!({"row": r, "sodium": sn})); continue; } }
            else if sn < 0 || (sn != 0) != needs { rep.fail("libsodium's needs_rehash differs from the specification's cost table (specification error)", json!({"row": r, "sodium": sn})); continue; }
            match catch(|| cp::crypto_pwhash_str_needs_rehash(&st, opsn, memb)) {
                Ok(Ok(b)) => if b != needs { rep.fail("needs_rehash differs from the specification's cost table", json!({"row": r, "got": b, "string": st, "memlimit_bytes": memb})); },
                Ok(Err(_)) if wide => {}
                Ok(Err(e)) => rep.fail("needs_rehash failed on a valid string", json!({"row": r, "err": format!("{:?}", e)})),
                Err(pn) => rep.fail("needs_rehash panicked", json!({"row": r, "panic": pn})),
            }
        }
    }
    if let Some(rows) = table.get("coststrings").and_then(|x| x.as_array()) {
        for r in rows {
            let st = fake(r["m"].as_str().unwrap(), r["t"].as_str().unwrap());
            rep.evaluations += 1;
            match catch(|| PwHash::<Vec<u8>, Vec<u8>>::from_string(&st).map(|p| p.to_string())) {
                Ok(Ok(again)) => if again != st { rep.fail("from_string then to_string does not return the same string", json!({"string": st, "reencoded": again, "producer": "cost domain"})); },
                Ok(Err(e)) => rep.fail("PwHash::from_string rejects a valid string", json!({"string": st, "err": format!("{:?}", e)})),
                Err(pn) => rep.fail("PwHash::from_string panicked", json!({"string": st, "panic": pn})),
            }
        }
    }
    // strings produced by libsodium (both algorithms) verify under dryoc; strings produced by dryoc verify under libsodium
    for i in 0..40u64 {
        let pwl = rng.below(30) as usize;
        let pw = rng.bytes(pwl);
        let mut wrong = pw.clone(); wrong.push(7);
        let (t, m) = (3 + i % 2, [8usize, 19, 64, 256][(i % 4) as usize]);
        for alg in [1, 2] {
            rep.evaluations += 1;
            if let Some(s) = so_str(&pw, t, m * 1024, alg) {
                if cp::crypto_pwhash_str_verify(&s, &pw).is_err() { rep.fail("crypto_pwhash_str_verify rejects a libsodium string", json!({"string": s, "alg": alg})); }
                if cp::crypto_pwhash_str_verify(&s, &wrong).is_ok() { rep.fail("crypto_pwhash_str_verify accepts a wrong password for a libsodium string", json!({"string": s})); }
                match PwHash::<Vec<u8>, Vec<u8>>::from_string(&s) {
                    Ok(p) => {
                        if p.verify(&pw).is_err() { rep.fail("PwHash::from_string(libsodium string).verify rejects the right password", json!({"string": s, "alg": alg})); }
                        if p.to_string() != s { rep.fail("from_string then to_string does not return the same string", json!({"string": s, "reencoded": p.to_string(), "producer": "libsodium"})); }
                    }
                    Err(e) => rep.fail("PwHash::from_string rejects a libsodium string", json!({"string": s, "err": format!("{:?}", e)})),
                }
            }
        }
        rep.evaluations += 1;
        match cp::crypto_pwhash_str(&pw, t, m * 1024) {
            Ok(s) => {
                if !so_verify(&s, &pw) { rep.fail("libsodium rejects a string produced by crypto_pwhash_str", json!({"string": s})); }
                if so_verify(&s, &wrong) { rep.fail("libsodium accepts a wrong password for a dryoc string", json!({"string": s})); }
            }
            Err(e) => rep.fail("crypto_pwhash_str failed", json!(format!("{:?}", e))),
        }
    }
    // the stock profiles of the object API carry libsodium's cost constants and produce strings libsodium accepts
    let level: u64 = args.get(3).and_then(|x| x.parse().ok()).unwrap_or(0);
    let profiles: [(&str, u64, usize, u64); 3] = [("interactive", 2, 64 << 20, 1), ("moderate", 3, 256 << 20, 1), ("sensitive", 4, 1024 << 20, 2)];
    for (name, ops, mem, need) in profiles {
        if level < need { continue; }
        let pw = rng.bytes(11);
        let mut wrong = pw.clone(); wrong[3] ^= 0x40;
        rep.evaluations += 1;
        rep.case(&format!("profile|{}", name));
        let r = catch(|| match name { "interactive" => PwHash::<Vec<u8>, Vec<u8>>::hash_interactive(&pw), "moderate" => PwHash::<Vec<u8>, Vec<u8>>::hash_moderate(&pw), _ => PwHash::<Vec<u8>, Vec<u8>>::hash_sensitive(&pw) });
        match r {
            Ok(Ok(p)) => {
                let st = p.to_string();
                let want_prefix = format!("$argon2id$v=19$m={},t={},p=1$", mem / 1024, ops);
                if !st.starts_with(&want_prefix) { rep.fail(&format!("PwHash::hash_{}: string does not carry libsodium's {} costs", name, name), json!({"string": st, "want_prefix": want_prefix})); }
                if !so_verify(&st, &pw) { rep.fail(&format!("PwHash::hash_{}: libsodium rejects the string", name), json!({"string": st})); }
                if so_verify(&st, &wrong) { rep.fail("libsodium accepts a wrong password (harness error)", json!({"string": st})); }
                if so_needs(&st, ops, mem) != 0 { rep.fail(&format!("PwHash::hash_{}: libsodium says the string needs a rehash at the {} limits", name, name), json!({"string": st})); }
                if p.verify(&pw).is_err() || p.verify(&wrong).is_ok() { rep.fail(&format!("PwHash::hash_{}: verify verdicts wrong", name), json!({"string": st})); }
                let (h, sa, _cfg) = p.into_parts();
                if h.len() != 32 || sa.len() != 16 { rep.fail(&format!("PwHash::hash_{}: hash/salt length differs from libsodium's string format", name), json!({"hash": h.len(), "salt": sa.len()})); }
            }
            Ok(Err(e)) => rep.fail(&format!("PwHash::hash_{} failed", name), json!(format!("{:?}", e))),
            Err(pn) => rep.fail(&format!("PwHash::hash_{} panicked", name), json!(pn)),
        }
    }
    rep.write(&args[1]);
}
