//! C03: secret stream replay (spec -> impl) and random trace driver (impl -> spec).
use crate::common::*;
use dryoc::classic::crypto_secretstream_xchacha20poly1305 as cs;
use dryoc::dryocstream::{DryocStream, Pull, Push, Tag};
use libsodium_sys as so;
use serde_json::{json, Value};
use std::io::{BufRead, Write};

pub type SoState = so::crypto_secretstream_xchacha20poly1305_state;
pub const ABYTES: usize = 17;

pub fn conc(base: &str) -> u32 {
    match base {
        "One" => 1,
        "Mid" => 0x7fff_fffe,
        "MaxM1" => 0xffff_fffe,
        "Max" => 0xffff_ffff,
        _ => panic!("unknown base {}", base),
    }
}

pub fn so_zero() -> SoState {
    SoState { k: [0; 32], nonce: [0; 12], _pad: [0; 8] }
}

/// (dryoc classic state, libsodium state) initialised from key/header with the counter preset.
pub fn init_pair(key: &[u8; 32], header: &[u8; 24], ctr: u32) -> (cs::State, SoState) {
    let mut st = cs::State::new();
    cs::crypto_secretstream_xchacha20poly1305_init_pull(&mut st, header, key);
    let (k, mut nonce) = st.verif_parts();
    nonce[..4].copy_from_slice(&ctr.to_le_bytes());
    let st = cs::State::verif_from_parts(&k, &nonce);
    let mut s = so_zero();
    unsafe {
        so::crypto_secretstream_xchacha20poly1305_init_pull(&mut s, header.as_ptr(), key.as_ptr());
    }
    s.nonce[..4].copy_from_slice(&ctr.to_le_bytes());
    (st, s)
}

pub fn parts_eq(d: &cs::State, s: &SoState) -> bool {
    let (k, n) = d.verif_parts();
    k == s.k && n == s.nonce
}

pub fn ctr_of(d: &cs::State) -> u32 {
    let (_, n) = d.verif_parts();
    u32::from_le_bytes([n[0], n[1], n[2], n[3]])
}

pub fn so_push(s: &mut SoState, m: &[u8], ad: Option<&[u8]>, tag: u8) -> Vec<u8> {
    let mut c = vec![0u8; m.len() + ABYTES];
    let mut clen: u64 = 0;
    let (adp, adl) = match ad {
        Some(a) => (a.as_ptr(), a.len() as u64),
        None => (std::ptr::null(), 0),
    };
    unsafe {
        so::crypto_secretstream_xchacha20poly1305_push(
            s, c.as_mut_ptr(), &mut clen as *mut u64 as *mut _, m.as_ptr(), m.len() as u64, adp, adl, tag,
        );
    }
    c.truncate(clen as usize);
    c
}

pub fn so_pull(s: &mut SoState, c: &[u8], ad: Option<&[u8]>) -> Result<(Vec<u8>, u8), ()> {
    let mut m = vec![0u8; c.len().saturating_sub(ABYTES)];
    let mut mlen: u64 = 0;
    let mut tag: u8 = 0xee;
    let (adp, adl) = match ad {
        Some(a) => (a.as_ptr(), a.len() as u64),
        None => (std::ptr::null(), 0),
    };
    let r = unsafe {
        so::crypto_secretstream_xchacha20poly1305_pull(
            s, m.as_mut_ptr(), &mut mlen as *mut u64 as *mut _, &mut tag, c.as_ptr(), c.len() as u64, adp, adl,
        )
    };
    if r == 0 {
        m.truncate(mlen as usize);
        Ok((m, tag))
    } else {
        Err(())
    }
}

const MLENS: &[usize] = &[127, 128, 129, 255, 256, 257, 1023, 4079, 4095, 4096, 4097, 4112];
fn pick_mlen(x: u64) -> usize {
    let n = 81 + MLENS.len() as u64;
    let i = x % n;
    if i <= 80 { i as usize } else { MLENS[(i - 81) as usize] }
}
/// AD classes: None, empty, and lengths around the MAC block sizes.
fn pick_ad(rng: &mut Rng, x: u64) -> Option<Vec<u8>> {
    const ADL: &[i64] = &[-1, 0, 1, 15, 16, 17, 31, 32, 33, 64, 300, 4096, 4097];
    let l = ADL[(x % ADL.len() as u64) as usize];
    if l < 0 { None } else { Some(rng.bytes(l as usize)) }
}

struct Sent {
    c: Vec<u8>,
    cf: Vec<u8>, // same position, foreign key
    ch: Vec<u8>, // same position, foreign header
    m: Vec<u8>,
    ad: Option<Vec<u8>>,
    tag: u8,
}

/// Replays one behaviour (a JSON array of log entries). Returns Err(description) at the first divergence.
pub fn replay_case(case: &Value, idx: u64, seed: u64, rep: &mut Report) -> Result<(), Value> {
    let steps = case.as_array().ok_or(json!("case is not an array"))?;
    let mut rng = Rng::new(seed.wrapping_mul(0x1000193).wrapping_add(idx));
    let key: [u8; 32] = rng.arr();
    let fkey: [u8; 32] = rng.arr();
    let header: [u8; 24] = rng.arr();
    let fheader: [u8; 24] = rng.arr();
    let base = steps[0]["base"].as_str().ok_or(json!("no base"))?;
    let c0 = conc(base);
    let (mut dpush, mut spush) = init_pair(&key, &header, c0);
    let (mut dpull, mut spull) = init_pair(&key, &header, c0);
    let (mut fpush, _) = init_pair(&fkey, &header, c0);
    let (mut hpush, _) = init_pair(&key, &fheader, c0);
    let mut opush: DryocStream<Push> = DryocStream::verif_from_state(dpush.clone());
    let mut opull: DryocStream<Pull> = DryocStream::verif_from_state(dpull.clone());
    let mut sent: Vec<Sent> = vec![];
    let mut push_nrk = 0u64;
    let mut pull_nrk = 0u64;

    macro_rules! bail {
        ($si:expr, $what:expr, $($extra:tt)*) => {
            return Err(json!({"case": idx, "step": $si, "what": $what, "info": json!($($extra)*)}))
        };
    }

    for (si, st) in steps.iter().enumerate().skip(1) {
        let act = st["act"].as_str().unwrap_or("");
        let exp = &st["st"];
        let exp_ctr = conc(exp["base"].as_str().unwrap_or("One")).wrapping_add(exp["off"].as_u64().unwrap_or(0) as u32);
        let exp_nrk = exp["nrk"].as_u64().unwrap_or(0);
        rep.evaluations += 1;
        match act {
            "push" => {
                let tag = st["tag"].as_u64().unwrap() as u8;
                let x = rng.next();
                let mlen = pick_mlen(x);
                let m = rng.bytes(mlen);
                let ad = pick_ad(&mut rng, x >> 20);
                let kb = dpush.verif_parts().0;
                let mut c = vec![0xD2u8; mlen + ABYTES];
                let r = catch(|| cs::crypto_secretstream_xchacha20poly1305_push(&mut dpush, &mut c, &m, ad.as_deref(), tag));
                match r {
                    Ok(Ok(())) => {}
                    Ok(Err(e)) => bail!(si, "classic push returned Err", format!("{:?}", e)),
                    Err(p) => bail!(si, "classic push panicked", p),
                }
                let sc = so_push(&mut spush, &m, ad.as_deref(), tag);
                if sc != c {
                    bail!(si, "ciphertext differs from libsodium", {"mlen": mlen, "adlen": ad.as_ref().map(|a| a.len()), "tag": tag, "dryoc": hex(&c), "sodium": hex(&sc)});
                }
                if !parts_eq(&dpush, &spush) {
                    bail!(si, "push state differs from libsodium", {"mlen": mlen, "tag": tag, "ctr": ctr_of(&dpush)});
                }
                if tag <= 3 {
                    let r = catch(|| opush.push::<Vec<u8>, Vec<u8>>(&m, ad.as_ref(), Tag::from_bits(tag).unwrap()));
                    match r {
                        Ok(Ok(oc)) => {
                            if oc != c { bail!(si, "DryocStream::push ciphertext differs", {"mlen": mlen}); }
                        }
                        Ok(Err(e)) => bail!(si, "DryocStream::push returned Err", format!("{:?}", e)),
                        Err(p) => bail!(si, "DryocStream::push panicked", p),
                    }
                    if opush.verif_state() != &dpush { bail!(si, "DryocStream push state differs from classic", {}); }
                } else {
                    opush = DryocStream::verif_from_state(dpush.clone());
                }
                if ctr_of(&dpush) != exp_ctr {
                    bail!(si, "push counter differs from model", {"got": ctr_of(&dpush), "model": exp_ctr});
                }
                let rekeyed = dpush.verif_parts().0 != kb;
                if rekeyed != (exp_nrk > push_nrk) {
                    bail!(si, "push rekey differs from model", {"rekeyed": rekeyed, "model_nrk": exp_nrk, "prev": push_nrk});
                }
                push_nrk = exp_nrk;
                // the same position on a stream with another key / another header
                let mut cf = vec![0u8; mlen + ABYTES];
                cs::crypto_secretstream_xchacha20poly1305_push(&mut fpush, &mut cf, &m, ad.as_deref(), tag).ok();
                let mut ch = vec![0u8; mlen + ABYTES];
                cs::crypto_secretstream_xchacha20poly1305_push(&mut hpush, &mut ch, &m, ad.as_deref(), tag).ok();
                sent.push(Sent { c, cf, ch, m, ad, tag });
            }
            "rekey_push" => {
                cs::crypto_secretstream_xchacha20poly1305_rekey(&mut dpush);
                unsafe { so::crypto_secretstream_xchacha20poly1305_rekey(&mut spush) };
                opush.rekey();
                cs::crypto_secretstream_xchacha20poly1305_rekey(&mut fpush);
                cs::crypto_secretstream_xchacha20poly1305_rekey(&mut hpush);
                if !parts_eq(&dpush, &spush) { bail!(si, "state after rekey differs from libsodium", {}); }
                if opush.verif_state() != &dpush { bail!(si, "DryocStream rekey state differs from classic", {}); }
                if ctr_of(&dpush) != exp_ctr { bail!(si, "counter after rekey differs from model", {"got": ctr_of(&dpush), "model": exp_ctr}); }
                push_nrk = exp_nrk;
            }
            "rekey_pull" => {
                cs::crypto_secretstream_xchacha20poly1305_rekey(&mut dpull);
                unsafe { so::crypto_secretstream_xchacha20poly1305_rekey(&mut spull) };
                opull.rekey();
                if !parts_eq(&dpull, &spull) { bail!(si, "pull state after rekey differs from libsodium", {}); }
                if opull.verif_state() != &dpull { bail!(si, "DryocStream rekey state differs from classic", {}); }
                if ctr_of(&dpull) != exp_ctr { bail!(si, "pull counter after rekey differs from model", {"got": ctr_of(&dpull), "model": exp_ctr}); }
                pull_nrk = exp_nrk;
            }
            "pull" => {
                let i = st["i"].as_u64().unwrap() as usize - 1;
                let mutk = st["mut"].as_str().unwrap();
                let exp_ok = st["res"].as_str().unwrap() == "Ok";
                let s = &sent[i];
                // the presented values for this model step
                let mut presented: Vec<(Vec<u8>, Option<Vec<u8>>, String)> = vec![];
                match mutk {
                    "none" => presented.push((s.c.clone(), s.ad.clone(), "as pushed".into())),
                    "ad" => {
                        let alt = match &s.ad {
                            None => vec![Some(vec![0u8]), Some(rng.bytes(16))],
                            Some(a) if a.is_empty() => vec![Some(vec![0u8]), Some(rng.bytes(17))],
                            Some(a) => {
                                let mut f = a.clone();
                                let bit = rng.below(8 * f.len() as u64) as usize;
                                f[bit / 8] ^= 1 << (bit % 8);
                                let mut sh = a.clone();
                                sh.pop();
                                let mut lg = a.clone();
                                lg.push(0);
                                vec![Some(f), Some(sh), Some(lg), None]
                            }
                        };
                        for a in alt {
                            // `None` and `Some(empty)` authenticate identically; skip the non-difference
                            if a.as_deref().unwrap_or(&[]) == s.ad.as_deref().unwrap_or(&[]) { continue; }
                            presented.push((s.c.clone(), a, "other AD".into()));
                        }
                    }
                    "flip" => {
                        let mut pos = vec![0usize, s.c.len() - 16, s.c.len() - 1];
                        if s.m.len() > 0 { pos.push(1 + rng.below(s.m.len() as u64) as usize); }
                        for p in pos {
                            let mut c = s.c.clone();
                            c[p] ^= 1 << rng.below(8);
                            presented.push((c, s.ad.clone(), format!("bit flipped in byte {}", p)));
                        }
                    }
                    "foreign" => {
                        presented.push((s.cf.clone(), s.ad.clone(), "stream with another key".into()));
                        presented.push((s.ch.clone(), s.ad.clone(), "stream with another header".into()));
                    }
                    // the genuine ciphertext in order, but the receiver's message buffer is one byte shorter than the message: not
                    // accepted (Stream.tla: every presentation other than "none" is an Err that changes nothing)
                    "shortbuf" => { if !s.m.is_empty() { presented.push((s.c.clone(), s.ad.clone(), "message buffer one byte short".into())); } }
                    other => bail!(si, "unknown mutation in case file", other),
                }
                for (c, ad, how) in presented {
                    let short = mutk == "shortbuf";
                    rep.count(&format!("pull:{}:{}", mutk, if exp_ok { "ok" } else { "err" }));
                    let before = dpull.clone();
                    let kb = before.verif_parts().0;
                    let mut m = vec![0u8; c.len() - ABYTES - (short as usize)];
                    let mut tag = 0xeeu8;
                    let r = catch(|| cs::crypto_secretstream_xchacha20poly1305_pull(&mut dpull, &mut m, &mut tag, &c, ad.as_deref()));
                    // libsodium's C interface has no buffer length to get wrong: it is not consulted for this presentation
                    let sr = if short { Err(()) } else { so_pull(&mut spull, &c, ad.as_deref()) };
                    if short && (tag != 0xee || m.iter().any(|b| *b != 0)) { bail!(si, "pull into a short buffer wrote the tag or the buffer", {"tag": tag}); }
                    let got_ok = match &r {
                        Ok(Ok(_)) => true,
                        Ok(Err(_)) => false,
                        Err(p) => bail!(si, "classic pull panicked", {"how": how, "panic": p}),
                    };
                    if got_ok != exp_ok {
                        bail!(si, "classic pull verdict differs from model", {"how": how, "got_ok": got_ok, "model_ok": exp_ok, "i": i + 1});
                    }
                    if sr.is_ok() != exp_ok {
                        bail!(si, "libsodium pull verdict differs from model (spec or harness error)", {"how": how});
                    }
                    if !parts_eq(&dpull, &spull) {
                        bail!(si, "pull state differs from libsodium", {"how": how, "ok": got_ok});
                    }
                    // object API
                    let obefore = opull.verif_state().clone();
                    // (the object API sizes its own output: the short-buffer presentation does not exist there)
                    let orr = if !short {
                        Some(catch(|| opull.pull::<Vec<u8>, Vec<u8>>(&c, ad.as_ref())))
                    } else {
                        None
                    };
                    if exp_ok {
                        if m != s.m || tag != s.tag {
                            bail!(si, "pulled message or tag differs from what was pushed", {"tag": tag, "pushed_tag": s.tag});
                        }
                        let (sm, stag) = sr.unwrap();
                        if sm != s.m || stag != s.tag { bail!(si, "libsodium pulled something else (harness error)", {}); }
                        if let Some(orr) = orr {
                            match orr {
                                Ok(Ok((om, otag))) => {
                                    if om != s.m || otag.bits() != s.tag { bail!(si, "DryocStream::pull message or tag differs", {}); }
                                }
                                Ok(Err(e)) => bail!(si, "DryocStream::pull rejected the genuine ciphertext", format!("{:?}", e)),
                                Err(p) => bail!(si, "DryocStream::pull panicked", p),
                            }
                        }
                        let rekeyed = dpull.verif_parts().0 != kb;
                        if rekeyed != (exp_nrk > pull_nrk) {
                            bail!(si, "pull rekey differs from model", {"rekeyed": rekeyed});
                        }
                        pull_nrk = exp_nrk;
                    } else {
                        if dpull != before {
                            bail!(si, "rejected pull changed the classic pull state", {"how": how});
                        }
                        match orr {
                            Some(Ok(Err(_))) => {}
                            Some(Ok(Ok(_))) => bail!(si, "DryocStream::pull accepted a ciphertext out of position", {"how": how}),
                            Some(Err(p)) => bail!(si, "DryocStream::pull panicked on a rejected ciphertext", {"how": how, "panic": p}),
                            None => {}
                        }
                        if opull.verif_state() != &obefore {
                            bail!(si, "rejected pull changed the DryocStream state", {"how": how});
                        }
                    }
                    if opull.verif_state() != &dpull { bail!(si, "DryocStream pull state differs from classic", {"how": how}); }
                    if ctr_of(&dpull) != exp_ctr {
                        bail!(si, "pull counter differs from model", {"got": ctr_of(&dpull), "model": exp_ctr, "how": how});
                    }
                }
            }
            other => bail!(si, "unknown action in case file", other),
        }
    }
    Ok(())
}

/// `stream-replay <cases.ndjson> <out.json> <seed>`: each line is one behaviour.
pub fn cmd_replay(args: &[String]) {
    let seed: u64 = args.get(2).map(|s| s.parse().unwrap()).unwrap_or(1);
    let f = std::io::BufReader::new(std::fs::File::open(&args[0]).expect("cases"));
    let mut rep = Report::new();
    let mut ncases = 0u64;
    let first: usize = args.get(3).map(|s| s.parse().unwrap()).unwrap_or(0);
    for (idx, line) in f.lines().enumerate() {
        let idx = idx + first;
        let line = line.unwrap();
        if line.trim().is_empty() { continue; }
        let case: Value = serde_json::from_str(&line).expect("case json");
        ncases += 1;
        if idx % 20000 == 0 { rep.sample(case.clone()); }
        rep.case(&line);
        if let Err(d) = replay_case(&case, idx as u64, seed, &mut rep) {
            let what = d["what"].as_str().unwrap_or("?").to_string();
            rep.fail(&what, json!({"divergence": d, "case": case, "case_index": idx, "seed": seed}));
        }
    }
    rep.add("cases", ncases);
    // self-check of the init_push/init_pull relation used to preset counters
    let key = [7u8; 32];
    let mut st = cs::State::new();
    let mut hdr = [0u8; 24];
    cs::crypto_secretstream_xchacha20poly1305_init_push(&mut st, &mut hdr, &key);
    let mut st2 = cs::State::new();
    cs::crypto_secretstream_xchacha20poly1305_init_pull(&mut st2, &hdr, &key);
    if st != st2 {
        rep.fail("init_push state differs from init_pull on its header", json!({}));
    }
    rep.write(&args[1]);
}

// ---------------------------------------------------------------------------------------------
// Random driver producing a trace for validation against StreamTrace.tla.
// Events carry the ciphertext index, so validation is linear.

pub fn cmd_trace(args: &[String]) {
    let seed: u64 = args[0].parse().unwrap();
    let nruns: u64 = args[1].parse().unwrap();
    let nops: u64 = args[2].parse().unwrap();
    let mut out = std::io::BufWriter::new(std::fs::File::create(&args[3]).unwrap());
    let mut rng = Rng::new(seed);
    let bases = ["One", "Mid", "MaxM1", "Max"];
    for run in 0..nruns {
        let key: [u8; 32] = rng.arr();
        let header: [u8; 24] = rng.arr();
        let base = bases[rng.below(4) as usize];
        let (mut dpush, _) = init_pair(&key, &header, conc(base));
        let (mut dpull, _) = init_pair(&key, &header, conc(base));
        let use_obj = rng.below(2) == 0;
        writeln!(out, "{}", json!({"ev": "reset", "base": base, "run": run, "obj": use_obj})).unwrap();
        let mut wire: Vec<(Vec<u8>, Option<Vec<u8>>, u8, Vec<u8>)> = vec![];
        let mut next = 0usize;
        for _ in 0..nops {
            let ctr_pair = |st: &cs::State| { let c = ctr_of(st); json!([c >> 16, c & 0xffff]) };
            match rng.below(10) {
                0..=3 => {
                    // push with any tag byte (object API when the tag is representable)
                    let tag: u8 = if rng.below(3) == 0 { rng.below(256) as u8 } else { rng.below(4) as u8 };
                    let mlen = if rng.below(8) == 0 { rng.below(3000) as usize } else { rng.below(90) as usize };
                    let m = rng.bytes(mlen);
                    let ad = match rng.below(4) { 0 => None, 1 => Some(vec![]), _ => { let n = rng.below(300) as usize; Some(rng.bytes(n)) } };
                    let kb = dpush.verif_parts().0;
                    let c: Vec<u8> = if use_obj && tag <= 3 {
                        let mut o: DryocStream<Push> = DryocStream::verif_from_state(dpush.clone());
                        let c: Vec<u8> = o.push(&m, ad.as_ref(), Tag::from_bits(tag).unwrap()).unwrap();
                        dpush = o.verif_state().clone();
                        c
                    } else {
                        let mut c = vec![0xD2u8; mlen + ABYTES];
                        cs::crypto_secretstream_xchacha20poly1305_push(&mut dpush, &mut c, &m, ad.as_deref(), tag).unwrap();
                        c
                    };
                    let rek = dpush.verif_parts().0 != kb;
                    wire.push((c, ad, tag, m));
                    writeln!(out, "{}", json!({"ev": "push", "tag": tag, "rekeyed": rek, "ctr": ctr_pair(&dpush), "id": wire.len()})).unwrap();
                }
                4 => {
                    if rng.below(3) == 0 {
                        cs::crypto_secretstream_xchacha20poly1305_rekey(&mut dpush);
                        writeln!(out, "{}", json!({"ev": "rekey_push", "ctr": ctr_pair(&dpush)})).unwrap();
                    } else {
                        cs::crypto_secretstream_xchacha20poly1305_rekey(&mut dpull);
                        writeln!(out, "{}", json!({"ev": "rekey_pull", "ctr": ctr_pair(&dpull)})).unwrap();
                    }
                }
                _ => {
                    if wire.is_empty() { continue; }
                    // mostly the next in order; otherwise an arbitrary one, possibly mutated
                    let (i, mutk) = match rng.below(10) {
                        0..=5 => (std::cmp::min(next, wire.len() - 1), "none"),
                        6 => (rng.below(wire.len() as u64) as usize, "none"),
                        7 => (std::cmp::min(next, wire.len() - 1), "ad"),
                        8 => (std::cmp::min(next, wire.len() - 1), if rng.below(3) == 0 { "shortbuf" } else { "flip" }),
                        _ => (rng.below(wire.len() as u64) as usize, "flip"),
                    };
                    let mutk = if mutk == "shortbuf" && wire[i].3.is_empty() { "flip" } else { mutk };
                    let (c0, ad0, tag0, m0) = wire[i].clone();
                    let mut c = c0.clone();
                    let mut ad = ad0.clone();
                    match mutk {
                        "ad" => {
                            ad = match &ad0 {
                                Some(a) if !a.is_empty() => { let mut f = a.clone(); let b = rng.below(8 * f.len() as u64) as usize; f[b / 8] ^= 1 << (b % 8); Some(f) }
                                _ => Some(vec![1u8]),
                            };
                        }
                        "flip" => { let b = rng.below(8 * c.len() as u64) as usize; c[b / 8] ^= 1 << (b % 8); }
                        _ => {}
                    }
                    let before = dpull.clone();
                    let kb = before.verif_parts().0;
                    let (ok, tag_out, msg_ok) = if use_obj && mutk != "shortbuf" {
                        let mut o: DryocStream<Pull> = DryocStream::verif_from_state(dpull.clone());
                        let r: Result<(Vec<u8>, Tag), _> = o.pull(&c, ad.as_ref());
                        dpull = o.verif_state().clone();
                        match r { Ok((m, t)) => (true, t.bits() as i64, m == m0), Err(_) => (false, -1, true) }
                    } else {
                        let mut m = vec![0u8; c.len() - ABYTES - ((mutk == "shortbuf") as usize)];
                        let mut t = 0u8;
                        let r = cs::crypto_secretstream_xchacha20poly1305_pull(&mut dpull, &mut m, &mut t, &c, ad.as_deref());
                        match r { Ok(_) => (true, t as i64, m == m0), Err(_) => (false, -1, true) }
                    };
                    let same = dpull == before;
                    let rek = dpull.verif_parts().0 != kb;
                    if ok && i == next { next += 1; }
                    writeln!(out, "{}", json!({"ev": "pull", "i": i + 1, "mut": mutk, "res": if ok { "Ok" } else { "Err" }, "tag": tag_out,
                        "msgok": msg_ok, "same": same, "rekeyed": rek, "ctr": ctr_pair(&dpull)})).unwrap();
                }
            }
        }
    }
}

// ---------------------------------------------------------------------------------------------
// C02 / C17, stream part: one corruption per case, every position.

/// `stream-tamper <out.json> <seed> <Lmax> <first> <stride>`
pub fn cmd_tamper(args: &[String]) {
    let seed: u64 = args[1].parse().unwrap();
    let lmax: usize = args[2].parse().unwrap();
    let first: usize = args[3].parse().unwrap();
    let stride: usize = args[4].parse().unwrap();
    let mut rng = Rng::new(seed ^ 0xabcd);
    let mut rep = Report::new();
    let adls: [i64; 5] = [-1, 0, 1, 16, 33];
    let mut idx = 0usize;
    // every length up to lmax, then message lengths around the 4 KiB / 8 KiB marks (of message and of ciphertext) with a
    // thinned fault family: chunked or single-pass code paths start there
    let big: [usize; 12] = [4078, 4079, 4080, 4095, 4096, 4097, 4111, 4112, 8175, 8192, 8193, 65537];
    for mlen in (0..=lmax).chain(big.iter().copied()) {
        let thin = mlen > lmax;
        for &adl in adls.iter() {
            if thin && adl != -1 && adl != 16 { continue; }
            let key: [u8; 32] = rng.arr();
            let header: [u8; 24] = rng.arr();
            let m = rng.bytes(mlen);
            let ad: Option<Vec<u8>> = if adl < 0 { None } else { Some(rng.bytes(adl as usize)) };
            let tag = (rng.below(4)) as u8;
            let nprev = rng.below(3);
            idx += 1;
            if idx % stride != first { continue; }
            rep.case(&format!("stream|{}|{}", mlen, adl));
            // a state object that has been used for another stream and is initialised again is the state of a fresh one:
            // nothing of the old key, nonce or counter survives (else a header that differs from the genuine one by the
            // residue would be accepted, and the genuine one rejected)
            {
                let mut used = cs::State::new();
                let (k0, h0): ([u8; 32], [u8; 24]) = (rng.arr(), rng.arr());
                cs::crypto_secretstream_xchacha20poly1305_init_pull(&mut used, &h0, &k0);
                let mut junk = vec![0u8; 3]; let mut jt = 0u8;
                let _ = cs::crypto_secretstream_xchacha20poly1305_pull(&mut used, &mut junk, &mut jt, &rng.bytes(20), None);
                if mlen % 2 == 0 { cs::crypto_secretstream_xchacha20poly1305_rekey(&mut used); }
                let mut again = used.clone();
                cs::crypto_secretstream_xchacha20poly1305_init_pull(&mut again, &header, &key);
                let mut fresh = cs::State::new();
                cs::crypto_secretstream_xchacha20poly1305_init_pull(&mut fresh, &header, &key);
                rep.evaluations += 2;
                if again != fresh { rep.fail("C02 classic stream: init_pull on a used state differs from init_pull on a fresh state", json!({"mlen": mlen})); }
                let mut again2 = used.clone();
                let mut hp = [0u8; 24];
                cs::crypto_secretstream_xchacha20poly1305_init_push(&mut again2, &mut hp, &key);
                let mut fresh2 = cs::State::new();
                cs::crypto_secretstream_xchacha20poly1305_init_pull(&mut fresh2, &hp, &key);
                if again2 != fresh2 { rep.fail("C02 classic stream: init_push on a used state differs from a fresh state with the same header", json!({"mlen": mlen})); }
            }
            // libsodium produces the authentic ciphertext, after `nprev` earlier messages
            let (_, mut spush) = init_pair(&key, &header, 1);
            let mut prevs = vec![];
            // the earlier messages carry every kind of tag byte (plain, PUSH, REKEY, FINAL, REKEY with unnamed bits, 0xff): what
            // an accepted message does to the receiver's state decides whether the next untampered one is accepted
            for _ in 0..nprev { let pt = [0u8, 1, 2, 3, 0x82, 0x42, 0x06, 0xff][rng.below(8) as usize]; prevs.push(so_push(&mut spush, b"earlier", None, pt)); }
            let c = so_push(&mut spush, &m, ad.as_deref(), tag);
            let fresh_pull = |k: &[u8; 32], h: &[u8; 24]| -> cs::State {
                let (mut d, _) = init_pair(k, h, 1);
                for p in prevs.iter() {
                    let mut mm = vec![0u8; p.len() - ABYTES];
                    let mut t = 0u8;
                    let _ = cs::crypto_secretstream_xchacha20poly1305_pull(&mut d, &mut mm, &mut t, p, None);
                }
                d
            };
            // (key, header, ciphertext, ad, description)
            let mut fam: Vec<([u8; 32], [u8; 24], Vec<u8>, Option<Vec<u8>>, String, &str)> = vec![];
            fam.push((key, header, c.clone(), ad.clone(), "untampered".into(), "none"));
            for byte in 0..c.len() { for bit in 0..8 {
                if thin && !((byte < 2 || byte + 17 == c.len() || byte + 16 == c.len() || byte + 1 == c.len() || byte == c.len() / 2) && bit == byte % 8) { continue; }
                let mut x = c.clone(); x[byte] ^= 1 << bit;
                let comp = if byte == 0 { "tag byte" } else if byte < 1 + mlen { "body" } else { "mac" };
                fam.push((key, header, x, ad.clone(), format!("{} byte {} bit {}", comp, byte, bit), "flip ciphertext"));
            } }
            for byte in 0..24 { for bit in 0..8 { if thin && !(byte % 11 == 0 && bit == 3) { continue; } let mut h = header; h[byte] ^= 1 << bit; fam.push((key, h, c.clone(), ad.clone(), format!("header byte {} bit {}", byte, bit), "flip header")); } }
            for byte in 0..32 { for bit in 0..8 { if thin && !(byte % 13 == 0 && bit == 5) { continue; } let mut k = key; k[byte] ^= 1 << bit; fam.push((k, header, c.clone(), ad.clone(), format!("key byte {} bit {}", byte, bit), "flip key")); } }
            if let Some(a) = &ad { for byte in 0..a.len() { for bit in 0..8 { let mut x = a.clone(); x[byte] ^= 1 << bit; fam.push((key, header, c.clone(), Some(x), format!("AD byte {} bit {}", byte, bit), "flip AD")); } } }
            for n in 1..=c.len() { if thin && ![1usize, 16, 17, c.len() / 2, c.len() - 17, c.len()].contains(&n) { continue; } fam.push((key, header, c[..c.len() - n].to_vec(), ad.clone(), format!("truncated by {} (to {} bytes)", n, c.len() - n), "truncate")); }
            for n in 1..=40usize { if thin && n != 1 && n != 16 { continue; } let mut x = c.clone(); x.extend(rng.bytes(n)); fam.push((key, header, x, ad.clone(), format!("extended by {}", n), "extend")); }
            for (fi_, (k, h, x, a, how, kind)) in fam.iter().enumerate() {
                // classic pull
                rep.evaluations += 1;
                // now and then the genuine stream is opened (and its message pulled) first: whatever an implementation remembers
                // from that - a subkey, a header - must not make the tampered presentation that follows acceptable
                if *kind != "none" && fi_ % 3 == 1 {
                    let mut g = fresh_pull(&key, &header);
                    let mut gm = vec![0u8; c.len() - ABYTES]; let mut gt = 0u8;
                    let _ = catch(|| cs::crypto_secretstream_xchacha20poly1305_pull(&mut g, &mut gm, &mut gt, &c, ad.as_deref()));
                }
                let mut d = fresh_pull(k, h);
                let before = d.clone();
                let canary: Vec<u8> = (0..x.len().saturating_sub(ABYTES)).map(|i| 0xC5u8 ^ (i as u8)).collect();
                let mut out = canary.clone();
                let mut t = 0xEEu8;
                let r = catch(|| cs::crypto_secretstream_xchacha20poly1305_pull(&mut d, &mut out, &mut t, x, a.as_deref()));
                match r {
                    Err(p) => rep.fail("C02 classic stream pull: panicked", json!({"mlen": mlen, "how": how, "panic": p, "seed": seed})),
                    Ok(res) => {
                        if *kind == "none" {
                            if res.is_err() || out != m || t != tag { rep.fail("C02 classic stream pull: untampered input rejected", json!({"mlen": mlen, "seed": seed})); }
                        } else {
                            if res.is_ok() { rep.fail(&format!("C02 classic stream pull: accepts a ciphertext with {}", kind), json!({"mlen": mlen, "how": how, "seed": seed})); }
                            else {
                                if t != 0xEE { rep.fail("C17 classic stream pull: tag output updated by a rejected pull", json!({"mlen": mlen, "how": how, "kind": kind, "tag_now": t, "seed": seed})); }
                                if out != canary && !out.iter().all(|b| *b == 0) { rep.fail("C17 classic stream pull: message buffer modified by a rejected pull", json!({"mlen": mlen, "how": how, "kind": kind, "seed": seed})); }
                                if d != before { rep.fail("C02 classic stream pull: rejected pull changed the state", json!({"mlen": mlen, "how": how})); }
                            }
                        }
                    }
                }
                // classic pull into a buffer larger than the message (the classic contract allows it): nothing of a rejected
                // frame may appear anywhere in it
                if *kind != "none" && x.len() >= ABYTES {
                    rep.evaluations += 1;
                    let mut d2 = fresh_pull(k, h);
                    let big: Vec<u8> = (0..(x.len() - ABYTES + 9)).map(|i| 0x3Cu8 ^ (i as u8).wrapping_mul(7)).collect();
                    let mut out2 = big.clone();
                    let mut t2 = 0xEEu8;
                    match catch(|| cs::crypto_secretstream_xchacha20poly1305_pull(&mut d2, &mut out2, &mut t2, x, a.as_deref())) {
                        Ok(Err(_)) => {
                            if t2 != 0xEE { rep.fail("C17 classic stream pull: tag output updated by a rejected pull", json!({"mlen": mlen, "how": how, "kind": kind, "buffer": "oversized"})); }
                            if out2 != big && !out2.iter().all(|b| *b == 0) { rep.fail("C17 classic stream pull: message buffer modified by a rejected pull (buffer larger than the message)", json!({"mlen": mlen, "how": how, "kind": kind, "seed": seed})); }
                        }
                        Ok(Ok(_)) => rep.fail(&format!("C02 classic stream pull: accepts a ciphertext with {}", kind), json!({"mlen": mlen, "how": how, "buffer": "oversized"})),
                        Err(_) => {}   // refusing the buffer shape by panic is the caller-side contract, as for the box opens
                    }
                }
                // classic pull into a buffer SHORTER than the message (a receiver with a fixed buffer): refused - for genuine and
                // for rejected frames alike - with the tag output, the buffer and the state as they were
                if x.len() > ABYTES {
                    rep.evaluations += 1;
                    let mut d3 = fresh_pull(k, h);
                    let before3 = d3.clone();
                    let small: Vec<u8> = (0..(x.len() - ABYTES - 1)).map(|i| 0x5Au8 ^ (i as u8).wrapping_mul(11)).collect();
                    let mut out3 = small.clone();
                    let mut t3 = 0xEEu8;
                    match catch(|| cs::crypto_secretstream_xchacha20poly1305_pull(&mut d3, &mut out3, &mut t3, x, a.as_deref())) {
                        Ok(Err(_)) => {
                            if t3 != 0xEE { rep.fail("C17 classic stream pull: tag output updated by a rejected pull", json!({"mlen": mlen, "how": how, "kind": kind, "buffer": "shorter than the message", "tag_now": t3})); }
                            if out3 != small && !out3.iter().all(|b| *b == 0) { rep.fail("C17 classic stream pull: message buffer modified by a rejected pull (buffer shorter than the message)", json!({"mlen": mlen, "how": how, "kind": kind, "seed": seed})); }
                            if d3 != before3 { rep.fail("C02 classic stream pull: rejected pull changed the state", json!({"mlen": mlen, "how": how, "buffer": "shorter than the message"})); }
                        }
                        Ok(Ok(_)) => rep.fail("C02 classic stream pull: a message longer than the buffer is accepted", json!({"mlen": mlen, "how": how, "kind": kind})),
                        Err(p) => rep.fail("C02 classic stream pull: panicked", json!({"mlen": mlen, "how": how, "panic": p, "buffer": "shorter than the message"})),
                    }
                }
                // object API
                rep.evaluations += 1;
                let mut o: DryocStream<Pull> = DryocStream::verif_from_state(fresh_pull(k, h));
                let r = catch(|| o.pull_to_vec(x, a.as_ref()));
                match r {
                    Err(p) => rep.fail("C02 DryocStream::pull_to_vec: panicked", json!({"mlen": mlen, "how": how, "panic": p, "seed": seed})),
                    Ok(res) => {
                        if *kind == "none" {
                            match res { Ok((mm, tt)) if mm == m && tt.bits() == tag => {}, _ => rep.fail("C02 DryocStream::pull_to_vec: untampered input rejected", json!({"mlen": mlen, "seed": seed})) }
                        } else if res.is_ok() {
                            rep.fail(&format!("C02 DryocStream::pull_to_vec: accepts a ciphertext with {}", kind), json!({"mlen": mlen, "how": how, "seed": seed}));
                        } else if *k == key && *h == header {
                            // the untampered input is always accepted: also by the object that has just rejected a tampered one
                            rep.evaluations += 1;
                            match catch(|| o.pull_to_vec(&c, ad.as_ref())) {
                                Ok(Ok((mm, tt))) if mm == m && tt.bits() == tag => {}
                                _ => rep.fail("C02 DryocStream::pull_to_vec: untampered input rejected after a rejected pull on the same stream", json!({"mlen": mlen, "after": how, "seed": seed})),
                            }
                        }
                    }
                }
            }
            if mlen == 2 && adl == 1 { rep.sample(json!({"stream": true, "mlen": mlen, "adlen": adl, "presentations": fam.len()})); }
        }
    }
    rep.write(&args[0]);
}

// ---------------------------------------------------------------------------------------------
// C03, object API as a user holds it: the init_push / init_pull constructors (header chosen by dryoc),
// push / push_to_vec / pull / pull_to_vec / rekey over every container, against libsodium in both directions.
macro_rules! session_variant {
    ($fname:ident, $label:literal, $key:ty, $hdr:ty, $out:ty, $mk_key:expr, $mk_hdr:expr) => {
        fn $fname(rep: &mut Report, rng: &mut Rng, nsteps: usize) {
            use dryoc::types::{Bytes, ByteArray};
            let kb: [u8; 32] = rng.arr();
            let key: $key = $mk_key(&kb);
            // direction 1: dryoc pushes, libsodium and DryocStream pull
            let (mut push, header): (DryocStream<Push>, $hdr) = DryocStream::init_push(&key);
            let hb: [u8; 24] = *header.as_array();
            let mut spull = so_zero();
            unsafe { so::crypto_secretstream_xchacha20poly1305_init_pull(&mut spull, hb.as_ptr(), kb.as_ptr()) };
            let mut dpull: DryocStream<Pull> = DryocStream::init_pull(&key, &header);
            // direction 2: libsodium pushes, DryocStream pulls
            let mut spush = so_zero();
            let mut h2 = [0u8; 24];
            unsafe { so::crypto_secretstream_xchacha20poly1305_init_push(&mut spush, h2.as_mut_ptr(), kb.as_ptr()) };
            let hdr2: $hdr = $mk_hdr(&h2);
            let mut dpull2: DryocStream<Pull> = DryocStream::init_pull(&key, &hdr2);
            let lens = [0usize, 1, 15, 16, 17, 63, 64, 65, 127, 128, 129, 255, 256, 1023, 4096];
            for step in 0..nsteps {
                rep.evaluations += 1;
                let d = json!({"variant": $label, "step": step});
                if rng.below(6) == 0 {
                    push.rekey(); dpull.rekey(); dpull2.rekey();
                    unsafe { so::crypto_secretstream_xchacha20poly1305_rekey(&mut spull); so::crypto_secretstream_xchacha20poly1305_rekey(&mut spush); }
                    continue;
                }
                let mlen = if rng.below(3) == 0 { rng.below(200) as usize } else { lens[rng.below(lens.len() as u64) as usize] };
                let m = rng.bytes(mlen);
                let ad: Option<Vec<u8>> = match rng.below(4) { 0 => None, 1 => Some(vec![]), _ => { let n = lens[rng.below(12) as usize]; Some(rng.bytes(n)) } };
                let tag = rng.below(4) as u8;
                rep.case(&format!("session|{}|{}|{}|{}", $label, mlen, ad.as_ref().map(|a| a.len() as i64).unwrap_or(-1), tag));
                let t = Tag::from_bits(tag).unwrap();
                let c: Vec<u8> = if rng.below(2) == 0 {
                    match push.push_to_vec(&m, ad.as_ref(), t) { Ok(c) => c, Err(e) => { rep.fail("DryocStream::push_to_vec returned Err", json!({"d": d, "e": format!("{:?}", e)})); return; } }
                } else {
                    let r: Result<$out, _> = push.push(&m, ad.as_ref(), t);
                    match r { Ok(c) => c.as_slice().to_vec(), Err(e) => { rep.fail("DryocStream::push returned Err", json!({"d": d, "e": format!("{:?}", e)})); return; } }
                };
                match so_pull(&mut spull, &c, ad.as_deref()) {
                    Ok((mm, tt)) => if mm != m || tt != tag { rep.fail("session: libsodium pulls something else than DryocStream pushed", d.clone()); },
                    Err(()) => { rep.fail("session: libsodium rejects what DryocStream::init_push/push produced", d.clone()); return; }
                }
                let r: Result<($out, Tag), _> = dpull.pull(&c, ad.as_ref());
                match r {
                    Ok((mm, tt)) => if mm.as_slice() != &m[..] || tt.bits() != tag { rep.fail("session: DryocStream::pull returns something else than was pushed", d.clone()); },
                    Err(_) => { rep.fail("session: DryocStream::init_pull/pull rejects what DryocStream pushed", d.clone()); return; }
                }
                // the tag byte is the sender's choice: a libsodium sender may use any byte, bits without a name included; the
                // object API hands it over as it is and stays in step with the sender
                let tag2 = if rng.below(3) == 0 { [0x84u8, 0x06, 0xff, 0x42, 0x80, 0x07][rng.below(6) as usize] } else { tag };
                let c2 = so_push(&mut spush, &m, ad.as_deref(), tag2);
                match dpull2.pull_to_vec(&c2, ad.as_ref()) {
                    Ok((mm, tt)) => if mm != m || tt.bits() != tag2 { rep.fail("session: DryocStream::pull_to_vec returns something else than libsodium pushed", d.clone()); },
                    Err(_) => { rep.fail("session: DryocStream::init_pull/pull_to_vec rejects what libsodium pushed", d.clone()); return; }
                }
            }
        }
    };
}
type SK = dryoc::types::StackByteArray<32>;
type SH = dryoc::types::StackByteArray<24>;
session_variant!(session_stack, "StackByteArray key/header, Vec", SK, SH, Vec<u8>, |k: &[u8; 32]| SK::from(k), |h: &[u8; 24]| SH::from(h));
session_variant!(session_array, "[u8;N] key/header, Vec", [u8; 32], [u8; 24], Vec<u8>, |k: &[u8; 32]| *k, |h: &[u8; 24]| *h);
#[cfg(feature = "nightly")]
session_variant!(session_heap, "HeapByteArray key/header, HeapBytes", dryoc::protected::HeapByteArray<32>, dryoc::protected::HeapByteArray<24>, dryoc::protected::HeapBytes,
    |k: &[u8; 32]| dryoc::protected::HeapByteArray::<32>::try_from(&k[..]).unwrap(), |h: &[u8; 24]| dryoc::protected::HeapByteArray::<24>::try_from(&h[..]).unwrap());
#[cfg(feature = "nightly")]
session_variant!(session_locked, "Locked key/header, LockedBytes", dryoc::protected::Locked<dryoc::protected::HeapByteArray<32>>, dryoc::protected::Locked<dryoc::protected::HeapByteArray<24>>, dryoc::protected::LockedBytes,
    |k: &[u8; 32]| { use dryoc::protected::NewLockedFromSlice; dryoc::protected::HeapByteArray::<32>::from_slice_into_locked(k).unwrap() },
    |h: &[u8; 24]| { use dryoc::protected::NewLockedFromSlice; dryoc::protected::HeapByteArray::<24>::from_slice_into_locked(h).unwrap() });

/// `stream-session <out.json> <seed> <nsessions> <nsteps>`
pub fn cmd_session(args: &[String]) {
    let seed: u64 = args[1].parse().unwrap();
    let nsess: usize = args[2].parse().unwrap();
    let nsteps: usize = args[3].parse().unwrap();
    let mut rng = Rng::new(seed ^ 0x5e55);
    let mut rep = Report::new();
    for _ in 0..nsess {
        session_stack(&mut rep, &mut rng, nsteps);
        session_array(&mut rep, &mut rng, nsteps);
        #[cfg(feature = "nightly")]
        { session_heap(&mut rep, &mut rng, nsteps); session_locked(&mut rep, &mut rng, nsteps); }
    }
    rep.write(&args[0]);
}


/// `stream-vectors <vectors.json> <out.json>` (C03): crafted first messages of a stream (tools/polycraft.py: the Poly1305
/// accumulator reaches a rare value in the middle or at the end of the MAC) pushed and pulled by dryoc (classic and
/// object API) and by libsodium; the wire bytes must be the expected ones and every puller must return the message.
pub fn cmd_vectors(args: &[String]) {
    let vecs: Value = serde_json::from_str(&std::fs::read_to_string(&args[0]).unwrap()).unwrap();
    let mut rep = Report::new();
    let b = |v: &Value| -> Vec<u8> { v.as_array().unwrap().iter().map(|x| x.as_u64().unwrap() as u8).collect() };
    for v in vecs.as_array().unwrap() {
        let (key, header, msg, wire) = (b(&v["key"]), b(&v["header"]), b(&v["msg"]), b(&v["wire"]));
        let key: [u8; 32] = key.try_into().unwrap();
        let header: [u8; 24] = header.try_into().unwrap();
        let d = json!({"target": v["target"], "where": v["where"], "mlen": v["mlen"], "block": v["block"]});
        rep.case(&format!("{}|{}|{}|{}", v["target"], v["where"], v["mlen"], v["block"]));
        // libsodium agrees with the crafted expectation (else the vector itself is wrong)
        let (_, mut sp) = init_pair(&key, &header, 1);
        if so_push(&mut sp, &msg, None, 0) != wire { rep.fail("HARNESS: crafted stream vector differs from libsodium", d.clone()); continue; }
        rep.evaluations += 4;
        let (mut dp, _) = init_pair(&key, &header, 1);
        let mut c = vec![0xD2u8; msg.len() + ABYTES];
        match cs::crypto_secretstream_xchacha20poly1305_push(&mut dp, &mut c, &msg, None, 0) {
            Ok(_) => if c != wire { rep.fail("classic push: ciphertext differs from libsodium on a crafted Poly1305 corner", d.clone()); },
            Err(e) => rep.fail("classic push failed on a crafted Poly1305 corner", json!({"d": d, "err": format!("{:?}", e)})),
        }
        let (dq, _) = init_pair(&key, &header, 1);
        let mut op: DryocStream<Push> = DryocStream::verif_from_state(dq);
        match op.push_to_vec(&msg, None, Tag::MESSAGE) {
            Ok(c2) => if c2 != wire { rep.fail("DryocStream::push_to_vec: ciphertext differs from libsodium on a crafted Poly1305 corner", d.clone()); },
            Err(e) => rep.fail("DryocStream::push_to_vec failed on a crafted Poly1305 corner", json!({"d": d, "err": format!("{:?}", e)})),
        }
        let (mut dl, _) = init_pair(&key, &header, 1);
        let mut m = vec![0u8; msg.len()];
        let mut t = 0xeeu8;
        match cs::crypto_secretstream_xchacha20poly1305_pull(&mut dl, &mut m, &mut t, &wire, None) {
            Ok(_) => if m != msg || t != 0 { rep.fail("classic pull: wrong message for a stream message whose MAC passes a Poly1305 corner", d.clone()); },
            Err(_) => rep.fail("classic pull rejects a genuine stream message whose MAC passes a Poly1305 corner", d.clone()),
        }
        let mut ol: DryocStream<Pull> = DryocStream::init_pull(&dryoc::types::StackByteArray::from(&key), &dryoc::types::StackByteArray::from(&header));
        match ol.pull_to_vec(&wire, None) {
            Ok((mm, tt)) => if mm != msg || tt.bits() != 0 { rep.fail("DryocStream::pull_to_vec: wrong message for a stream message whose MAC passes a Poly1305 corner", d.clone()); },
            Err(_) => rep.fail("DryocStream::pull_to_vec rejects a genuine stream message whose MAC passes a Poly1305 corner", d.clone()),
        }
    }
    rep.write(&args[1]);
}
