//! C01 / C02 / C17: every encrypting and opening entry point of secretbox / box / afternm / sealed box,
//! classic and object API, dryoc and libsodium, driven by the case matrix printed by MCAead.tla.
use crate::common::*;
use dryoc::classic::crypto_box as cb;
use dryoc::classic::crypto_secretbox as csb;
use dryoc::dryocbox::DryocBox;
use dryoc::dryocsecretbox::DryocSecretBox;
use dryoc::keypair::KeyPair;
use dryoc::precalc::PrecalcSecretKey;
use dryoc::types::*;
use libsodium_sys as so;
use serde_json::{json, Value};
use std::io::BufRead;

pub const MAC: usize = 16;
pub const PKB: usize = 32;
pub const SEAL: usize = 48;

#[derive(Clone)]
pub struct Ops {
    pub key: [u8; 32],   // secretbox key
    pub nonce: [u8; 24],
    pub spk: [u8; 32],   // sender
    pub ssk: [u8; 32],
    pub rpk: [u8; 32],   // recipient
    pub rsk: [u8; 32],
    pub pre_s: [u8; 32], // beforenm(rpk, ssk) — sender side
    pub pre_r: [u8; 32], // beforenm(spk, rsk) — recipient side
    pub msg: Vec<u8>,
}

pub fn mk_ops(rng: &mut Rng, mlen: usize) -> Ops {
    // mostly random operands; now and then the extreme keys, nonces and messages (all-zero, all-0xff, a nonce whose
    // second half - the XSalsa20 stream nonce - is all-0xff)
    let pat = rng.below(12);
    let key: [u8; 32] = match pat { 0 => [0u8; 32], 1 => [0xffu8; 32], _ => rng.arr() };
    let nonce: [u8; 24] = match pat { 2 => [0u8; 24], 3 => [0xffu8; 24], 4 => { let mut n: [u8; 24] = rng.arr(); for b in n[16..].iter_mut() { *b = 0xff; } n }, _ => rng.arr() };
    let n1 = 1 + rng.below(40) as usize;
    let s1 = rng.bytes(n1);
    let s2 = rng.bytes(32);
    let (spk, ssk) = cb::crypto_box_seed_keypair(&s1);
    let (rpk, rsk) = cb::crypto_box_seed_keypair(&s2);
    let mut pre_s = [0u8; 32];
    let mut pre_r = [0u8; 32];
    unsafe {
        so::crypto_box_beforenm(pre_s.as_mut_ptr(), rpk.as_ptr(), ssk.as_ptr());
        so::crypto_box_beforenm(pre_r.as_mut_ptr(), spk.as_ptr(), rsk.as_ptr());
    }
    let msg = match pat { 5 => vec![0u8; mlen], 6 => vec![0xffu8; mlen], _ => rng.bytes(mlen) };
    Ops { key, nonce, spk, ssk, rpk, rsk, pre_s, pre_r, msg }
}

pub type EncFn = fn(&Ops) -> Result<Vec<u8>, String>;

/// What an opening entry point did, as the caller sees it.
pub struct Opened {
    pub ok: bool,
    pub msg: Vec<u8>,
    /// for classic functions writing into a caller buffer: Some(description) if after an Err the buffer holds
    /// anything but what it held before the call or zeros
    pub leak: Option<String>,
}
pub type OpenFn = fn(&Ops, &[u8]) -> Opened;

const CANARY: u8 = 0xC5;
fn canary(n: usize) -> Vec<u8> {
    (0..n).map(|i| CANARY ^ (i as u8).wrapping_mul(13)).collect()
}
fn judge(before: &[u8], after: &[u8]) -> Option<String> {
    if after == before || after.iter().all(|b| *b == 0) {
        None
    } else {
        let n = after.iter().zip(before.iter()).filter(|(a, b)| a != b).count();
        Some(format!("{} of {} bytes of the caller's buffer changed", n, after.len()))
    }
}
// the error VALUE of a rejected open is something the caller sees too (the object API returns nothing else): its text is kept
// here for the caller of the open function, which checks that it does not vary with the content of the rejected ciphertext
thread_local! { static LAST_ERR: std::cell::RefCell<Option<String>> = std::cell::RefCell::new(None); }
fn note_err(e: &dryoc::Error) { LAST_ERR.with(|l| *l.borrow_mut() = Some(format!("{:?} / {}", e, e))); }
fn take_err() -> Option<String> { LAST_ERR.with(|l| l.borrow_mut().take()) }
fn fin(r: Result<(), dryoc::Error>, buf: Vec<u8>, before: &[u8]) -> Opened {
    match r {
        Ok(()) => Opened { ok: true, msg: buf, leak: None },
        Err(e) => { note_err(&e); Opened { ok: false, msg: vec![], leak: judge(before, &buf) } }
    }
}
fn obj<T: Bytes>(r: Result<T, dryoc::Error>) -> Opened {
    match r {
        Ok(m) => Opened { ok: true, msg: m.as_slice().to_vec(), leak: None },
        Err(e) => { note_err(&e); Opened { ok: false, msg: vec![], leak: None } }
    }
}
fn es(e: dryoc::Error) -> String {
    format!("{:?}", e)
}
fn arr16(b: &[u8]) -> [u8; 16] {
    let mut a = [0u8; 16];
    a.copy_from_slice(&b[..16]);
    a
}
fn arr32(b: &[u8]) -> [u8; 32] {
    let mut a = [0u8; 32];
    a.copy_from_slice(&b[..32]);
    a
}

// ---------------------------------------------------------------------------- libsodium
fn so_sb_easy(o: &Ops) -> Result<Vec<u8>, String> {
    let mut c = vec![0u8; o.msg.len() + MAC];
    unsafe { so::crypto_secretbox_easy(c.as_mut_ptr(), o.msg.as_ptr(), o.msg.len() as u64, o.nonce.as_ptr(), o.key.as_ptr()) };
    Ok(c)
}
fn so_sb_detached(o: &Ops) -> Result<Vec<u8>, String> {
    let mut c = vec![0u8; o.msg.len()];
    let mut mac = [0u8; 16];
    unsafe { so::crypto_secretbox_detached(c.as_mut_ptr(), mac.as_mut_ptr(), o.msg.as_ptr(), o.msg.len() as u64, o.nonce.as_ptr(), o.key.as_ptr()) };
    Ok([&mac[..], &c[..]].concat())
}
fn so_box_easy(o: &Ops) -> Result<Vec<u8>, String> {
    let mut c = vec![0u8; o.msg.len() + MAC];
    unsafe { so::crypto_box_easy(c.as_mut_ptr(), o.msg.as_ptr(), o.msg.len() as u64, o.nonce.as_ptr(), o.rpk.as_ptr(), o.ssk.as_ptr()) };
    Ok(c)
}
fn so_box_detached(o: &Ops) -> Result<Vec<u8>, String> {
    let mut c = vec![0u8; o.msg.len()];
    let mut mac = [0u8; 16];
    unsafe { so::crypto_box_detached(c.as_mut_ptr(), mac.as_mut_ptr(), o.msg.as_ptr(), o.msg.len() as u64, o.nonce.as_ptr(), o.rpk.as_ptr(), o.ssk.as_ptr()) };
    Ok([&mac[..], &c[..]].concat())
}
fn so_box_easy_afternm(o: &Ops) -> Result<Vec<u8>, String> {
    let mut c = vec![0u8; o.msg.len() + MAC];
    unsafe { so::crypto_box_easy_afternm(c.as_mut_ptr(), o.msg.as_ptr(), o.msg.len() as u64, o.nonce.as_ptr(), o.pre_s.as_ptr()) };
    Ok(c)
}
fn so_box_detached_afternm(o: &Ops) -> Result<Vec<u8>, String> {
    let mut c = vec![0u8; o.msg.len()];
    let mut mac = [0u8; 16];
    unsafe { so::crypto_box_detached_afternm(c.as_mut_ptr(), mac.as_mut_ptr(), o.msg.as_ptr(), o.msg.len() as u64, o.nonce.as_ptr(), o.pre_s.as_ptr()) };
    Ok([&mac[..], &c[..]].concat())
}
fn so_seal(o: &Ops) -> Result<Vec<u8>, String> {
    let mut c = vec![0u8; o.msg.len() + SEAL];
    unsafe { so::crypto_box_seal(c.as_mut_ptr(), o.msg.as_ptr(), o.msg.len() as u64, o.rpk.as_ptr()) };
    Ok(c)
}
fn so_fin(r: i32, m: Vec<u8>) -> Opened {
    Opened { ok: r == 0, msg: if r == 0 { m } else { vec![] }, leak: None }
}
fn so_sb_open_easy(o: &Ops, w: &[u8]) -> Opened {
    let mut m = vec![0u8; w.len().saturating_sub(MAC)];
    let r = unsafe { so::crypto_secretbox_open_easy(m.as_mut_ptr(), w.as_ptr(), w.len() as u64, o.nonce.as_ptr(), o.key.as_ptr()) };
    so_fin(r, m)
}
fn so_sb_open_detached(o: &Ops, w: &[u8]) -> Opened {
    let mut m = vec![0u8; w.len() - MAC];
    let r = unsafe { so::crypto_secretbox_open_detached(m.as_mut_ptr(), w[MAC..].as_ptr(), w.as_ptr(), (w.len() - MAC) as u64, o.nonce.as_ptr(), o.key.as_ptr()) };
    so_fin(r, m)
}
fn so_box_open_easy(o: &Ops, w: &[u8]) -> Opened {
    let mut m = vec![0u8; w.len().saturating_sub(MAC)];
    let r = unsafe { so::crypto_box_open_easy(m.as_mut_ptr(), w.as_ptr(), w.len() as u64, o.nonce.as_ptr(), o.spk.as_ptr(), o.rsk.as_ptr()) };
    so_fin(r, m)
}
fn so_box_open_detached(o: &Ops, w: &[u8]) -> Opened {
    let mut m = vec![0u8; w.len() - MAC];
    let r = unsafe { so::crypto_box_open_detached(m.as_mut_ptr(), w[MAC..].as_ptr(), w.as_ptr(), (w.len() - MAC) as u64, o.nonce.as_ptr(), o.spk.as_ptr(), o.rsk.as_ptr()) };
    so_fin(r, m)
}
fn so_box_open_easy_afternm(o: &Ops, w: &[u8]) -> Opened {
    let mut m = vec![0u8; w.len().saturating_sub(MAC)];
    let r = unsafe { so::crypto_box_open_easy_afternm(m.as_mut_ptr(), w.as_ptr(), w.len() as u64, o.nonce.as_ptr(), o.pre_r.as_ptr()) };
    so_fin(r, m)
}
fn so_box_open_detached_afternm(o: &Ops, w: &[u8]) -> Opened {
    let mut m = vec![0u8; w.len() - MAC];
    let r = unsafe { so::crypto_box_open_detached_afternm(m.as_mut_ptr(), w[MAC..].as_ptr(), w.as_ptr(), (w.len() - MAC) as u64, o.nonce.as_ptr(), o.pre_r.as_ptr()) };
    so_fin(r, m)
}
fn so_seal_open(o: &Ops, w: &[u8]) -> Opened {
    let mut m = vec![0u8; w.len().saturating_sub(SEAL)];
    let r = unsafe { so::crypto_box_seal_open(m.as_mut_ptr(), w.as_ptr(), w.len() as u64, o.rpk.as_ptr(), o.rsk.as_ptr()) };
    so_fin(r, m)
}
/// pins the sealed layout epk || tag || body and the nonce rule separately from crypto_box_seal_open
fn so_seal_open_by_parts(o: &Ops, w: &[u8]) -> Opened {
    if w.len() < SEAL { return Opened { ok: false, msg: vec![], leak: None }; }
    let mut nonce = [0u8; 24];
    let mut st = [&w[..32], &o.rpk[..]].concat();
    unsafe { so::crypto_generichash(nonce.as_mut_ptr(), 24, st.as_mut_ptr(), 64, std::ptr::null(), 0) };
    let mut m = vec![0u8; w.len() - SEAL];
    let r = unsafe { so::crypto_box_open_easy(m.as_mut_ptr(), w[32..].as_ptr(), (w.len() - 32) as u64, nonce.as_ptr(), w.as_ptr(), o.rsk.as_ptr()) };
    so_fin(r, m)
}

// ---------------------------------------------------------------------------- dryoc classic: secretbox
fn d_sb_easy(o: &Ops) -> Result<Vec<u8>, String> {
    let mut c = vec![0xB7u8; o.msg.len() + MAC];
    csb::crypto_secretbox_easy(&mut c, &o.msg, &o.nonce, &o.key).map_err(es)?;
    Ok(c)
}
fn d_sb_detached(o: &Ops) -> Result<Vec<u8>, String> {
    let mut c = vec![0xB7u8; o.msg.len()];
    let mut mac = [0x7Bu8; 16];
    csb::crypto_secretbox_detached(&mut c, &mut mac, &o.msg, &o.nonce, &o.key);
    Ok([&mac[..], &c[..]].concat())
}
fn d_sb_easy_inplace(o: &Ops) -> Result<Vec<u8>, String> {
    let mut c = o.msg.clone();
    c.resize(o.msg.len() + MAC, 0xA7);
    csb::crypto_secretbox_easy_inplace(&mut c, &o.nonce, &o.key).map_err(es)?;
    Ok(c)
}
fn d_sb_open_easy(o: &Ops, w: &[u8]) -> Opened {
    let before = canary(w.len().saturating_sub(MAC));
    let mut m = before.clone();
    let r = csb::crypto_secretbox_open_easy(&mut m, w, &o.nonce, &o.key);
    fin(r, m, &before)
}
fn d_sb_open_detached(o: &Ops, w: &[u8]) -> Opened {
    let before = canary(w.len() - MAC);
    let mut m = before.clone();
    let r = csb::crypto_secretbox_open_detached(&mut m, &arr16(w), &w[MAC..], &o.nonce, &o.key);
    fin(r, m, &before)
}
fn d_sb_open_easy_inplace(o: &Ops, w: &[u8]) -> Opened {
    let mut b = w.to_vec();
    let r = csb::crypto_secretbox_open_easy_inplace(&mut b, &o.nonce, &o.key);
    match r {
        Ok(()) => { b.truncate(w.len() - MAC); Opened { ok: true, msg: b, leak: None } }
        Err(e) => { note_err(&e); Opened { ok: false, msg: vec![], leak: judge(w, &b) } }
    }
}

// ---------------------------------------------------------------------------- dryoc classic: box / afternm / seal
fn d_box_easy(o: &Ops) -> Result<Vec<u8>, String> {
    let mut c = vec![0xB7u8; o.msg.len() + MAC];
    cb::crypto_box_easy(&mut c, &o.msg, &o.nonce, &o.rpk, &o.ssk).map_err(es)?;
    Ok(c)
}
fn d_box_detached(o: &Ops) -> Result<Vec<u8>, String> {
    let mut c = vec![0xB7u8; o.msg.len()];
    let mut mac = [0x7Bu8; 16];
    cb::crypto_box_detached(&mut c, &mut mac, &o.msg, &o.nonce, &o.rpk, &o.ssk);
    Ok([&mac[..], &c[..]].concat())
}
fn d_box_detached_inplace(o: &Ops) -> Result<Vec<u8>, String> {
    let mut c = o.msg.clone();
    let mut mac = [0x7Bu8; 16];
    cb::crypto_box_detached_inplace(&mut c, &mut mac, &o.nonce, &o.rpk, &o.ssk).map_err(es)?;
    Ok([&mac[..], &c[..]].concat())
}
fn d_box_easy_inplace(o: &Ops) -> Result<Vec<u8>, String> {
    let mut c = o.msg.clone();
    c.resize(o.msg.len() + MAC, 0xA7);
    cb::crypto_box_easy_inplace(&mut c, &o.nonce, &o.rpk, &o.ssk).map_err(es)?;
    Ok(c)
}
fn d_box_detached_afternm(o: &Ops) -> Result<Vec<u8>, String> {
    let k = cb::crypto_box_beforenm(&o.rpk, &o.ssk);
    let mut c = vec![0xB7u8; o.msg.len()];
    let mut mac = [0x7Bu8; 16];
    cb::crypto_box_detached_afternm(&mut c, &mut mac, &o.msg, &o.nonce, &k);
    Ok([&mac[..], &c[..]].concat())
}
fn d_box_detached_afternm_inplace(o: &Ops) -> Result<Vec<u8>, String> {
    let k = cb::crypto_box_beforenm(&o.rpk, &o.ssk);
    let mut c = o.msg.clone();
    let mut mac = [0x7Bu8; 16];
    cb::crypto_box_detached_afternm_inplace(&mut c, &mut mac, &o.nonce, &k);
    Ok([&mac[..], &c[..]].concat())
}
fn d_seal(o: &Ops) -> Result<Vec<u8>, String> {
    let mut c = vec![0xB7u8; o.msg.len() + SEAL];
    cb::crypto_box_seal(&mut c, &o.msg, &o.rpk).map_err(es)?;
    Ok(c)
}

// ---------------------------------------------------------------------------- the same calls with an output buffer that is longer than needed
// (a reused or over-allocated buffer; libsodium's functions take the message length and never look past it).  What must hold: the call
// either refuses, or the first message+overhead bytes are exactly the box - whatever the buffer held before and however long it is.
fn roomy_extra(o: &Ops) -> usize { 1 + (o.msg.len() * 7 + o.nonce[0] as usize) % 40 }
fn d_sb_easy_roomy(o: &Ops) -> Result<Vec<u8>, String> {
    let n = o.msg.len() + MAC;
    let mut c = vec![0xC9u8; n + roomy_extra(o)];
    match csb::crypto_secretbox_easy(&mut c, &o.msg, &o.nonce, &o.key) { Ok(()) => { c.truncate(n); Ok(c) } Err(_) => d_sb_easy(o) }
}
fn d_sb_detached_roomy(o: &Ops) -> Result<Vec<u8>, String> {
    let mut c = vec![0xC9u8; o.msg.len() + roomy_extra(o)];
    let mut mac = [0x7Bu8; 16];
    csb::crypto_secretbox_detached(&mut c, &mut mac, &o.msg, &o.nonce, &o.key);
    Ok([&mac[..], &c[..o.msg.len()]].concat())
}
fn d_box_easy_roomy(o: &Ops) -> Result<Vec<u8>, String> {
    let n = o.msg.len() + MAC;
    let mut c = vec![0x5Eu8; n + roomy_extra(o)];
    match cb::crypto_box_easy(&mut c, &o.msg, &o.nonce, &o.rpk, &o.ssk) { Ok(()) => { c.truncate(n); Ok(c) } Err(_) => d_box_easy(o) }
}
fn d_box_detached_roomy(o: &Ops) -> Result<Vec<u8>, String> {
    let mut c = vec![0x5Eu8; o.msg.len() + roomy_extra(o)];
    let mut mac = [0x7Bu8; 16];
    cb::crypto_box_detached(&mut c, &mut mac, &o.msg, &o.nonce, &o.rpk, &o.ssk);
    Ok([&mac[..], &c[..o.msg.len()]].concat())
}
fn d_box_detached_afternm_roomy(o: &Ops) -> Result<Vec<u8>, String> {
    let k = cb::crypto_box_beforenm(&o.rpk, &o.ssk);
    let mut c = vec![0x5Eu8; o.msg.len() + roomy_extra(o)];
    let mut mac = [0x7Bu8; 16];
    cb::crypto_box_detached_afternm(&mut c, &mut mac, &o.msg, &o.nonce, &k);
    Ok([&mac[..], &c[..o.msg.len()]].concat())
}
fn d_seal_roomy(o: &Ops) -> Result<Vec<u8>, String> {
    let n = o.msg.len() + SEAL;
    let mut c = vec![0x5Eu8; n + roomy_extra(o)];
    match cb::crypto_box_seal(&mut c, &o.msg, &o.rpk) { Ok(()) => { c.truncate(n); Ok(c) } Err(_) => d_seal(o) }
}
fn d_box_open_easy(o: &Ops, w: &[u8]) -> Opened {
    let before = canary(w.len().saturating_sub(MAC));
    let mut m = before.clone();
    let r = cb::crypto_box_open_easy(&mut m, w, &o.nonce, &o.spk, &o.rsk);
    fin(r, m, &before)
}
fn d_box_open_detached(o: &Ops, w: &[u8]) -> Opened {
    let before = canary(w.len() - MAC);
    let mut m = before.clone();
    let r = cb::crypto_box_open_detached(&mut m, &arr16(w), &w[MAC..], &o.nonce, &o.spk, &o.rsk);
    fin(r, m, &before)
}
fn d_box_open_detached_inplace(o: &Ops, w: &[u8]) -> Opened {
    let mut b = w[MAC..].to_vec();
    let r = cb::crypto_box_open_detached_inplace(&mut b, &arr16(w), &o.nonce, &o.spk, &o.rsk);
    let before = w[MAC..].to_vec();
    fin(r, b, &before)
}
// in-place opens on a buffer that has just been through a REJECTED attempt (a receiver trying the keys of a key ring): the
// rejected attempt must have left the box as it was, so that the attempt with the right key still opens it
fn d_sb_open_easy_inplace_retry(o: &Ops, w: &[u8]) -> Opened {
    let mut b = w.to_vec();
    let mut wrong = o.key; wrong[7] ^= 0x10;
    if csb::crypto_secretbox_open_easy_inplace(&mut b, &o.nonce, &wrong).is_ok() { return Opened { ok: false, msg: vec![], leak: None }; }
    match csb::crypto_secretbox_open_easy_inplace(&mut b, &o.nonce, &o.key) {
        Ok(()) => { b.truncate(w.len() - MAC); Opened { ok: true, msg: b, leak: None } }
        Err(e) => { note_err(&e); Opened { ok: false, msg: vec![], leak: None } }
    }
}
fn d_box_open_easy_inplace_retry(o: &Ops, w: &[u8]) -> Opened {
    let mut b = w.to_vec();
    let mut wrong = o.rsk; wrong[7] ^= 0x10;
    if cb::crypto_box_open_easy_inplace(&mut b, &o.nonce, &o.spk, &wrong).is_ok() { return Opened { ok: false, msg: vec![], leak: None }; }
    match cb::crypto_box_open_easy_inplace(&mut b, &o.nonce, &o.spk, &o.rsk) {
        Ok(()) => { b.truncate(w.len() - MAC); Opened { ok: true, msg: b, leak: None } }
        Err(e) => { note_err(&e); Opened { ok: false, msg: vec![], leak: None } }
    }
}
fn d_box_open_easy_inplace(o: &Ops, w: &[u8]) -> Opened {
    let mut b = w.to_vec();
    let r = cb::crypto_box_open_easy_inplace(&mut b, &o.nonce, &o.spk, &o.rsk);
    match r {
        Ok(()) => { b.truncate(w.len() - MAC); Opened { ok: true, msg: b, leak: None } }
        Err(e) => { note_err(&e); Opened { ok: false, msg: vec![], leak: judge(w, &b) } }
    }
}
fn d_box_open_detached_afternm(o: &Ops, w: &[u8]) -> Opened {
    let before = canary(w.len() - MAC);
    let mut m = before.clone();
    let r = cb::crypto_box_open_detached_afternm(&mut m, &arr16(w), &w[MAC..], &o.nonce, &o.pre_r);
    fin(r, m, &before)
}
fn d_box_open_detached_afternm_inplace(o: &Ops, w: &[u8]) -> Opened {
    let mut b = w[MAC..].to_vec();
    let r = cb::crypto_box_open_detached_afternm_inplace(&mut b, &arr16(w), &o.nonce, &o.pre_r);
    let before = w[MAC..].to_vec();
    fin(r, b, &before)
}
fn d_seal_open(o: &Ops, w: &[u8]) -> Opened {
    let before = canary(w.len().saturating_sub(SEAL));
    let mut m = before.clone();
    let r = cb::crypto_box_seal_open(&mut m, w, &o.rpk, &o.rsk);
    fin(r, m, &before)
}

// the same classic opens with an output buffer of the GENUINE message length (a caller who knows what it expects): for
// truncated or extended ciphertexts the buffer and the ciphertext then disagree.  Sizing the buffer is the caller's side of
// the classic contract, so a refusal by panic counts as a refusal here; what may not happen is Ok, or a leak.  (Whether such a
// call may panic at all is C04's question: its "receiver buffer of fixed size" entries decide it - since /repo 7ab6108 it does not.)
fn d_sb_open_easy_g(o: &Ops, w: &[u8]) -> Opened {
    let before = canary(o.msg.len()); let mut m = before.clone();
    match catch(|| csb::crypto_secretbox_open_easy(&mut m, w, &o.nonce, &o.key)) { Ok(r) => fin(r, m, &before), Err(_) => Opened { ok: false, msg: vec![], leak: judge(&before, &m) } }
}
fn d_sb_open_detached_g(o: &Ops, w: &[u8]) -> Opened {
    let before = canary(o.msg.len()); let mut m = before.clone();
    match catch(std::panic::AssertUnwindSafe(|| csb::crypto_secretbox_open_detached(&mut m, &arr16(w), &w[MAC..], &o.nonce, &o.key))) { Ok(r) => fin(r, m, &before), Err(_) => Opened { ok: false, msg: vec![], leak: judge(&before, &m) } }
}
fn d_box_open_easy_g(o: &Ops, w: &[u8]) -> Opened {
    let before = canary(o.msg.len()); let mut m = before.clone();
    match catch(|| cb::crypto_box_open_easy(&mut m, w, &o.nonce, &o.spk, &o.rsk)) { Ok(r) => fin(r, m, &before), Err(_) => Opened { ok: false, msg: vec![], leak: judge(&before, &m) } }
}
fn d_box_open_detached_g(o: &Ops, w: &[u8]) -> Opened {
    let before = canary(o.msg.len()); let mut m = before.clone();
    match catch(std::panic::AssertUnwindSafe(|| cb::crypto_box_open_detached(&mut m, &arr16(w), &w[MAC..], &o.nonce, &o.spk, &o.rsk))) { Ok(r) => fin(r, m, &before), Err(_) => Opened { ok: false, msg: vec![], leak: judge(&before, &m) } }
}
fn d_box_open_detached_afternm_g(o: &Ops, w: &[u8]) -> Opened {
    let before = canary(o.msg.len()); let mut m = before.clone();
    match catch(std::panic::AssertUnwindSafe(|| cb::crypto_box_open_detached_afternm(&mut m, &arr16(w), &w[MAC..], &o.nonce, &o.pre_r))) { Ok(r) => fin(r, m, &before), Err(_) => Opened { ok: false, msg: vec![], leak: judge(&before, &m) } }
}
fn d_seal_open_g(o: &Ops, w: &[u8]) -> Opened {
    let before = canary(o.msg.len()); let mut m = before.clone();
    match catch(|| cb::crypto_box_seal_open(&mut m, w, &o.rpk, &o.rsk)) { Ok(r) => fin(r, m, &before), Err(_) => Opened { ok: false, msg: vec![], leak: judge(&before, &m) } }
}

// ---------------------------------------------------------------------------- object API, generic over containers
/// fixed-length containers built from a slice of the right length
pub trait Mk { fn mk(b: &[u8]) -> Self; }
impl<const N: usize> Mk for StackByteArray<N> { fn mk(b: &[u8]) -> Self { Self::try_from(b).unwrap() } }
impl<const N: usize> Mk for [u8; N] { fn mk(b: &[u8]) -> Self { <[u8; N]>::try_from(b).unwrap() } }
#[cfg(feature = "nightly")]
impl<const N: usize> Mk for dryoc::protected::HeapByteArray<N> { fn mk(b: &[u8]) -> Self { Self::try_from(b).unwrap() } }
#[cfg(feature = "nightly")]
impl<const N: usize> Mk for dryoc::protected::Locked<dryoc::protected::HeapByteArray<N>> {
    fn mk(b: &[u8]) -> Self { use dryoc::protected::NewLockedFromSlice; dryoc::protected::HeapByteArray::<N>::from_slice_into_locked(b).unwrap() }
}
macro_rules! obj_variants {
    ($modname:ident, $mac:ty, $data:ty, $key:ty, $nonce:ty, $pk:ty, $out:ty) => {
        pub mod $modname {
            use super::*;
            fn key(o: &Ops) -> $key { <$key as Mk>::mk(&o.key[..]) }
            fn nonce(o: &Ops) -> $nonce { <$nonce as Mk>::mk(&o.nonce[..]) }
            fn k32(b: &[u8; 32]) -> $key { <$key as Mk>::mk(&b[..]) }
            fn pk(b: &[u8; 32]) -> $pk { <$pk as Mk>::mk(&b[..]) }
            pub fn sb_to_bytes(o: &Ops) -> Result<Vec<u8>, String> {
                let b: DryocSecretBox<$mac, $data> = DryocSecretBox::encrypt(&o.msg, &nonce(o), &key(o));
                let v: $out = b.to_bytes();
                Ok(v.as_slice().to_vec())
            }
            pub fn sb_to_vec(o: &Ops) -> Result<Vec<u8>, String> {
                let b: DryocSecretBox<$mac, $data> = DryocSecretBox::encrypt(&o.msg, &nonce(o), &key(o));
                Ok(b.to_vec())
            }
            pub fn sb_parts(o: &Ops) -> Result<Vec<u8>, String> {
                let b: DryocSecretBox<$mac, $data> = DryocSecretBox::encrypt(&o.msg, &nonce(o), &key(o));
                let (t, d) = b.into_parts();
                Ok([t.as_slice(), d.as_slice()].concat())
            }
            pub fn sb_open_parts(o: &Ops, w: &[u8]) -> Opened {
                let t = <$mac as Mk>::mk(&w[..MAC]);
                let mut d = <$data>::new_bytes();
                d.resize(w.len() - MAC, 0);
                d.as_mut_slice().copy_from_slice(&w[MAC..]);
                let b: DryocSecretBox<$mac, $data> = DryocSecretBox::from_parts(t, d);
                obj::<$out>(b.decrypt(&nonce(o), &key(o)))
            }
            pub fn db_to_bytes(o: &Ops) -> Result<Vec<u8>, String> {
                let b: DryocBox<$pk, $mac, $data> = DryocBox::encrypt(&o.msg, &nonce(o), &pk(&o.rpk), &k32(&o.ssk)).map_err(es)?;
                let v: $out = b.to_bytes();
                Ok(v.as_slice().to_vec())
            }
            pub fn db_parts(o: &Ops) -> Result<Vec<u8>, String> {
                let b: DryocBox<$pk, $mac, $data> = DryocBox::encrypt(&o.msg, &nonce(o), &pk(&o.rpk), &k32(&o.ssk)).map_err(es)?;
                let (t, d, e) = b.into_parts();
                if e.is_some() { return Err("encrypt produced an ephemeral key".into()); }
                Ok([t.as_slice(), d.as_slice()].concat())
            }
            pub fn db_precalc_to_bytes(o: &Ops) -> Result<Vec<u8>, String> {
                let pre = PrecalcSecretKey::precalculate(&pk(&o.rpk), &k32(&o.ssk));
                let b: DryocBox<$pk, $mac, $data> = DryocBox::precalc_encrypt(&o.msg, &nonce(o), &pre).map_err(es)?;
                let v: $out = b.to_bytes();
                Ok(v.as_slice().to_vec())
            }
            pub fn db_seal_to_bytes(o: &Ops) -> Result<Vec<u8>, String> {
                let b: DryocBox<$pk, $mac, $data> = DryocBox::seal(&o.msg, &pk(&o.rpk)).map_err(es)?;
                let v: $out = b.to_bytes();
                Ok(v.as_slice().to_vec())
            }
            pub fn db_open_parts(o: &Ops, w: &[u8]) -> Opened {
                let t = <$mac as Mk>::mk(&w[..MAC]);
                let mut d = <$data>::new_bytes();
                d.resize(w.len() - MAC, 0);
                d.as_mut_slice().copy_from_slice(&w[MAC..]);
                let b: DryocBox<$pk, $mac, $data> = DryocBox::from_parts(t, d, None);
                obj::<$out>(b.decrypt(&nonce(o), &pk(&o.spk), &k32(&o.rsk)))
            }
            pub fn db_open_parts_precalc(o: &Ops, w: &[u8]) -> Opened {
                let t = <$mac as Mk>::mk(&w[..MAC]);
                let mut d = <$data>::new_bytes();
                d.resize(w.len() - MAC, 0);
                d.as_mut_slice().copy_from_slice(&w[MAC..]);
                let b: DryocBox<$pk, $mac, $data> = DryocBox::from_parts(t, d, None);
                let pre = PrecalcSecretKey::precalculate(&pk(&o.spk), &k32(&o.rsk));
                obj::<$out>(b.precalc_decrypt(&nonce(o), &pre))
            }
            pub fn db_unseal_parts(o: &Ops, w: &[u8]) -> Opened {
                if w.len() < SEAL { return Opened { ok: false, msg: vec![], leak: None }; }
                let e = pk(&arr32(w));
                let t = <$mac as Mk>::mk(&w[PKB..SEAL]);
                let mut d = <$data>::new_bytes();
                d.resize(w.len() - SEAL, 0);
                d.as_mut_slice().copy_from_slice(&w[SEAL..]);
                let b: DryocBox<$pk, $mac, $data> = DryocBox::from_parts(t, d, Some(e));
                let kp: KeyPair<$pk, $key> = KeyPair { public_key: pk(&o.rpk), secret_key: k32(&o.rsk) };
                obj::<$out>(b.unseal(&kp))
            }
        }
    };
}
type S16 = StackByteArray<16>;
type S24 = StackByteArray<24>;
type S32 = StackByteArray<32>;
obj_variants!(stackvec, S16, Vec<u8>, S32, S24, S32, Vec<u8>);
obj_variants!(arrvec, [u8; 16], Vec<u8>, [u8; 32], [u8; 24], [u8; 32], Vec<u8>);
#[cfg(feature = "nightly")]
obj_variants!(heap, dryoc::protected::HeapByteArray<16>, dryoc::protected::HeapBytes, dryoc::protected::HeapByteArray<32>,
              dryoc::protected::HeapByteArray<24>, dryoc::protected::HeapByteArray<32>, dryoc::protected::HeapBytes);

#[cfg(feature = "nightly")]
obj_variants!(locked, dryoc::protected::Locked<dryoc::protected::HeapByteArray<16>>, dryoc::protected::LockedBytes,
              dryoc::protected::Locked<dryoc::protected::HeapByteArray<32>>, dryoc::protected::Locked<dryoc::protected::HeapByteArray<24>>,
              dryoc::protected::Locked<dryoc::protected::HeapByteArray<32>>, dryoc::protected::LockedBytes);

// precomputed keys held in locked memory (nightly): PrecalcSecretKey::precalculate_locked / _readonly_locked,
// KeyPair::precalculate_locked / _readonly_locked
#[cfg(feature = "nightly")]
mod lockedpre {
    use super::*;
    use dryoc::protected::{HeapByteArray, Locked, LockedRO, NewLockedFromSlice};
    type LK = Locked<HeapByteArray<32>>;
    fn lk(b: &[u8; 32]) -> LK { HeapByteArray::<32>::from_slice_into_locked(b).unwrap() }
    fn enc<P: dryoc::types::ByteArray<32> + zeroize::Zeroize>(o: &Ops, pre: &P) -> Result<Vec<u8>, String> {
        let b: DryocBox<S32, S16, Vec<u8>> = DryocBox::precalc_encrypt(&o.msg, &S24::from(&o.nonce), pre).map_err(es)?;
        Ok(b.to_vec())
    }
    fn open<P: dryoc::types::ByteArray<32> + zeroize::Zeroize>(o: &Ops, w: &[u8], pre: &P) -> Opened {
        let b: DryocBox<S32, S16, Vec<u8>> = DryocBox::from_parts(S16::from(&arr16(w)), w[MAC..].to_vec(), None);
        obj::<Vec<u8>>(b.precalc_decrypt(&S24::from(&o.nonce), pre))
    }
    pub fn enc_precalc_locked(o: &Ops) -> Result<Vec<u8>, String> {
        let pre = PrecalcSecretKey::precalculate_locked(&S32::from(&o.rpk), &lk(&o.ssk)).map_err(|e| format!("{:?}", e))?;
        enc(o, &pre)
    }
    pub fn enc_precalc_ro_locked(o: &Ops) -> Result<Vec<u8>, String> {
        let pre = PrecalcSecretKey::precalculate_readonly_locked(&S32::from(&o.rpk), &lk(&o.ssk)).map_err(|e| format!("{:?}", e))?;
        enc(o, &pre)
    }
    pub fn enc_keypair_precalc_locked(o: &Ops) -> Result<Vec<u8>, String> {
        let kp: KeyPair<LK, LK> = KeyPair { public_key: lk(&o.spk), secret_key: lk(&o.ssk) };
        let pre = kp.precalculate_locked(&S32::from(&o.rpk)).map_err(|e| format!("{:?}", e))?;
        enc(o, &pre)
    }
    pub fn enc_keypair_precalc_ro_locked(o: &Ops) -> Result<Vec<u8>, String> {
        let kp: KeyPair<LockedRO<HeapByteArray<32>>, LockedRO<HeapByteArray<32>>> = KeyPair {
            public_key: HeapByteArray::<32>::from_slice_into_readonly_locked(&o.spk).unwrap(),
            secret_key: HeapByteArray::<32>::from_slice_into_readonly_locked(&o.ssk).unwrap() };
        let pre = kp.precalculate_readonly_locked(&S32::from(&o.rpk)).map_err(|e| format!("{:?}", e))?;
        enc(o, &pre)
    }
    pub fn open_precalc_locked(o: &Ops, w: &[u8]) -> Opened {
        match PrecalcSecretKey::precalculate_locked(&S32::from(&o.spk), &lk(&o.rsk)) { Ok(pre) => open(o, w, &pre), Err(_) => Opened { ok: false, msg: vec![], leak: None } }
    }
    pub fn open_precalc_ro_locked(o: &Ops, w: &[u8]) -> Opened {
        match PrecalcSecretKey::precalculate_readonly_locked(&S32::from(&o.spk), &lk(&o.rsk)) { Ok(pre) => open(o, w, &pre), Err(_) => Opened { ok: false, msg: vec![], leak: None } }
    }
}

// object API forms that exist for the Vec box only, or parse from a byte slice
fn o_sb_into_vec(o: &Ops) -> Result<Vec<u8>, String> {
    let b = dryoc::dryocsecretbox::VecBox::encrypt_to_vecbox(&o.msg, &S24::from(&o.nonce), &S32::from(&o.key));
    Ok(b.into_vec())
}
fn o_sb_into_vec_spare(o: &Ops) -> Result<Vec<u8>, String> {
    // the same box, its ciphertext held in a Vec with room to spare (as a decoded or reused buffer has)
    let b = dryoc::dryocsecretbox::VecBox::encrypt_to_vecbox(&o.msg, &S24::from(&o.nonce), &S32::from(&o.key));
    let (tag, data) = b.into_parts();
    let mut roomy = Vec::with_capacity(data.len() + 16 + (o.msg.len() % 48)); roomy.extend_from_slice(&data);
    let b: dryoc::dryocsecretbox::VecBox = DryocSecretBox::from_parts(tag, roomy);
    Ok(b.into_vec())
}
fn o_sb_from_bytes(o: &Ops, w: &[u8]) -> Opened {
    match dryoc::dryocsecretbox::VecBox::from_bytes(w) {
        Ok(b) => obj::<Vec<u8>>(b.decrypt_to_vec(&S24::from(&o.nonce), &S32::from(&o.key))),
        Err(_) => Opened { ok: false, msg: vec![], leak: None },
    }
}
fn o_sb_with_data_and_mac(o: &Ops, w: &[u8]) -> Opened {
    let b: dryoc::dryocsecretbox::VecBox = DryocSecretBox::with_data_and_mac(S16::from(&arr16(w)), &w[MAC..]);
    obj::<Vec<u8>>(b.decrypt(&S24::from(&o.nonce), &S32::from(&o.key)))
}
fn o_db_to_vec(o: &Ops) -> Result<Vec<u8>, String> {
    let b = dryoc::dryocbox::VecBox::encrypt_to_vecbox(&o.msg, &S24::from(&o.nonce), &S32::from(&o.rpk), &S32::from(&o.ssk)).map_err(es)?;
    Ok(b.to_vec())
}
fn o_db_precalc_to_vec(o: &Ops) -> Result<Vec<u8>, String> {
    let kp: dryoc::dryocbox::KeyPair = KeyPair::from_secret_key(S32::from(&o.ssk));
    let pre = kp.precalculate(&S32::from(&o.rpk));
    let b = dryoc::dryocbox::VecBox::precalc_encrypt_to_vecbox(&o.msg, &S24::from(&o.nonce), &pre).map_err(es)?;
    Ok(b.to_vec())
}
fn o_db_seal_to_vec(o: &Ops) -> Result<Vec<u8>, String> {
    let b = dryoc::dryocbox::VecBox::seal_to_vecbox(&o.msg, &S32::from(&o.rpk)).map_err(es)?;
    Ok(b.to_vec())
}
fn o_db_from_bytes(o: &Ops, w: &[u8]) -> Opened {
    match dryoc::dryocbox::VecBox::from_bytes(w) {
        Ok(b) => obj::<Vec<u8>>(b.decrypt_to_vec(&S24::from(&o.nonce), &S32::from(&o.spk), &S32::from(&o.rsk))),
        Err(_) => Opened { ok: false, msg: vec![], leak: None },
    }
}
fn o_db_from_bytes_precalc(o: &Ops, w: &[u8]) -> Opened {
    match dryoc::dryocbox::VecBox::from_bytes(w) {
        Ok(b) => obj::<Vec<u8>>(b.precalc_decrypt_to_vec(&S24::from(&o.nonce), &S32::from(&o.pre_r))),
        Err(_) => Opened { ok: false, msg: vec![], leak: None },
    }
}
fn o_db_with_data_and_mac(o: &Ops, w: &[u8]) -> Opened {
    let b: dryoc::dryocbox::VecBox = DryocBox::new_with_data_and_mac(S16::from(&arr16(w)), &w[MAC..]);
    obj::<Vec<u8>>(b.decrypt(&S24::from(&o.nonce), &S32::from(&o.spk), &S32::from(&o.rsk)))
}
fn o_db_from_sealed_bytes(o: &Ops, w: &[u8]) -> Opened {
    let kp: dryoc::dryocbox::KeyPair = KeyPair { public_key: S32::from(&o.rpk), secret_key: S32::from(&o.rsk) };
    match dryoc::dryocbox::VecBox::from_sealed_bytes(w) {
        Ok(b) => obj::<Vec<u8>>(b.unseal_to_vec(&kp)),
        Err(_) => Opened { ok: false, msg: vec![], leak: None },
    }
}
fn o_db_with_epk(o: &Ops, w: &[u8]) -> Opened {
    if w.len() < SEAL { return Opened { ok: false, msg: vec![], leak: None }; }
    let kp: dryoc::dryocbox::KeyPair = KeyPair { public_key: S32::from(&o.rpk), secret_key: S32::from(&o.rsk) };
    let b: dryoc::dryocbox::VecBox = DryocBox::new_with_epk_data_and_mac(S32::from(&arr32(w)), S16::from(&arr16(&w[PKB..])), &w[SEAL..]);
    obj::<Vec<u8>>(b.unseal(&kp))
}

// ---------------------------------------------------------------------------- variant tables (names as in Aead.tla)
pub fn enc_impls(cons: &str, v: &str) -> Vec<(&'static str, EncFn)> {
    let mut r: Vec<(&'static str, EncFn)> = match (cons, v) {
        ("secretbox", "easy") => vec![("dryoc crypto_secretbox_easy", d_sb_easy), ("dryoc crypto_secretbox_easy (output buffer longer than needed)", d_sb_easy_roomy), ("sodium crypto_secretbox_easy", so_sb_easy)],
        ("secretbox", "detached") => vec![("dryoc crypto_secretbox_detached", d_sb_detached), ("dryoc crypto_secretbox_detached (output buffer longer than needed)", d_sb_detached_roomy), ("sodium crypto_secretbox_detached", so_sb_detached)],
        ("secretbox", "easy_inplace") => vec![("dryoc crypto_secretbox_easy_inplace", d_sb_easy_inplace)],
        ("secretbox", "obj_to_bytes") => vec![("DryocSecretBox<Stack,Vec>::encrypt+to_bytes", stackvec::sb_to_bytes), ("DryocSecretBox<[u8],Vec>::encrypt+to_bytes", arrvec::sb_to_bytes),
                                             ("DryocSecretBox<Stack,Vec>::encrypt+to_vec", stackvec::sb_to_vec)],
        ("secretbox", "obj_into_vec") => vec![("VecBox::encrypt_to_vecbox+into_vec", o_sb_into_vec), ("VecBox::from_parts(roomy Vec)+into_vec", o_sb_into_vec_spare)],
        ("secretbox", "obj_parts") => vec![("DryocSecretBox<Stack,Vec>::encrypt+into_parts", stackvec::sb_parts), ("DryocSecretBox<[u8],Vec>::encrypt+into_parts", arrvec::sb_parts)],
        ("box", "easy") => vec![("dryoc crypto_box_easy", d_box_easy), ("dryoc crypto_box_easy (output buffer longer than needed)", d_box_easy_roomy), ("sodium crypto_box_easy", so_box_easy), ("sodium crypto_box_easy_afternm", so_box_easy_afternm)],
        ("box", "detached") => vec![("dryoc crypto_box_detached", d_box_detached), ("dryoc crypto_box_detached (output buffer longer than needed)", d_box_detached_roomy), ("dryoc crypto_box_beforenm+detached_afternm (output buffer longer than needed)", d_box_detached_afternm_roomy), ("dryoc crypto_box_detached_inplace", d_box_detached_inplace),
                                    ("dryoc crypto_box_beforenm+detached_afternm", d_box_detached_afternm), ("dryoc crypto_box_beforenm+detached_afternm_inplace", d_box_detached_afternm_inplace),
                                    ("sodium crypto_box_detached", so_box_detached), ("sodium crypto_box_detached_afternm", so_box_detached_afternm)],
        ("box", "easy_inplace") => vec![("dryoc crypto_box_easy_inplace", d_box_easy_inplace)],
        ("box", "obj_to_bytes") => vec![("DryocBox<Stack,Vec>::encrypt+to_bytes", stackvec::db_to_bytes), ("DryocBox<[u8],Vec>::encrypt+to_bytes", arrvec::db_to_bytes),
                                       ("DryocBox<Stack,Vec>::precalc_encrypt+to_bytes", stackvec::db_precalc_to_bytes), ("DryocBox<[u8],Vec>::precalc_encrypt+to_bytes", arrvec::db_precalc_to_bytes)],
        ("box", "obj_into_vec") => vec![("VecBox::encrypt_to_vecbox+to_vec", o_db_to_vec), ("KeyPair::precalculate+VecBox::precalc_encrypt_to_vecbox+to_vec", o_db_precalc_to_vec)],
        ("box", "obj_parts") => vec![("DryocBox<Stack,Vec>::encrypt+into_parts", stackvec::db_parts), ("DryocBox<[u8],Vec>::encrypt+into_parts", arrvec::db_parts)],
        ("seal", "seal") => vec![("dryoc crypto_box_seal", d_seal), ("dryoc crypto_box_seal (output buffer longer than needed)", d_seal_roomy), ("sodium crypto_box_seal", so_seal)],
        ("seal", "obj_seal") => vec![("DryocBox<Stack,Vec>::seal+to_bytes", stackvec::db_seal_to_bytes), ("DryocBox<[u8],Vec>::seal+to_bytes", arrvec::db_seal_to_bytes),
                                     ("VecBox::seal_to_vecbox+to_vec", o_db_seal_to_vec)],
        _ => vec![],
    };
    #[cfg(feature = "nightly")]
    match (cons, v) {
        ("secretbox", "obj_to_bytes") => { r.push(("DryocSecretBox<Heap,HeapBytes>::encrypt+to_bytes", heap::sb_to_bytes)); r.push(("DryocSecretBox<Locked,LockedBytes>::encrypt+to_bytes", locked::sb_to_bytes)); }
        ("secretbox", "obj_parts") => { r.push(("DryocSecretBox<Heap,HeapBytes>::encrypt+into_parts", heap::sb_parts)); r.push(("DryocSecretBox<Locked,LockedBytes>::encrypt+into_parts", locked::sb_parts)); }
        ("box", "obj_to_bytes") => { r.push(("DryocBox<Heap,HeapBytes>::encrypt+to_bytes", heap::db_to_bytes)); r.push(("DryocBox<Heap,HeapBytes>::precalc_encrypt+to_bytes", heap::db_precalc_to_bytes));
                                     r.push(("DryocBox<Locked,LockedBytes>::encrypt+to_bytes", locked::db_to_bytes)); r.push(("DryocBox<Locked,LockedBytes>::precalc_encrypt+to_bytes", locked::db_precalc_to_bytes));
                                     r.push(("PrecalcSecretKey::precalculate_locked+precalc_encrypt", lockedpre::enc_precalc_locked));
                                     r.push(("PrecalcSecretKey::precalculate_readonly_locked+precalc_encrypt", lockedpre::enc_precalc_ro_locked));
                                     r.push(("KeyPair<Locked>::precalculate_locked+precalc_encrypt", lockedpre::enc_keypair_precalc_locked));
                                     r.push(("KeyPair<LockedRO>::precalculate_readonly_locked+precalc_encrypt", lockedpre::enc_keypair_precalc_ro_locked)); }
        ("box", "obj_parts") => { r.push(("DryocBox<Heap,HeapBytes>::encrypt+into_parts", heap::db_parts)); r.push(("DryocBox<Locked,LockedBytes>::encrypt+into_parts", locked::db_parts)); }
        ("seal", "obj_seal") => { r.push(("DryocBox<Heap,HeapBytes>::seal+to_bytes", heap::db_seal_to_bytes)); r.push(("DryocBox<Locked,LockedBytes>::seal+to_bytes", locked::db_seal_to_bytes)); }
        _ => {}
    }
    r.retain(|_| true);
    r
}

pub fn open_impls(cons: &str, u: &str) -> Vec<(&'static str, OpenFn)> {
    let mut r: Vec<(&'static str, OpenFn)> = match (cons, u) {
        ("secretbox", "open_easy") => vec![("dryoc crypto_secretbox_open_easy", d_sb_open_easy), ("dryoc crypto_secretbox_open_easy (buffer of the genuine length)", d_sb_open_easy_g), ("sodium crypto_secretbox_open_easy", so_sb_open_easy)],
        ("secretbox", "open_detached") => vec![("dryoc crypto_secretbox_open_detached", d_sb_open_detached), ("dryoc crypto_secretbox_open_detached (buffer of the genuine length)", d_sb_open_detached_g), ("sodium crypto_secretbox_open_detached", so_sb_open_detached)],
        ("secretbox", "open_easy_inplace") => vec![("dryoc crypto_secretbox_open_easy_inplace", d_sb_open_easy_inplace), ("dryoc crypto_secretbox_open_easy_inplace (after a rejected attempt on the same buffer)", d_sb_open_easy_inplace_retry)],
        ("secretbox", "obj_from_bytes") => vec![("VecBox::from_bytes+decrypt_to_vec", o_sb_from_bytes)],
        ("secretbox", "obj_parts") => vec![("DryocSecretBox<Stack,Vec>::from_parts+decrypt", stackvec::sb_open_parts), ("DryocSecretBox<[u8],Vec>::from_parts+decrypt", arrvec::sb_open_parts),
                                           ("VecBox::with_data_and_mac+decrypt", o_sb_with_data_and_mac)],
        ("box", "open_easy") => vec![("dryoc crypto_box_open_easy", d_box_open_easy), ("dryoc crypto_box_open_easy (buffer of the genuine length)", d_box_open_easy_g), ("sodium crypto_box_open_easy", so_box_open_easy), ("sodium crypto_box_open_easy_afternm", so_box_open_easy_afternm)],
        ("box", "open_detached") => vec![("dryoc crypto_box_open_detached", d_box_open_detached), ("dryoc crypto_box_open_detached (buffer of the genuine length)", d_box_open_detached_g), ("dryoc crypto_box_open_detached_inplace", d_box_open_detached_inplace),
                                         ("dryoc crypto_box_open_detached_afternm", d_box_open_detached_afternm), ("dryoc crypto_box_open_detached_afternm (buffer of the genuine length)", d_box_open_detached_afternm_g), ("dryoc crypto_box_open_detached_afternm_inplace", d_box_open_detached_afternm_inplace),
                                         ("sodium crypto_box_open_detached", so_box_open_detached), ("sodium crypto_box_open_detached_afternm", so_box_open_detached_afternm)],
        ("box", "open_easy_inplace") => vec![("dryoc crypto_box_open_easy_inplace", d_box_open_easy_inplace), ("dryoc crypto_box_open_easy_inplace (after a rejected attempt on the same buffer)", d_box_open_easy_inplace_retry)],
        ("box", "obj_from_bytes") => vec![("VecBox::from_bytes+decrypt_to_vec", o_db_from_bytes), ("VecBox::from_bytes+precalc_decrypt_to_vec", o_db_from_bytes_precalc)],
        ("box", "obj_parts") => vec![("DryocBox<Stack,Vec>::from_parts+decrypt", stackvec::db_open_parts), ("DryocBox<[u8],Vec>::from_parts+decrypt", arrvec::db_open_parts),
                                     ("DryocBox<Stack,Vec>::from_parts+precalc_decrypt", stackvec::db_open_parts_precalc), ("VecBox::new_with_data_and_mac+decrypt", o_db_with_data_and_mac)],
        ("seal", "seal_open") => vec![("dryoc crypto_box_seal_open", d_seal_open), ("dryoc crypto_box_seal_open (buffer of the genuine length)", d_seal_open_g), ("sodium crypto_box_seal_open", so_seal_open), ("sodium open_easy on c[32..] with nonce=BLAKE2b(epk||rpk)", so_seal_open_by_parts)],
        ("seal", "obj_unseal") => vec![("VecBox::from_sealed_bytes+unseal_to_vec", o_db_from_sealed_bytes), ("VecBox::new_with_epk_data_and_mac+unseal", o_db_with_epk),
                                       ("DryocBox<Stack,Vec>::from_parts+unseal", stackvec::db_unseal_parts), ("DryocBox<[u8],Vec>::from_parts+unseal", arrvec::db_unseal_parts)],
        _ => vec![],
    };
    #[cfg(feature = "nightly")]
    match (cons, u) {
        ("secretbox", "obj_parts") => { r.push(("DryocSecretBox<Heap,HeapBytes>::from_parts+decrypt", heap::sb_open_parts)); r.push(("DryocSecretBox<Locked,LockedBytes>::from_parts+decrypt", locked::sb_open_parts)); }
        ("box", "obj_parts") => { r.push(("DryocBox<Heap,HeapBytes>::from_parts+decrypt", heap::db_open_parts)); r.push(("DryocBox<Heap,HeapBytes>::from_parts+precalc_decrypt", heap::db_open_parts_precalc));
                                  r.push(("DryocBox<Locked,LockedBytes>::from_parts+decrypt", locked::db_open_parts)); r.push(("DryocBox<Locked,LockedBytes>::from_parts+precalc_decrypt", locked::db_open_parts_precalc));
                                  r.push(("PrecalcSecretKey::precalculate_locked+precalc_decrypt", lockedpre::open_precalc_locked));
                                  r.push(("PrecalcSecretKey::precalculate_readonly_locked+precalc_decrypt", lockedpre::open_precalc_ro_locked)); }
        ("seal", "obj_unseal") => { r.push(("DryocBox<Heap,HeapBytes>::from_parts+unseal", heap::db_unseal_parts)); r.push(("DryocBox<Locked,LockedBytes>::from_parts+unseal", locked::db_unseal_parts)); }
        _ => {}
    }
    r.retain(|_| true);
    r
}

fn canonical(cons: &str, o: &Ops) -> Vec<u8> {
    match cons {
        "secretbox" => so_sb_easy(o).unwrap(),
        "box" => so_box_easy(o).unwrap(),
        _ => so_seal(o).unwrap(),
    }
}

fn lengths(lmax: usize, big: bool) -> Vec<usize> {
    let mut v: Vec<usize> = (0..=lmax).collect();
    if big { v.extend_from_slice(&[1024, 4079, 4095, 4096, 4097, 4112, 8191, 8192, 8193, 65535, 65536, 65537]); }
    v
}

/// `aead-roundtrip <cases.ndjson> <out.json> <seed> <Lmax> <big 0|1> <first> <stride>` (C01)
/// For every (construction, encrypt variant, open variant) triple of the spec's untampered rows and every
/// length: every implementation of the encrypt variant x every implementation of the open variant.
pub fn cmd_roundtrip(args: &[String]) {
    let seed: u64 = args[2].parse().unwrap();
    let lmax: usize = args[3].parse().unwrap();
    let big = args[4] == "1";
    let first: usize = args[5].parse().unwrap();
    let stride: usize = args[6].parse().unwrap();
    let mut triples: std::collections::BTreeSet<(String, String, String)> = Default::default();
    for line in std::io::BufReader::new(std::fs::File::open(&args[0]).unwrap()).lines() {
        let c: Value = serde_json::from_str(&line.unwrap()).unwrap();
        if c["fault"] == "none" {
            if c["res"] != "Ok" { panic!("spec says an untampered case is not Ok"); }
            triples.insert((c["cons"].as_str().unwrap().into(), c["enc"].as_str().unwrap().into(), c["open"].as_str().unwrap().into()));
        }
    }
    let mut rep = Report::new();
    let mut rng = Rng::new(seed);
    // "all key pairs derived from any seed": the pair every route derives is the one libsodium's construction defines
    // (sk = SHA-512(seed)[..32], pk = sk * base), with the secret half in the secret field
    if first == 0 {
        for n in (0..=40usize).chain([64, 128]) {
            let sd = rng.bytes(n);
            let mut h = [0u8; 64];
            let mut want_pk = [0u8; 32];
            unsafe { so::crypto_hash_sha512(h.as_mut_ptr(), sd.as_ptr(), sd.len() as u64); so::crypto_scalarmult_base(want_pk.as_mut_ptr(), h.as_ptr()); }
            let want = (want_pk.to_vec(), h[..32].to_vec());
            let mut routes: Vec<(&str, (Vec<u8>, Vec<u8>))> = vec![];
            let (p, k) = cb::crypto_box_seed_keypair(&sd); routes.push(("crypto_box_seed_keypair", (p.to_vec(), k.to_vec())));
            let kp: dryoc::dryocbox::KeyPair = KeyPair::from_seed(&sd); routes.push(("KeyPair<Stack>::from_seed", (kp.public_key.to_vec(), kp.secret_key.to_vec())));
            let kp: KeyPair<[u8; 32], [u8; 32]> = KeyPair::from_seed(&sd); routes.push(("KeyPair<[u8;32]>::from_seed", (kp.public_key.to_vec(), kp.secret_key.to_vec())));
            for (name, got) in routes {
                rep.evaluations += 1;
                if got != want { rep.fail(&format!("{}: the key pair derived from a seed is not the one libsodium's construction defines", name), json!({"seed_len": n, "public_key": hex(&got.0), "expected_public_key": hex(&want.0), "secret_matches": got.1 == want.1})); }
            }
        }
    }
    for (ti, (cons, encv, openv)) in triples.iter().enumerate() {
        let encs = enc_impls(cons, encv);
        let opens = open_impls(cons, openv);
        if encs.is_empty() || opens.is_empty() {
            rep.fail("HARNESS: spec variant without an implementation", json!({"cons": cons, "enc": encv, "open": openv}));
            continue;
        }
        for (li, &len) in lengths(lmax, big).iter().enumerate() {
            let ops = mk_ops(&mut rng, len);
            if (ti * 7 + li) % stride != first { continue; }
            rep.case(&format!("{}|{}|{}|{}", cons, encv, openv, len));
            let canon = if cons == "seal" { vec![] } else { canonical(cons, &ops) };
            for (en, ef) in encs.iter() {
                let w = match catch(|| ef(&ops)) {
                    Ok(Ok(w)) => w,
                    Ok(Err(e)) => { rep.fail(&format!("{}: encryption returned an error", en), json!({"len": len, "err": e, "seed": seed})); continue; }
                    Err(p) => { rep.fail(&format!("{}: encryption panicked", en), json!({"len": len, "panic": p, "seed": seed})); continue; }
                };
                rep.evaluations += 1;
                if cons != "seal" && w != canon {
                    let first = w.iter().zip(canon.iter()).position(|(a, b)| a != b);
                    rep.fail(&format!("{}: bytes differ from libsodium", en), json!({"len": len, "seed": seed, "first_difference_at": first, "got_len": w.len(), "want_len": canon.len()}));
                    continue;
                }
                if cons == "seal" && w.len() != len + SEAL {
                    rep.fail(&format!("{}: sealed length differs", en), json!({"len": len, "got_len": w.len()}));
                    continue;
                }
                for (on, of) in opens.iter() {
                    rep.evaluations += 1;
                    match catch(|| of(&ops, &w)) {
                        Ok(r) => {
                            if !r.ok || r.msg != ops.msg {
                                rep.fail(&format!("{} -> {}: does not return the message", en, on), json!({"len": len, "seed": seed, "opened_ok": r.ok}));
                            }
                        }
                        Err(p) => rep.fail(&format!("{} -> {}: open panicked", en, on), json!({"len": len, "seed": seed, "panic": p})),
                    }
                }
            }
            // history independence: the same entry point called for parties that share a key with the previous call
            // (two senders to one recipient, one sender to two recipients, the same parties again) - whatever an
            // implementation keeps between calls must not leak into the next result
            if (len == 0 || len == 33) && cons != "secretbox" {
                let fixpre = |o: &mut Ops| unsafe {
                    so::crypto_box_beforenm(o.pre_s.as_mut_ptr(), o.rpk.as_ptr(), o.ssk.as_ptr());
                    so::crypto_box_beforenm(o.pre_r.as_mut_ptr(), o.spk.as_ptr(), o.rsk.as_ptr());
                };
                let a = ops.clone();
                let mut b = mk_ops(&mut rng, len); b.rpk = a.rpk; b.rsk = a.rsk; b.nonce = a.nonce; fixpre(&mut b);      // another sender, same recipient
                let mut c = mk_ops(&mut rng, len); c.spk = a.spk; c.ssk = a.ssk; c.nonce = a.nonce; fixpre(&mut c);      // same sender, another recipient
                let order: [(&str, &Ops); 5] = [("A", &a), ("B (another sender, same recipient)", &b), ("A again", &a), ("C (same sender, another recipient)", &c), ("B again", &b)];
                for (en, ef) in encs.iter() {
                    if en.starts_with("sodium") { continue; }
                    let mut wires: Vec<Vec<u8>> = vec![];
                    for (who, o) in order.iter() {
                        rep.evaluations += 1;
                        match catch(|| ef(o)) {
                            Ok(Ok(w)) => {
                                if cons != "seal" && w != canonical(cons, o) { rep.fail(&format!("{}: bytes differ from libsodium when the previous call shared a key with this one", en), json!({"len": len, "call": who, "seed": seed})); }
                                wires.push(w);
                            }
                            _ => { rep.fail(&format!("{}: encryption failed in a sequence of calls", en), json!({"len": len, "call": who})); wires.push(vec![]); }
                        }
                    }
                    // opened in another order than they were made
                    for (on, of) in opens.iter() {
                        if on.starts_with("sodium") && cons != "seal" { continue; }
                        for &k in [1usize, 0, 3, 2, 4].iter() {
                            if wires[k].is_empty() { continue; }
                            rep.evaluations += 1;
                            match catch(|| of(order[k].1, &wires[k])) {
                                Ok(r) => if !r.ok || r.msg != order[k].1.msg { rep.fail(&format!("{} -> {}: does not return the message when the previous call shared a key with this one", en, on), json!({"len": len, "call": order[k].0, "seed": seed})); },
                                Err(p) => rep.fail(&format!("{} -> {}: open panicked", en, on), json!({"len": len, "panic": p})),
                            }
                        }
                    }
                }
            }
            if ti == 0 && len == 17 { rep.sample(json!({"cons": cons, "enc": encs.iter().map(|e| e.0).collect::<Vec<_>>(), "open": opens.iter().map(|e| e.0).collect::<Vec<_>>(), "len": len})); }
        }
    }
    rep.add("triples", triples.len() as u64);
    rep.write(&args[1]);
}

/// `aead-tamper <cases.ndjson> <out.json> <seed> <Lmax> <first> <stride>` (C02 + C17)
/// For every (construction, open variant, fault kind) row of the spec and every length 0..=Lmax: the fault
/// at EVERY position of its component (every bit; every truncation; extensions 1..=40).
pub fn cmd_tamper(args: &[String]) {
    let seed: u64 = args[2].parse().unwrap();
    let lmax: usize = args[3].parse().unwrap();
    let first: usize = args[4].parse().unwrap();
    let stride: usize = args[5].parse().unwrap();
    let mut rows: std::collections::BTreeSet<(String, String, String)> = Default::default();
    let mut err_texts: std::collections::HashMap<(String, usize, usize), std::collections::HashSet<String>> = Default::default();
    for line in std::io::BufReader::new(std::fs::File::open(&args[0]).unwrap()).lines() {
        let c: Value = serde_json::from_str(&line.unwrap()).unwrap();
        let f = c["fault"].as_str().unwrap();
        let want = if f == "none" { "Ok" } else { "Err" };
        if c["res"] != want { panic!("spec row contradicts C02: {}", c); }
        rows.insert((c["cons"].as_str().unwrap().into(), c["open"].as_str().unwrap().into(), f.into()));
    }
    let mut rep = Report::new();
    let mut rng = Rng::new(seed ^ 0x5151);
    let mut idx = 0usize;
    for (cons, openv, fault) in rows.iter() {
        let opens = open_impls(cons, openv);
        if opens.is_empty() {
            rep.fail("HARNESS: spec variant without an implementation", json!({"cons": cons, "open": openv}));
            continue;
        }
        let hdr = if cons == "seal" { PKB } else { 0 };
        let detached = openv == "open_detached" || openv == "obj_parts";
        // every length up to lmax, then lengths around the 4 KiB / 8 KiB / 64 KiB marks with a thinned fault family
        // (first, middle and last position of each component): chunked or paged code paths start there
        let big: [usize; 12] = [4079, 4080, 4095, 4096, 4097, 4111, 4112, 4113, 8191, 8192, 8193, 65537];
        for len in (0..=lmax).chain(big.iter().copied()) {
            let thin = len > lmax;
            let ops = mk_ops(&mut rng, len);
            idx += 1;
            if idx % stride != first { continue; }
            let w = canonical(cons, &ops);
            rep.case(&format!("{}|{}|{}|{}", cons, openv, fault, len));
            // the family of corrupted presentations for this fault kind
            let mut fam: Vec<(Ops, Vec<u8>, String)> = vec![];
            let flip_range = |lo: usize, hi: usize, fam: &mut Vec<(Ops, Vec<u8>, String)>, what: &str| {
                for byte in lo..hi { for bit in 0..8 {
                    if thin && !((byte == lo || byte + 1 == hi || byte == (lo + hi) / 2) && bit == (byte % 8)) { continue; }
                    let mut c = w.clone();
                    c[byte] ^= 1 << bit;
                    fam.push((ops.clone(), c, format!("{} byte {} bit {}", what, byte, bit)));
                } }
            };
            match fault.as_str() {
                "none" => fam.push((ops.clone(), w.clone(), "untampered".into())),
                "flip_tag" => flip_range(hdr, hdr + MAC, &mut fam, "tag"),
                "flip_body" => flip_range(hdr + MAC, w.len(), &mut fam, "body"),
                "flip_epk" => flip_range(0, PKB, &mut fam, "ephemeral public key"),
                "flip_nonce" => for byte in 0..24 { for bit in 0..8 {
                    if thin && !(byte % 11 == 0 && bit == 3) { continue; }
                    let mut o2 = ops.clone(); o2.nonce[byte] ^= 1 << bit;
                    fam.push((o2, w.clone(), format!("nonce byte {} bit {}", byte, bit)));
                } },
                "flip_key" => for byte in 0..32 { for bit in 0..8 {
                    if thin && !(byte % 13 == 0 && bit == 5) { continue; }
                    let mut o2 = ops.clone();
                    // the symmetric key: the secretbox key, or the precomputed key of a box; for the opens that derive the key
                    // themselves, the recipient's secret key (bits that clamping discards are left alone: they denote the same key)
                    o2.key[byte] ^= 1 << bit; o2.pre_r[byte] ^= 1 << bit;
                    let clamped_away = (byte == 0 && bit < 3) || (byte == 31 && bit >= 6);
                    if cons != "secretbox" && clamped_away { continue; }
                    o2.rsk[byte] ^= 1 << bit;
                    fam.push((o2, w.clone(), format!("key byte {} bit {}", byte, bit)));
                } },
                "truncate" => for n in 1..=w.len() { if thin && ![1usize, 15, 16, 17, w.len() / 2, w.len() - MAC, w.len()].contains(&n) { continue; } fam.push((ops.clone(), w[..w.len() - n].to_vec(), format!("truncated by {}", n))); },
                "extend" => for n in 1..=40usize { if thin && n != 1 && n != 16 { continue; } let mut c = w.clone(); c.extend(rng.bytes(n)); fam.push((ops.clone(), c, format!("extended by {}", n))); },
                other => { rep.fail("HARNESS: unknown fault kind", json!(other)); }
            }
            for (o2, c, how) in fam.iter() {
                if detached && c.len() < MAC { continue; }           // the tag is a fixed-length array there
                for (on, of) in opens.iter() {
                    rep.evaluations += 1;
                    // now and then the genuine box is opened first: whatever an implementation remembers from an accepted open
                    // (a shared key, a peer) must not make it accept the tampered one that follows
                    if fault != "none" && rep.evaluations % 4 == 0 { let _ = catch(|| of(&ops, &w)); }
                    take_err();
                    match catch(|| of(o2, c)) {
                        Ok(r) => {
                            // C17: the error value of a rejected open carries nothing derived from the ciphertext - over all the
                            // corruptions of one length presented to one entry point it takes a handful of values, not one per ciphertext
                            if let (false, Some(t)) = (r.ok, take_err()) {
                                let set = err_texts.entry((on.to_string(), len, c.len())).or_insert_with(std::collections::HashSet::new);
                                set.insert(t.clone());
                                if set.len() == 4 {
                                    rep.fail(&format!("C17 {}: the error value of a rejected open varies with the rejected ciphertext", on), json!({"len": len, "wire_len": c.len(), "texts": set.iter().take(4).collect::<Vec<_>>(), "seed": seed}));
                                }
                            }
                            if fault == "none" {
                                if !r.ok || r.msg != ops.msg { rep.fail(&format!("C02 {}: untampered input rejected", on), json!({"len": len, "seed": seed})); }
                            } else {
                                if r.ok {
                                    rep.fail(&format!("C02 {}: accepts a ciphertext with {}", on, fault), json!({"len": len, "how": how, "seed": seed}));
                                }
                                if let Some(l) = r.leak {
                                    rep.fail(&format!("C17 {}: output buffer modified by a rejected open", on), json!({"len": len, "how": how, "leak": l, "fault": fault, "seed": seed}));
                                }
                            }
                        }
                        Err(p) => rep.fail(&format!("C02 {}: panicked on {}", on, fault), json!({"len": len, "how": how, "panic": p, "seed": seed})),
                    }
                }
            }
            if len == 3 && fault == "flip_tag" { rep.sample(json!({"cons": cons, "open": openv, "fault": fault, "len": len, "presentations": fam.len(), "first": fam.first().map(|f| f.2.clone())})); }
        }
    }
    // Aead.tla fault "extend"/"truncate" where the tag has a container of its own: the object API takes any ByteArray<16> for
    // the tag, and a Vec has no fixed length - a genuine tag followed by further bytes, or cut short, is a changed ciphertext
    if first == 0 {
        use dryoc::classic::{crypto_box as cbx, crypto_secretbox as csbx};
        for len in [0usize, 1, 33] {
            let (key, nonce, msg): ([u8; 32], [u8; 24], Vec<u8>) = (rng.arr(), rng.arr(), rng.bytes(len));
            let (rpk, rsk) = cbx::crypto_box_keypair();
            let (spk, ssk) = cbx::crypto_box_keypair();
            let (mut c1, mut t1, mut c2, mut t2) = (vec![0u8; len], [0u8; 16], vec![0u8; len], [0u8; 16]);
            csbx::crypto_secretbox_detached(&mut c1, &mut t1, &msg, &nonce, &key);
            cbx::crypto_box_detached(&mut c2, &mut t2, &msg, &nonce, &rpk, &ssk);
            let pre = cbx::crypto_box_beforenm(&spk, &rsk);
            for delta in [-16i32, -1, 0, 1, 2, 16, 17] {
                let vt = |t: &[u8; 16], r: &mut Rng| -> Vec<u8> { let mut v = t.to_vec(); if delta < 0 { v.truncate((16 + delta) as usize); } else { v.extend(r.bytes(delta as usize)); } v };
                let (v1, v2) = (vt(&t1, &mut rng), vt(&t2, &mut rng));
                let runs: Vec<(&str, Result<bool, String>)> = vec![
                    ("DryocSecretBox<Vec,Vec>::from_parts+decrypt", catch(|| { let b: DryocSecretBox<Vec<u8>, Vec<u8>> = DryocSecretBox::from_parts(v1.clone(), c1.clone()); let r: Result<Vec<u8>, _> = b.decrypt(&nonce, &key); r.map(|m| m == msg).unwrap_or(false) })),
                    ("DryocSecretBox<Vec,Vec>::from_parts+decrypt into a StackByteArray key holder", catch(|| { let b: DryocSecretBox<Vec<u8>, Vec<u8>> = DryocSecretBox::from_parts(v1.clone(), c1.clone()); let r: Result<Vec<u8>, _> = b.decrypt(&StackByteArray::from(&nonce), &S32::from(&key)); r.map(|m| m == msg).unwrap_or(false) })),
                    ("DryocBox<Stack,Vec,Vec>::from_parts+decrypt", catch(|| { let b: DryocBox<S32, Vec<u8>, Vec<u8>> = DryocBox::from_parts(v2.clone(), c2.clone(), None); let r: Result<Vec<u8>, _> = b.decrypt(&nonce, &spk, &rsk); r.map(|m| m == msg).unwrap_or(false) })),
                    ("DryocBox<Stack,Vec,Vec>::from_parts+precalc_decrypt", catch(|| { let b: DryocBox<S32, Vec<u8>, Vec<u8>> = DryocBox::from_parts(v2.clone(), c2.clone(), None); let r: Result<Vec<u8>, _> = b.precalc_decrypt(&nonce, &pre); r.map(|m| m == msg).unwrap_or(false) })),
                ];
                for (on, r) in runs {
                    rep.evaluations += 1;
                    match r {
                        Ok(opened) => if opened != (delta == 0) {
                            if delta == 0 { rep.fail(&format!("C02 {}: untampered input rejected", on), json!({"len": len, "seed": seed})); }
                            else { rep.fail(&format!("C02 {}: accepts a ciphertext whose tag (held in a Vec) is {} by {} bytes", on, if delta < 0 { "truncated" } else { "extended" }, delta.abs()), json!({"len": len, "seed": seed})); }
                        },
                        Err(p) => rep.fail(&format!("C02 {}: panicked on a tag of {} bytes held in a Vec", on, 16 + delta), json!({"len": len, "panic": p, "seed": seed})),
                    }
                }
            }
        }
    }
    rep.add("rows", rows.len() as u64);
    rep.write(&args[1]);
}

/// fixed operands for vector files (secretbox with the TLA+ reference's key / nonce / message)
pub fn mk_ops_fixed(key: &[u8; 32], nonce: &[u8], msg: &[u8]) -> Ops {
    let mut rng = Rng::new(7);
    let mut o = mk_ops(&mut rng, 0);
    o.key = *key;
    o.nonce.copy_from_slice(&nonce[..24]);
    o.msg = msg.to_vec();
    o
}
/// every dryoc route to a secretbox ciphertext, and libsodium's
pub fn secretbox_impls(o: &Ops) -> (Vec<(String, Result<Vec<u8>, String>)>, Option<Vec<u8>>) {
    let mut v = vec![];
    for var in ["easy", "detached", "easy_inplace", "obj_to_bytes", "obj_into_vec", "obj_parts"] {
        for (name, f) in enc_impls("secretbox", var) {
            if name.starts_with("sodium") { continue; }
            v.push((name.to_string(), f(o)));
        }
    }
    (v, so_sb_easy(o).ok())
}


/// `aead-vectors <vectors.json> <out.json>` (C01): crafted (key, nonce, message) triples - e.g. those of tools/polycraft.py, whose
/// Poly1305 run passes through rare accumulator states - through every secretbox route and every precomputed-key box
/// route (the precomputed key IS the secretbox key), against the expected box and libsodium, and opened by every route.
pub fn cmd_vectors(args: &[String]) {
    let vecs: Value = serde_json::from_str(&std::fs::read_to_string(&args[0]).unwrap()).unwrap();
    let mut rep = Report::new();
    let mut rng = Rng::new(11);
    let b = |v: &Value| -> Vec<u8> { v.as_array().unwrap().iter().map(|x| x.as_u64().unwrap() as u8).collect() };
    for v in vecs.as_array().unwrap() {
        let (key, nonce, msg, want) = (b(&v["key"]), b(&v["nonce"]), b(&v["msg"]), b(&v["box"]));
        let mut o = mk_ops(&mut rng, 0);
        o.key.copy_from_slice(&key); o.nonce.copy_from_slice(&nonce); o.msg = msg.clone();
        o.pre_s = o.key; o.pre_r = o.key;
        let d = json!({"target": v["target"], "blocks_before": v["blocks_before"], "tail": v["tail"], "len": msg.len()});
        rep.case(&format!("{}|{}|{}", v["target"], v["blocks_before"], v["tail"]));
        // libsodium agrees with the crafted expectation (else the vector itself is wrong)
        match so_sb_easy(&o) { Ok(c) if c == want => {}, _ => { rep.fail("HARNESS: crafted vector differs from libsodium", d.clone()); continue; } }
        let mut routes: Vec<(String, Result<Vec<u8>, String>)> = vec![];
        for var in ["easy", "detached", "easy_inplace", "obj_to_bytes", "obj_into_vec", "obj_parts"] {
            for (name, f) in enc_impls("secretbox", var) { if !name.starts_with("sodium") { routes.push((name.to_string(), f(&o))); } }
        }
        // precomputed-key box routes keyed directly with the same 32 bytes
        routes.push(("crypto_box_detached_afternm".into(), { let mut c = vec![0u8; msg.len()]; let mut mac = [0u8; 16]; cb::crypto_box_detached_afternm(&mut c, &mut mac, &msg, &o.nonce, &o.key); Ok([&mac[..], &c[..]].concat()) }));
        routes.push(("crypto_box_detached_afternm_inplace".into(), { let mut c = msg.clone(); let mut mac = [0u8; 16]; cb::crypto_box_detached_afternm_inplace(&mut c, &mut mac, &o.nonce, &o.key); Ok([&mac[..], &c[..]].concat()) }));
        routes.push(("DryocBox::precalc_encrypt".into(), { let r: Result<DryocBox<S32, S16, Vec<u8>>, _> = DryocBox::precalc_encrypt(&msg, &S24::from(&o.nonce), &S32::from(&o.key)); r.map(|b| b.to_vec()).map_err(es) }));
        for (name, got) in routes {
            rep.evaluations += 1;
            match got {
                Ok(g) => if g != want { rep.fail(&format!("{}: bytes differ from libsodium on a crafted Poly1305 corner", name), d.clone()); },
                Err(e) => rep.fail(&format!("{}: failed on a crafted Poly1305 corner", name), json!({"d": d, "err": e})),
            }
        }
        for u in ["open_easy", "open_detached", "open_easy_inplace", "obj_from_bytes", "obj_parts"] {
            for (name, f) in open_impls("secretbox", u) {
                if name.starts_with("sodium") { continue; }
                rep.evaluations += 1;
                match catch(|| f(&o, &want)) {
                    Ok(r) => if !r.ok || r.msg != msg { rep.fail(&format!("{}: does not open a box whose Poly1305 run passes a corner", name), d.clone()); },
                    Err(p) => rep.fail(&format!("{}: panicked", name), json!({"d": d, "panic": p})),
                }
            }
        }
        { // precomputed-key opens
            rep.evaluations += 2;
            let mut m = vec![0u8; msg.len()];
            if cb::crypto_box_open_detached_afternm(&mut m, &arr16(&want), &want[MAC..], &o.nonce, &o.key).is_err() || m != msg { rep.fail("crypto_box_open_detached_afternm: does not open a box whose Poly1305 run passes a corner", d.clone()); }
            let bx: DryocBox<S32, S16, Vec<u8>> = DryocBox::from_parts(S16::from(&arr16(&want)), want[MAC..].to_vec(), None);
            let r: Result<Vec<u8>, _> = bx.precalc_decrypt(&S24::from(&o.nonce), &S32::from(&o.key));
            if r.ok() != Some(msg.clone()) { rep.fail("DryocBox::precalc_decrypt: does not open a box whose Poly1305 run passes a corner", d.clone()); }
        }
    }
    rep.write(&args[1]);
}
