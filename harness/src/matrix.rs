//! C18: a deterministic transcript of every operation family of Matrix.tla; the three builds must produce the
//! same transcript, and within a build every container type must yield the same bytes.
use crate::common::*;
use crate::prims;
use dryoc::classic::{crypto_box as cb, crypto_kx as ckx, crypto_sign as csg};
use dryoc::types::*;
use libsodium_sys as so;
use serde_json::json;
use std::io::Write;

fn emit(out: &mut impl Write, rep: &mut Report, id: String, impls: Vec<(String, Result<Vec<u8>, String>)>) {
    rep.evaluations += impls.len() as u64;
    rep.case(&id);
    let mut first: Option<Vec<u8>> = None;
    for (name, r) in impls {
        match r {
            Ok(v) => match &first {
                None => first = Some(v),
                Some(f) => if *f != v { rep.fail(&format!("{}: differs from the other routes/containers within one build", name), json!({"case": id})); },
            },
            Err(e) => rep.fail(&format!("{}: failed", name), json!({"case": id, "error": e})),
        }
    }
    if let Some(f) = first { writeln!(out, "{} {}", id, hex(&f)).unwrap(); }
}

/// `transcript <out.txt> <report.json> <seed> <maxlen>`
#[cfg(feature = "nightly")]
type DryocBoxHeap = dryoc::dryocbox::DryocBox<dryoc::protected::HeapByteArray<32>, dryoc::protected::HeapByteArray<16>, dryoc::protected::HeapBytes>;

pub fn cmd_transcript(args: &[String]) {
    let seed: u64 = args[2].parse().unwrap();
    let maxlen: usize = args[3].parse().unwrap();
    let mut out = std::io::BufWriter::new(std::fs::File::create(&args[0]).unwrap());
    let mut rep = Report::new();
    let mut rng = Rng::new(seed ^ 0xc18);
    let gk = rng.bytes(64);
    let k32: [u8; 32] = rng.arr();
    for len in (0..=maxlen).chain([4095usize, 4096, 4097, 8192, 8193, 65536, 65537].iter().copied()) {
        let msg = rng.bytes(len);
        for (ol, kl) in [(32usize, 0usize), (64, 64), (16, 16), (32, 32)] {
            let (mut im, _) = prims::generichash(&msg, &gk[..kl], ol);
            #[cfg(feature = "nightly")]
            if ol == 32 && kl == 32 {
                use dryoc::protected::*;
                let key = HeapByteArray::<32>::try_from(&gk[..32]).unwrap();
                im.push(("GenericHash -> HeapByteArray".into(), dryoc::generichash::GenericHash::<32, 32>::hash::<_, _, HeapByteArray<32>>(&msg, Some(&key)).map(|o| o.as_slice().to_vec()).map_err(|e| format!("{:?}", e))));
                im.push(("GenericHash -> Locked".into(), dryoc::generichash::GenericHash::<32, 32>::hash::<_, _, Locked<HeapByteArray<32>>>(&msg, Some(&key)).map(|o| o.as_slice().to_vec()).map_err(|e| format!("{:?}", e))));
            }
            im.push(("GenericHash -> StackByteArray (dummy)".into(), im[0].1.clone()));
            emit(&mut out, &mut rep, format!("generichash len={} out={} key={}", len, ol, kl), im);
        }
        // incremental: three updates cut at pseudo-random places (the SIMD backend has its own buffering)
        let (a, b) = { let a = rng.below(len as u64 + 1) as usize; let b = a + rng.below((len - a) as u64 + 1) as usize; (a, b) };
        let inc = { use dryoc::classic::crypto_generichash as cg; let mut st = cg::crypto_generichash_init(Some(&k32), 64).unwrap(); cg::crypto_generichash_update(&mut st, &msg[..a]); cg::crypto_generichash_update(&mut st, &msg[a..b]); cg::crypto_generichash_update(&mut st, &msg[b..]); let mut o = vec![0u8; 64]; cg::crypto_generichash_final(st, &mut o).unwrap(); o };
        let (one, _) = prims::generichash(&msg, &k32, 64);
        emit(&mut out, &mut rep, format!("generichash_incremental len={} cuts={},{}", len, a, b), vec![("incremental".into(), Ok(inc)), one[0].clone()]);
        let (im, _) = prims::sha512(&msg); emit(&mut out, &mut rep, format!("sha512 len={}", len), im);
        let (im, _) = prims::auth(&k32, &msg); emit(&mut out, &mut rep, format!("auth len={}", len), im);
        if len % 8 == 0 {
            let seedk: [u8; 32] = rng.arr();
            let (_pk, sk) = csg::crypto_sign_seed_keypair(&seedk);
            let mut sig = [0u8; 64];
            csg::crypto_sign_detached(&mut sig, &msg, &sk).unwrap();
            let mut st = csg::crypto_sign_init(); csg::crypto_sign_update(&mut st, &msg); let mut sph = [0u8; 64]; csg::crypto_sign_final_create(st, &mut sph, &sk).unwrap();
            let mut sim: Vec<(String, Result<Vec<u8>, String>)> = vec![("crypto_sign_detached".into(), Ok(sig.to_vec()))];
            {
                let kp: dryoc::sign::SigningKeyPair<dryoc::types::StackByteArray<32>, dryoc::types::StackByteArray<64>> = dryoc::sign::SigningKeyPair::from_seed(&seedk);
                sim.push(("SigningKeyPair<Stack>::sign_with_defaults".into(), kp.sign_with_defaults(msg.clone()).map(|s| { let (sg, _m) = s.into_parts(); sg.as_slice().to_vec() }).map_err(|e| format!("{:?}", e))));
            }
            #[cfg(feature = "nightly")]
            {
                use dryoc::protected::*;
                let kp: dryoc::sign::protected::LockedSigningKeyPair = dryoc::sign::SigningKeyPair::from_seed(&seedk);
                sim.push(("LockedSigningKeyPair::sign -> Locked signature, HeapBytes message".into(),
                    kp.sign::<Locked<HeapByteArray<64>>, HeapBytes>(HeapBytes::from(&msg[..])).map(|s| { let (sg, _m) = s.into_parts(); sg.as_slice().to_vec() }).map_err(|e| format!("{:?}", e))));
            }
            emit(&mut out, &mut rep, format!("sign len={}", len), sim);
            emit(&mut out, &mut rep, format!("sign_ph len={}", len), vec![("crypto_sign_final_create".into(), Ok(sph.to_vec()))]);
        }
    }
    for i in 0..400u64 {
        let id = [0u64, 1, 1 << 32, u64::MAX][(i % 4) as usize].wrapping_add(i / 4);
        let len = 16 + (i as usize) % 49;
        let ctx: [u8; 8] = rng.arr();
        let (mut im, _) = prims::kdf(len, id, &ctx, &k32);
        #[cfg(feature = "nightly")]
        if len == 32 {
            use dryoc::protected::*;
            let k: dryoc::kdf::Kdf<HeapByteArray<32>, HeapByteArray<8>> = dryoc::kdf::Kdf::from_parts(HeapByteArray::<32>::try_from(&k32[..]).unwrap(), HeapByteArray::<8>::try_from(&ctx[..]).unwrap());
            im.push(("Kdf<Heap>::derive_subkey -> Locked".into(), k.derive_subkey::<Locked<HeapByteArray<32>>>(id).map(|o| o.as_slice().to_vec()).map_err(|e| format!("{:?}", e))));
        }
        emit(&mut out, &mut rep, format!("kdf i={} len={}", i, len), im);
        // key exchange, seeded key pairs, scalar multiplication, box
        let s1: [u8; 32] = rng.arr();
        let s2: [u8; 32] = rng.arr();
        let (cpk, csk) = ckx::crypto_kx_seed_keypair(&s1).unwrap();
        let (spk, _ssk) = ckx::crypto_kx_seed_keypair(&s2).unwrap();
        emit(&mut out, &mut rep, format!("kx_seed_keypair i={}", i), vec![("crypto_kx_seed_keypair".into(), Ok([&cpk[..], &csk[..]].concat()))]);
        let (mut rx, mut tx) = ([0u8; 32], [0u8; 32]);
        ckx::crypto_kx_client_session_keys(&mut rx, &mut tx, &cpk, &csk, &spk).unwrap();
        let mut im: Vec<(String, Result<Vec<u8>, String>)> = vec![("crypto_kx_client_session_keys".into(), Ok([&rx[..], &tx[..]].concat()))];
        #[cfg(feature = "nightly")]
        {
            use dryoc::protected::*;
            let kp: dryoc::keypair::KeyPair<HeapByteArray<32>, HeapByteArray<32>> = dryoc::keypair::KeyPair { public_key: HeapByteArray::<32>::try_from(&cpk[..]).unwrap(), secret_key: HeapByteArray::<32>::try_from(&csk[..]).unwrap() };
            let sess: Result<dryoc::kx::Session<Locked<HeapByteArray<32>>>, _> = dryoc::kx::Session::new_client(&kp, &HeapByteArray::<32>::try_from(&spk[..]).unwrap());
            im.push(("Session<Locked>::new_client".into(), sess.map(|s| [s.rx_as_slice(), s.tx_as_slice()].concat()).map_err(|e| format!("{:?}", e))));
        }
        emit(&mut out, &mut rep, format!("kx_session i={}", i), im);
        let (bpk, bsk) = cb::crypto_box_seed_keypair(&rng.bytes((i % 70) as usize));
        emit(&mut out, &mut rep, format!("box_seed_keypair i={}", i), vec![("crypto_box_seed_keypair".into(), Ok([&bpk[..], &bsk[..]].concat()))]);
        let pt: [u8; 32] = rng.arr();
        let (im, _, _) = prims::x25519(&s1, &pt);
        emit(&mut out, &mut rep, format!("scalarmult i={}", i), im);
        // a sealed box made by libsodium opens: the nonce is BLAKE2b(epk || rpk) and the key Curve25519
        let m = rng.bytes((i % 40) as usize);
        let mut c = vec![0u8; m.len() + 48];
        unsafe { so::crypto_box_seal(c.as_mut_ptr(), m.as_ptr(), m.len() as u64, bpk.as_ptr()) };
        let mut o = vec![0u8; m.len()];
        let ok = cb::crypto_box_seal_open(&mut o, &c, &bpk, &bsk).is_ok() && o == m;
        emit(&mut out, &mut rep, format!("sealed_box_nonce i={}", i), vec![("crypto_box_seal_open(libsodium box)".into(), if ok { Ok(vec![1]) } else { Err("does not open".into()) })]);
        let nonce: [u8; 24] = rng.arr();
        let mut bc = vec![0u8; m.len() + 16];
        cb::crypto_box_easy(&mut bc, &m, &nonce, &spk, &bsk).unwrap();
        let mut bim: Vec<(String, Result<Vec<u8>, String>)> = vec![("crypto_box_easy".into(), Ok(bc))];
        {
            use dryoc::types::StackByteArray as S;
            let b: Result<dryoc::dryocbox::VecBox, _> = dryoc::dryocbox::DryocBox::encrypt_to_vecbox(&m, &S::from(&nonce), &S::from(&spk), &S::from(&bsk));
            bim.push(("VecBox::encrypt_to_vecbox".into(), b.map(|b| b.to_vec()).map_err(|e| format!("{:?}", e))));
        }
        // the precomputed key of the same pair, whatever holds it
        let mut pim: Vec<(String, Result<Vec<u8>, String>)> = vec![("crypto_box_beforenm".into(), Ok(cb::crypto_box_beforenm(&spk, &bsk).to_vec()))];
        {
            use dryoc::types::StackByteArray as S;
            pim.push(("PrecalcSecretKey::precalculate (stack)".into(), Ok(dryoc::precalc::PrecalcSecretKey::precalculate(&S::from(&spk), &S::from(&bsk)).as_slice().to_vec())));
            pim.push(("PrecalcSecretKey::precalculate ([u8;32])".into(), Ok(dryoc::precalc::PrecalcSecretKey::precalculate(&spk, &bsk).as_slice().to_vec())));
        }
        #[cfg(feature = "nightly")]
        {
            use dryoc::protected::*;
            let lk = |x: &[u8; 32]| HeapByteArray::<32>::from_slice_into_locked(x).unwrap();
            let ro = |x: &[u8; 32]| HeapByteArray::<32>::from_slice_into_readonly_locked(x).unwrap();
            let hp = |x: &[u8]| HeapByteArray::<32>::try_from(x).unwrap();
            pim.push(("PrecalcSecretKey::precalculate (heap)".into(), Ok(dryoc::precalc::PrecalcSecretKey::precalculate(&hp(&spk), &hp(&bsk)).as_slice().to_vec())));
            pim.push(("PrecalcSecretKey::precalculate_locked".into(), dryoc::precalc::PrecalcSecretKey::precalculate_locked(&lk(&spk), &lk(&bsk)).map(|k| k.as_slice().to_vec()).map_err(|e| e.to_string())));
            pim.push(("PrecalcSecretKey::precalculate_readonly_locked".into(), dryoc::precalc::PrecalcSecretKey::precalculate_readonly_locked(&lk(&spk), &lk(&bsk)).map(|k| k.as_slice().to_vec()).map_err(|e| e.to_string())));
            let mut ppk = [0u8; 32]; dryoc::classic::crypto_core::crypto_scalarmult_base(&mut ppk, &bsk);
            let lkp: dryoc::dryocbox::protected::LockedKeyPair = dryoc::keypair::KeyPair { public_key: lk(&ppk), secret_key: lk(&bsk) };
            pim.push(("KeyPair<Locked>::precalculate_locked".into(), lkp.precalculate_locked(&lk(&spk)).map(|k| k.as_slice().to_vec()).map_err(|e| e.to_string())));
            let rkp: dryoc::dryocbox::protected::LockedROKeyPair = dryoc::keypair::KeyPair { public_key: ro(&ppk), secret_key: ro(&bsk) };
            pim.push(("KeyPair<LockedRO>::precalculate_readonly_locked".into(), rkp.precalculate_readonly_locked(&ro(&spk)).map(|k| k.as_slice().to_vec()).map_err(|e| e.to_string())));
            // the box itself in heap and locked containers
            let n24 = |x: &[u8; 24]| HeapByteArray::<24>::try_from(&x[..]).unwrap();
            let hb: Result<DryocBoxHeap, _> = dryoc::dryocbox::DryocBox::encrypt(&m, &n24(&nonce), &hp(&spk), &hp(&bsk));
            bim.push(("DryocBox<Heap,HeapBytes>::encrypt".into(), hb.map(|b| b.to_vec()).map_err(|e| format!("{:?}", e))));
            let lb: Result<dryoc::dryocbox::protected::LockedBox, _> = dryoc::dryocbox::DryocBox::encrypt(&m, &HeapByteArray::<24>::from_slice_into_locked(&nonce).unwrap(), &lk(&spk), &lk(&bsk));
            bim.push(("LockedBox::encrypt".into(), lb.map(|b| b.to_vec()).map_err(|e| format!("{:?}", e))));
            if let Ok(pre) = dryoc::precalc::PrecalcSecretKey::precalculate_readonly_locked(&lk(&spk), &lk(&bsk)) {
                let pb: Result<dryoc::dryocbox::VecBox, _> = dryoc::dryocbox::DryocBox::precalc_encrypt(&m, &dryoc::types::StackByteArray::from(&nonce), &pre);
                bim.push(("precalculate_readonly_locked + precalc_encrypt".into(), pb.map(|b| b.to_vec()).map_err(|e| format!("{:?}", e))));
            }
        }
        emit(&mut out, &mut rep, format!("precalc i={}", i), pim);
        emit(&mut out, &mut rep, format!("box i={}", i), bim);
    }
    // byte containers behave alike: the same fill / resize / clone sequence leaves the same bytes in every container
    for i in 0..200u64 {
        let l0 = [0usize, 1, 16, 33, 100, 4096, 4097][(i % 7) as usize];
        let l1 = [0usize, 1, 15, 16, 32, 64, 99, 100, 4095, 4097, 8193][(i % 11) as usize];
        let l2 = [5usize, 0, 40, 4096][(i % 4) as usize];
        let data = rng.bytes(l0);
        let mut im: Vec<(String, Result<Vec<u8>, String>)> = vec![];
        im.push(("Vec<u8>".into(), { let mut v = data.clone(); ResizableBytes::resize(&mut v, l1, 0); let c = v.clone(); let mut v = c; ResizableBytes::resize(&mut v, l2, 7); Ok(v) }));
        #[cfg(feature = "nightly")]
        {
            use dryoc::protected::*;
            let run_heap = |lock: u8| -> Result<Vec<u8>, String> {
                match catch(|| -> Result<Vec<u8>, String> {
                    let mut h = HeapBytes::default();
                    h.resize(l0, 0);
                    h.as_mut_slice().copy_from_slice(&data);
                    match lock {
                        0 => { h.resize(l1, 0); let mut c = h.clone(); c.resize(l2, 7); Ok(c.as_slice().to_vec()) }
                        1 => { let mut p = h.mlock().map_err(|e| e.to_string())?; p.resize(l1, 0); let mut c = p.clone(); c.resize(l2, 7); Ok(c.as_slice().to_vec()) }
                        _ => { let p = h.mlock().map_err(|e| e.to_string())?; let mut u = p.munlock().map_err(|e| e.to_string())?; u.resize(l1, 0); let mut c = u.clone(); c.resize(l2, 7); Ok(c.as_slice().to_vec()) }
                    }
                }) { Ok(r) => r, Err(p) => Err(format!("PANIC {}", p)) }
            };
            im.push(("HeapBytes".into(), run_heap(0)));
            im.push(("Locked<HeapBytes>".into(), run_heap(1)));
            im.push(("Unlocked<HeapBytes>".into(), run_heap(2)));
        }
        emit(&mut out, &mut rep, format!("container_resize i={} {}->{}->{}", i, l0, l1, l2), im);
    }
    // a clone holds the bytes of its source in every protection state a clone exists for (read-only ones included), and keeps
    // them after the source is gone
    for i in 0..60u64 {
        let l0 = [0usize, 1, 16, 32, 33, 100, 4096, 4097][(i % 8) as usize];
        let data = rng.bytes(l0);
        let mut im: Vec<(String, Result<Vec<u8>, String>)> = vec![];
        im.push(("Vec<u8>".into(), { let v = data.clone(); let c = v.clone(); drop(v); Ok(c) }));
        #[cfg(feature = "nightly")]
        {
            use dryoc::protected::*;
            let run = |state: u8| -> Result<Vec<u8>, String> {
                match catch(|| -> Result<Vec<u8>, String> {
                    let h = HeapBytes::from(&data[..]);
                    let e = |e: std::io::Error| e.to_string();
                    Ok(match state {
                        0 => { let c = h.clone(); drop(h); c.as_slice().to_vec() }
                        1 => { let p = h.mlock().map_err(e)?; let c = p.clone(); drop(p); c.as_slice().to_vec() }
                        2 => { let p = h.mlock().map_err(e)?.mprotect_readonly().map_err(e)?; let c = p.clone(); drop(p); c.as_slice().to_vec() }
                        3 => { let p = h.mlock().map_err(e)?.munlock().map_err(e)?; let c = p.clone(); drop(p); c.as_slice().to_vec() }
                        4 => { let p = h.mlock().map_err(e)?.munlock().map_err(e)?.mprotect_readonly().map_err(e)?; let c = p.clone(); drop(p); c.as_slice().to_vec() }
                        5 => { let p = HeapBytes::from_slice_into_readonly_locked(&data).map_err(|e| e.to_string())?; let c = p.clone(); let c2 = c.clone(); drop(p); drop(c); c2.as_slice().to_vec() }
                        _ => { let p = h.mlock().map_err(e)?.mprotect_readonly().map_err(e)?; let c = p.clone(); drop(p); let w = c.mprotect_readwrite().map_err(e)?; w.as_slice().to_vec() }
                    })
                }) { Ok(r) => r, Err(p) => Err(format!("PANIC {}", p)) }
            };
            for (st, name) in ["HeapBytes", "Locked<HeapBytes>", "LockedRO<HeapBytes>", "Unlocked<HeapBytes>", "UnlockedRO<HeapBytes>", "from_slice_into_readonly_locked, cloned twice", "LockedRO clone made writable"].iter().enumerate() {
                im.push((name.to_string(), run(st as u8)));
            }
        }
        emit(&mut out, &mut rep, format!("container_clone i={} len={}", i, l0), im);
    }
    // a forked child finds in every container what the parent put there (heap, locked, locked read-only): the container a
    // secret is held in does not decide whether a child process computes with the secret or with zeros
    #[cfg(feature = "nightly")]
    {
        use dryoc::protected::*;
        let key: [u8; 32] = core::array::from_fn(|i| (i as u8).wrapping_mul(37) | 1);
        rep.evaluations += 1;
        let made = catch(|| (HeapByteArray::<32>::from_slice_into_locked(&key).unwrap(), HeapByteArray::<32>::from_slice_into_readonly_locked(&key).unwrap(), HeapBytes::from(&key[..]), HeapBytes::from_slice_into_locked(&key).unwrap()));
        if let Ok((lk, lro, hb, lb)) = made {
            let pid = unsafe { libc::fork() };
            if pid == 0 {
                let same = lk.as_slice() == key && lro.as_slice() == key && hb.as_slice() == key && lb.as_slice() == key;
                unsafe { libc::_exit(if same { 0 } else { 24 }) };
            }
            let mut st = 0;
            unsafe { libc::waitpid(pid, &mut st, 0) };
            if !(libc::WIFEXITED(st) && libc::WEXITSTATUS(st) == 0) { rep.fail("container contents differ in a forked child (heap / locked / locked read-only)", json!({"status": st})); }
        }
    }
    // decoding the same document gives the same verdict and the same bytes whatever container receives them
    for n in [0usize, 1, 16, 31, 32, 33, 64] {
        let elems: Vec<u8> = (0..n).map(|i| (i as u8).wrapping_mul(5) | 1).collect();
        let doc = serde_json::to_string(&elems).unwrap();
        let enc = |r: Result<Vec<u8>, String>| -> Result<Vec<u8>, String> { Ok(match r { Ok(v) => [&[1u8][..], &v[..]].concat(), Err(_) => vec![0u8] }) };
        let mut im: Vec<(String, Result<Vec<u8>, String>)> = vec![];
        im.push(("StackByteArray<32> from a JSON sequence".into(), enc(serde_json::from_str::<dryoc::types::StackByteArray<32>>(&doc).map(|a| a.as_slice().to_vec()).map_err(|e| e.to_string()))));
        #[cfg(feature = "nightly")]
        {
            use dryoc::protected::*;
            im.push(("Locked<HeapByteArray<32>> from a JSON sequence".into(), enc(serde_json::from_str::<Locked<HeapByteArray<32>>>(&doc).map(|a| a.as_slice().to_vec()).map_err(|e| e.to_string()))));
        }
        emit(&mut out, &mut rep, format!("decode_fixed32 elements={}", n), im);
        let mut im: Vec<(String, Result<Vec<u8>, String>)> = vec![];
        im.push(("Vec<u8> from a JSON sequence".into(), enc(serde_json::from_str::<Vec<u8>>(&doc).map_err(|e| e.to_string()))));
        #[cfg(feature = "nightly")]
        {
            use dryoc::protected::*;
            im.push(("HeapBytes from a JSON sequence".into(), enc(serde_json::from_str::<HeapBytes>(&doc).map(|a| a.as_slice().to_vec()).map_err(|e| e.to_string()))));
            im.push(("LockedBytes from a JSON sequence".into(), enc(serde_json::from_str::<LockedBytes>(&doc).map(|a| a.as_slice().to_vec()).map_err(|e| e.to_string()))));
        }
        emit(&mut out, &mut rep, format!("decode_bytes elements={}", n), im);
    }
    for i in 0..24u64 {
        let pw = rng.bytes((i * 3) as usize);
        let salt = rng.bytes(16);
        let (im, _) = prims::argon2(1 + i % 2, &pw, &salt, 1 + i % 4, 8 + i * 5, 16 + (i as usize) * 7);
        emit(&mut out, &mut rep, format!("pwhash i={}", i), im);
    }
    rep.sample(json!({"lengths": format!("0..={}", maxlen), "families": ["generichash", "generichash_incremental", "sha512", "auth", "sign", "kdf", "kx", "box_seed_keypair", "scalarmult", "sealed_box_nonce", "box", "pwhash"]}));
    rep.write(&args[1]);
}
