//! Shared helpers: deterministic PRNG, panic capture, failure records.
use serde_json::{json, Value};
use std::panic::{catch_unwind, AssertUnwindSafe};

#[derive(Clone)]
pub struct Rng(pub u64);
impl Rng {
    pub fn new(seed: u64) -> Self {
        Rng(seed ^ 0x9E37_79B9_7F4A_7C15)
    }
    pub fn next(&mut self) -> u64 {
        self.0 = self.0.wrapping_add(0x9E37_79B9_7F4A_7C15);
        let mut z = self.0;
        z = (z ^ (z >> 30)).wrapping_mul(0xBF58_476D_1CE4_E5B9);
        z = (z ^ (z >> 27)).wrapping_mul(0x94D0_49BB_1331_11EB);
        z ^ (z >> 31)
    }
    pub fn below(&mut self, n: u64) -> u64 {
        if n == 0 { 0 } else { self.next() % n }
    }
    pub fn bytes(&mut self, n: usize) -> Vec<u8> {
        let mut v = Vec::with_capacity(n);
        while v.len() < n {
            let x = self.next().to_le_bytes();
            let k = std::cmp::min(8, n - v.len());
            v.extend_from_slice(&x[..k]);
        }
        v
    }
    pub fn arr<const N: usize>(&mut self) -> [u8; N] {
        let mut a = [0u8; N];
        a.copy_from_slice(&self.bytes(N));
        a
    }
    pub fn pick<'a, T>(&mut self, xs: &'a [T]) -> &'a T {
        &xs[self.below(xs.len() as u64) as usize]
    }
}

pub fn hex(b: &[u8]) -> String {
    hex::encode(b)
}

/// where the most recent panic was raised ("file:line: message"); panics are silent (most are expected and caught as data)
pub static LAST_PANIC: std::sync::Mutex<String> = std::sync::Mutex::new(String::new());
pub fn silence_panics() {
    std::panic::set_hook(Box::new(|info| {
        let loc = info.location().map(|l| format!("{}:{}", l.file(), l.line())).unwrap_or_default();
        let msg = if let Some(s) = info.payload().downcast_ref::<&str>() { s.to_string() } else if let Some(s) = info.payload().downcast_ref::<String>() { s.clone() } else { String::new() };
        if let Ok(mut g) = LAST_PANIC.try_lock() { *g = format!("{}:\n{}", loc, msg); }
    }));
}

/// Runs `f`, turning a panic in the code under test into data.
pub fn catch<R>(f: impl FnOnce() -> R) -> Result<R, String> {
    match catch_unwind(AssertUnwindSafe(f)) {
        Ok(r) => Ok(r),
        Err(e) => {
            let msg = if let Some(s) = e.downcast_ref::<&str>() {
                s.to_string()
            } else if let Some(s) = e.downcast_ref::<String>() {
                s.clone()
            } else {
                "panic".to_string()
            };
            Err(msg)
        }
    }
}

pub fn sodium_init() {
    unsafe {
        libsodium_sys::sodium_init();
    }
}

/// Collects failures (bounded) and counts.
pub struct Report {
    pub evaluations: u64,
    pub failures: Vec<Value>,
    pub nfail: u64,
    pub counters: std::collections::BTreeMap<String, u64>,
    pub samples: Vec<Value>,
    pub distinct: std::collections::HashSet<u64>,
    pub distinct_extra: u64,
    pub max_fail: usize,
}
impl Report {
    pub fn new() -> Self {
        Report {
            evaluations: 0,
            failures: vec![],
            nfail: 0,
            counters: Default::default(),
            samples: vec![],
            distinct: Default::default(),
            distinct_extra: 0,
            max_fail: 400,
        }
    }
    /// registers one distinct non-trivial case (by its canonical description)
    pub fn case(&mut self, key: &str) {
        use std::hash::{Hash, Hasher};
        let mut h = std::collections::hash_map::DefaultHasher::new();
        key.hash(&mut h);
        self.distinct.insert(h.finish());
    }
    pub fn count(&mut self, k: &str) {
        *self.counters.entry(k.to_string()).or_insert(0) += 1;
    }
    pub fn add(&mut self, k: &str, n: u64) {
        *self.counters.entry(k.to_string()).or_insert(0) += n;
    }
    /// `key` identifies the failing case canonically (used for known-finding matching).
    pub fn fail(&mut self, key: &str, detail: Value) {
        self.nfail += 1;
        let ck = format!("fail:{}", key);
        // keep a few examples of EVERY failure key (not just the first failures overall)
        let seen = self.counters.get(&ck).copied().unwrap_or(0);
        if seen < 5 && self.failures.len() < self.max_fail {
            self.failures.push(json!({"key": key, "detail": detail}));
        }
        self.count(&ck);
    }
    pub fn sample(&mut self, v: Value) {
        if self.samples.len() < 5 {
            self.samples.push(v);
        }
    }
    pub fn to_json(&self) -> Value {
        json!({
            "evaluations": self.evaluations,
            "nfail": self.nfail,
            "failures": self.failures,
            "counters": self.counters,
            "samples": self.samples,
            "distinct": self.distinct.len() as u64 + self.distinct_extra,
        })
    }
    pub fn write(&self, path: &str) {
        std::fs::write(path, serde_json::to_string(&self.to_json()).unwrap()).unwrap();
    }
}

/// Abandons one state of every incremental interface half-way (dropped without finalisation, or with its finalisation refused).
/// Whatever the library keeps between calls - buffer pools, caches, thread-locals - now holds the remains; results computed
/// afterwards must not care.
pub fn disturb(n: u64) {
    use dryoc::classic::{crypto_auth as ca, crypto_generichash as cg, crypto_onetimeauth as co, crypto_sign as csg};
    let junk = vec![0xA5u8; 1 + (n % 200) as usize];
    let _ = catch(|| {
        { let mut st = cg::crypto_generichash_init(None, 32).unwrap(); cg::crypto_generichash_update(&mut st, &junk); }
        { let mut st = cg::crypto_generichash_init(Some(&[7u8; 32]), 64).unwrap(); cg::crypto_generichash_update(&mut st, &junk); let mut o = [0u8; 65]; let _ = cg::crypto_generichash_final(st, &mut o); }
        { let mut st = co::crypto_onetimeauth_init(&[3u8; 32]); co::crypto_onetimeauth_update(&mut st, &junk); }
        { let mut st = ca::crypto_auth_init(&[3u8; 32]); ca::crypto_auth_update(&mut st, &junk); }
        { let mut st = csg::crypto_sign_init(); csg::crypto_sign_update(&mut st, &junk); }
    });
}
