//! C16: byte and serde encodings round-trip and enforce fixed lengths (cases from Codec.tla).
use crate::common::*;
use dryoc::dryocbox::DryocBox;
use dryoc::dryocsecretbox::DryocSecretBox;
use dryoc::types::*;
use serde::de::DeserializeOwned;
use serde::Serialize;
use serde_json::{json, Value};

type S8 = StackByteArray<8>;
type S16 = StackByteArray<16>;
type S24 = StackByteArray<24>;
type S32 = StackByteArray<32>;
type S64 = StackByteArray<64>;

/// json text -> T, as Ok(re-serialised value) / Err / Panic
fn json_decode<T: DeserializeOwned + Serialize>(text: &str) -> Result<Result<Value, String>, String> {
    catch(|| serde_json::from_str::<T>(text).map(|t| serde_json::to_value(&t).unwrap()).map_err(|e| e.to_string()))
}
fn bin_decode<T: DeserializeOwned + Serialize>(bytes: &[u8]) -> Result<Result<Value, String>, String> {
    catch(|| bincode::deserialize::<T>(bytes).map(|t| serde_json::to_value(&t).unwrap()).map_err(|e| e.to_string()))
}

/// bincode wire of a struct whose fields are byte strings: u64 length + bytes each (Some-tagged when optional)
fn bin_wire(fields: &[(Vec<u8>, bool)]) -> Vec<u8> {
    let mut w = vec![];
    for (b, optional) in fields {
        if *optional { w.push(1u8); }
        w.extend_from_slice(&(b.len() as u64).to_le_bytes());
        w.extend_from_slice(b);
    }
    w
}

struct ObjSpec {
    name: &'static str,
    /// field names in wire order with (fixed length or 0 for var, optional?)
    fields: Vec<(&'static str, usize, bool)>,
}

fn run_object<T: DeserializeOwned + Serialize>(rep: &mut Report, spec: &ObjSpec, cases: &Value, container: &str, original: &T, rng: &mut Rng, judge_strict: bool) {
    let ov = serde_json::to_value(original).unwrap();
    // ---- round trips
    for fmt in ["json", "bincode"] {
        rep.evaluations += 1;
        rep.case(&format!("rt|{}|{}|{}|{}", spec.name, container, fmt, ov));
        let r = if fmt == "json" { json_decode::<T>(&serde_json::to_string(original).unwrap()) } else { bin_decode::<T>(&bincode::serialize(original).unwrap()) };
        match r {
            Ok(Ok(v)) => if v != ov { rep.fail(&format!("{}<{}>: {} round trip yields a different object", spec.name, container, fmt), json!({"original": ov, "decoded": v})); },
            Ok(Err(e)) => rep.fail(&format!("{}<{}>: {} round trip fails to decode", spec.name, container, fmt), json!({"error": e})),
            Err(p) => rep.fail(&format!("{}<{}>: {} round trip panics", spec.name, container, fmt), json!({"panic": p})),
        }
    }
    if !judge_strict { return; }
    // ---- single-field deviations of Codec.tla
    for c in cases.as_array().unwrap() {
        if c["obj"] != spec.name { continue; }
        let fname = c["field"].as_str().unwrap();
        let count = c["count"].as_u64().unwrap() as usize;
        let carrier = c["carrier"].as_str().unwrap();
        let want_ok = c["ok"].as_bool().unwrap();
        let bytes = rng.bytes(count);
        // JSON: "seq" = array of numbers, "bytes" = a JSON string of `count` ASCII characters
        let mut v = ov.clone();
        let fv = if carrier == "seq" { json!(bytes) } else { json!(bytes.iter().map(|b| (b'a' + b % 26) as char).collect::<String>()) };
        v[fname] = fv;
        rep.evaluations += 1;
        rep.case(&format!("{}|{}|{}", spec.name, container, c));
        let got = json_decode::<T>(&serde_json::to_string(&v).unwrap());
        judge(rep, spec, container, &format!("json {}", carrier), fname, count, want_ok, got);
        // bincode carries byte strings and sequences of u8 identically: one case per count
        if carrier == "bytes" {
            let mut fs: Vec<(Vec<u8>, bool)> = vec![];
            for (n, fixed, opt) in spec.fields.iter() {
                let cur: Vec<u8> = if *n == fname { bytes.clone() } else {
                    let a = &ov[*n];
                    if a.is_null() { vec![0u8; *fixed] } else { a.as_array().map(|x| x.iter().map(|y| y.as_u64().unwrap() as u8).collect()).unwrap_or_default() }
                };
                fs.push((cur, *opt));
            }
            rep.evaluations += 1;
            let got = bin_decode::<T>(&bin_wire(&fs));
            judge(rep, spec, container, "bincode", fname, count, want_ok, got);
        }
    }
}

fn judge(rep: &mut Report, spec: &ObjSpec, container: &str, fmt: &str, field: &str, count: usize, want_ok: bool, got: Result<Result<Value, String>, String>) {
    let fixed = spec.fields.iter().find(|f| f.0 == field).map(|f| f.1).unwrap_or(0);
    let d = json!({"object": spec.name, "container": container, "format": fmt, "field": field, "fixed_length": fixed, "count": count});
    match got {
        Ok(Ok(_)) => if !want_ok {
            let how = if count < fixed { "shorter than the fixed length (padded)" } else { "longer than the fixed length (truncated)" };
            rep.fail(&format!("{}<{}>.{} via {}: decodes an encoding {}", spec.name, container, field, fmt, how), d);
        },
        Ok(Err(e)) => if want_ok { rep.fail(&format!("{}<{}>.{} via {}: rejects a well-formed encoding", spec.name, container, field, fmt), json!({"case": d, "error": e})); },
        Err(p) => rep.fail(&format!("{}<{}>.{} via {}: panics while decoding", spec.name, container, field, fmt), json!({"case": d, "panic": p})),
    }
}

/// `codec <table.json> <out.json> <seed> <Lmax>`
struct BytesLike(Vec<u8>);
impl serde::Serialize for BytesLike { fn serialize<S: serde::Serializer>(&self, s: S) -> Result<S::Ok, S::Error> { s.serialize_bytes(&self.0) } }
#[allow(dead_code)]
fn crate_bytes_like(v: &[u8]) -> BytesLike { BytesLike(v.to_vec()) }
fn rng_key32() -> Vec<u8> { (0..32u8).map(|i| i.wrapping_mul(11) | 1).collect() }
pub fn cmd_codec(args: &[String]) {
    let table: Value = serde_json::from_str(&std::fs::read_to_string(&args[0]).unwrap()).unwrap();
    let seed: u64 = args[2].parse().unwrap();
    let lmax: usize = args[3].parse().unwrap();
    let cases = &table["cases"];
    let mut rng = Rng::new(seed ^ 0xc16);
    let mut rep = Report::new();
    let spec = |name: &'static str, fields: Vec<(&'static str, usize, bool)>| ObjSpec { name, fields };
    let sb = spec("DryocSecretBox", vec![("tag", 16, false), ("data", 0, false)]);
    let db = spec("DryocBox", vec![("ephemeral_pk", 32, true), ("tag", 16, false), ("data", 0, false)]);
    let sm = spec("SignedMessage", vec![("signature", 64, false), ("message", 0, false)]);
    let kp = spec("KeyPair", vec![("public_key", 32, false), ("secret_key", 32, false)]);
    let skp = spec("SigningKeyPair", vec![("public_key", 32, false), ("secret_key", 64, false)]);
    let ses = spec("Session", vec![("rx_key", 32, false), ("tx_key", 32, false)]);
    let kdf = spec("Kdf", vec![("main_key", 32, false), ("context", 8, false)]);
    // every spec object has a dispatch arm below
    for o in table["objects"].as_array().unwrap() {
        if !["DryocSecretBox", "DryocBox", "SignedMessage", "KeyPair", "SigningKeyPair", "Session", "Kdf", "PwHash"].contains(&o["name"].as_str().unwrap()) {
            rep.fail("HARNESS: object of Codec.tla has no dispatch arm", o.clone());
        }
    }
    for len in (0..=lmax).chain([4095usize, 4096, 4097, 8193].iter().copied()) {
        let strict = len == 5;     // deviations once, round trips for every payload length
        let msg = rng.bytes(len);
        let key = S32::from(&rng.arr::<32>());
        let nonce = S24::from(&rng.arr::<24>());
        let kpa: dryoc::dryocbox::KeyPair = dryoc::keypair::KeyPair::from_seed(&rng.bytes(32));
        let kpb: dryoc::dryocbox::KeyPair = dryoc::keypair::KeyPair::from_seed(&rng.bytes(32));
        // stack containers
        let b: DryocSecretBox<S16, Vec<u8>> = DryocSecretBox::encrypt(&msg, &nonce, &key);
        run_object(&mut rep, &sb, cases, "Stack,Vec", &b, &mut rng, strict);
        rep.evaluations += 1;
        if let Ok(b2) = serde_json::from_str::<DryocSecretBox<S16, Vec<u8>>>(&serde_json::to_string(&b).unwrap()) {
            if b2.decrypt_to_vec(&nonce, &key).ok() != Some(msg.clone()) { rep.fail("DryocSecretBox: decoded object no longer decrypts", json!({"len": len})); }
        }
        let bv: DryocSecretBox<Vec<u8>, Vec<u8>> = DryocSecretBox::encrypt(&msg, &nonce, &key);
        run_object(&mut rep, &sb, cases, "Vec,Vec", &bv, &mut rng, false);
        let x: DryocBox<S32, S16, Vec<u8>> = DryocBox::encrypt(&msg, &nonce, &kpb.public_key, &kpa.secret_key).unwrap();
        run_object(&mut rep, &db, cases, "Stack,Vec (no epk)", &x, &mut rng, false);
        let xs: DryocBox<S32, S16, Vec<u8>> = DryocBox::seal(&msg, &kpb.public_key).unwrap();
        run_object(&mut rep, &db, cases, "Stack,Vec", &xs, &mut rng, strict);
        rep.evaluations += 1;
        if let Ok(x2) = bincode::deserialize::<DryocBox<S32, S16, Vec<u8>>>(&bincode::serialize(&xs).unwrap()) {
            if x2.unseal_to_vec(&kpb).ok() != Some(msg.clone()) { rep.fail("DryocBox: decoded sealed box no longer opens", json!({"len": len})); }
        }
        let skpv: dryoc::sign::SigningKeyPair<S32, S64> = dryoc::sign::SigningKeyPair::from_seed(&rng.arr::<32>());
        let signed: dryoc::sign::SignedMessage<S64, Vec<u8>> = skpv.sign(msg.clone()).unwrap();
        run_object(&mut rep, &sm, cases, "Stack,Vec", &signed, &mut rng, strict);
        rep.evaluations += 1;
        if let Ok(s2) = serde_json::from_str::<dryoc::sign::SignedMessage<S64, Vec<u8>>>(&serde_json::to_string(&signed).unwrap()) {
            if s2.verify(&skpv.public_key).is_err() { rep.fail("SignedMessage: decoded object no longer verifies", json!({"len": len})); }
        }
        // to_bytes / from_bytes, into_parts / from_parts
        rep.evaluations += 2;
        let wire: Vec<u8> = signed.to_bytes();
        match dryoc::sign::SignedMessage::<S64, Vec<u8>>::from_bytes(&wire) { Ok(s2) => { if s2.verify(&skpv.public_key).is_err() || s2.to_vec() != wire { rep.fail("SignedMessage: to_bytes/from_bytes does not round trip", json!({"len": len})); } } Err(_) => rep.fail("SignedMessage: from_bytes rejects to_bytes output", json!({"len": len})) }
        let (sg, mm) = signed.clone().into_parts();
        if dryoc::sign::SignedMessage::<S64, Vec<u8>>::from_parts(sg, mm).verify(&skpv.public_key).is_err() { rep.fail("SignedMessage: into_parts/from_parts does not round trip", json!({"len": len})); }
        if strict || len < 3 {
            run_object(&mut rep, &kp, cases, "Stack", &kpa, &mut rng, strict);
            run_object(&mut rep, &skp, cases, "Stack", &skpv, &mut rng, strict);
            let sess: dryoc::kx::Session<S32> = dryoc::kx::Session::new_client(&kpa, &kpb.public_key).unwrap();
            run_object(&mut rep, &ses, cases, "Stack", &sess, &mut rng, strict);
            let k: dryoc::kdf::Kdf<S32, S8> = dryoc::kdf::Kdf::gen();
            run_object(&mut rep, &kdf, cases, "Stack", &k, &mut rng, strict);
            let cfg = dryoc::pwhash::Config::interactive().with_opslimit(1).with_memlimit(8192).with_hash_length(16 + len % 40).with_salt_length(8 + len % 20);
            let ph: dryoc::pwhash::PwHash<Vec<u8>, Vec<u8>> = dryoc::pwhash::PwHash::hash(&msg, cfg).unwrap();
            run_object(&mut rep, &spec("PwHash", vec![("hash", 0, false), ("salt", 0, false)]), cases, "Vec,Vec", &ph, &mut rng, false);
            rep.evaluations += 1;
            if let Ok(p2) = serde_json::from_str::<dryoc::pwhash::PwHash<Vec<u8>, Vec<u8>>>(&serde_json::to_string(&ph).unwrap()) {
                if p2.verify(&msg).is_err() { rep.fail("PwHash: decoded object no longer verifies", json!({"len": len})); }
            }
            // the string encoding of the password-hash object: to_string then from_string reproduces an equal object
            rep.evaluations += 1;
            rep.case(&format!("pwhash-string|{}", len));
            match catch(|| dryoc::pwhash::PwHash::<Vec<u8>, Vec<u8>>::from_string(&ph.to_string())) {
                Ok(Ok(p3)) => {
                    if serde_json::to_value(&p3).unwrap() != serde_json::to_value(&ph).unwrap() { rep.fail("PwHash: to_string then from_string yields a different object", json!({"original": serde_json::to_value(&ph).unwrap(), "decoded": serde_json::to_value(&p3).unwrap()})); }
                    if p3.verify(&msg).is_err() { rep.fail("PwHash: object parsed from its own string no longer verifies", json!({"len": len})); }
                }
                Ok(Err(e)) => rep.fail("PwHash: from_string rejects to_string output", json!({"err": format!("{:?}", e)})),
                Err(p) => rep.fail("PwHash: from_string panics on to_string output", json!({"panic": p})),
            }
            // an Argon2i object (Config has no setter for the algorithm: such an object comes from a string or from serde):
            // string -> object -> string is the identity, the object survives serde, and it still verifies
            let mut sbuf = [0i8; 128];
            let rc = unsafe { libsodium_sys::crypto_pwhash_str_alg(sbuf.as_mut_ptr(), msg.as_ptr() as *const _, msg.len() as u64, 3, 8192, 1) };
            if rc == 0 {
                let sref: String = sbuf.iter().take_while(|c| **c != 0).map(|c| *c as u8 as char).collect();
                rep.evaluations += 1;
                rep.case(&format!("pwhash-argon2i-string|{}", len));
                match catch(|| dryoc::pwhash::PwHash::<Vec<u8>, Vec<u8>>::from_string(&sref)) {
                    Ok(Ok(pi)) => {
                        let again = pi.to_string();
                        if again != sref { rep.fail("PwHash (Argon2i): from_string then to_string yields a different string", json!({"string": sref, "reencoded": again})); }
                        if pi.verify(&msg).is_err() { rep.fail("PwHash (Argon2i): parsed object rejects the right password", json!({"string": sref})); }
                        match serde_json::from_str::<dryoc::pwhash::PwHash<Vec<u8>, Vec<u8>>>(&serde_json::to_string(&pi).unwrap()) {
                            Ok(pj) => {
                                if pj.to_string() != sref { rep.fail("PwHash (Argon2i): json round trip yields a different object", json!({"string": sref, "after": pj.to_string()})); }
                                if pj.verify(&msg).is_err() { rep.fail("PwHash (Argon2i): decoded object no longer verifies", json!({"string": sref})); }
                            }
                            Err(e) => rep.fail("PwHash (Argon2i): json round trip fails", json!({"err": e.to_string()})),
                        }
                        match bincode::deserialize::<dryoc::pwhash::PwHash<Vec<u8>, Vec<u8>>>(&bincode::serialize(&pi).unwrap()) {
                            Ok(pj) => if pj.to_string() != sref || pj.verify(&msg).is_err() { rep.fail("PwHash (Argon2i): bincode round trip yields a different object", json!({"string": sref, "after": pj.to_string()})); },
                            Err(e) => rep.fail("PwHash (Argon2i): bincode round trip fails", json!({"err": e.to_string()})),
                        }
                    }
                    Ok(Err(e)) => rep.fail("PwHash (Argon2i): from_string rejects a libsodium string", json!({"string": sref, "err": format!("{:?}", e)})),
                    Err(p) => rep.fail("PwHash (Argon2i): from_string panics", json!({"string": sref, "panic": p})),
                }
            }
        }
        #[cfg(feature = "nightly")]
        {
            use dryoc::protected::*;
            type L16 = Locked<HeapByteArray<16>>;
            type L32 = Locked<HeapByteArray<32>>;
            type L64 = Locked<HeapByteArray<64>>;
            let lb: DryocSecretBox<L16, LockedBytes> = DryocSecretBox::encrypt(&msg, &nonce, &key);
            run_object(&mut rep, &sb, cases, "Locked,LockedBytes", &lb, &mut rng, strict);
            let hb: DryocSecretBox<S16, HeapBytes> = DryocSecretBox::encrypt(&msg, &nonce, &key);
            run_object(&mut rep, &sb, cases, "Stack,HeapBytes", &hb, &mut rng, false);
            let lx: DryocBox<L32, L16, LockedBytes> = DryocBox::seal(&msg, &kpb.public_key).unwrap();
            run_object(&mut rep, &db, cases, "Locked,LockedBytes", &lx, &mut rng, strict);
            if strict {
                let lk: dryoc::keypair::KeyPair<L32, L32> = dryoc::keypair::KeyPair::from_seed(&rng.bytes(32));
                run_object(&mut rep, &kp, cases, "Locked", &lk, &mut rng, true);
                let ls: dryoc::sign::SigningKeyPair<L32, L64> = dryoc::sign::SigningKeyPair::from_seed(&rng.arr::<32>());
                run_object(&mut rep, &skp, cases, "Locked", &ls, &mut rng, true);
            }
        }
        if len == 5 { rep.sample(json!({"payload_len": len, "object": "DryocSecretBox<Stack,Vec>", "json": serde_json::to_value(&b).unwrap()})); }
    }
    // TryFrom<&[u8]> and from_slices: a fixed-length container accepts exactly its length
    for count in 0..=128usize {
        let bytes = rng.bytes(count);
        rep.evaluations += 4;
        let checks: Vec<(&str, usize, bool)> = vec![
            ("StackByteArray<32>::try_from", 32, catch(|| S32::try_from(&bytes[..]).is_ok()).unwrap_or(true)),
            ("StackByteArray<64>::try_from", 64, catch(|| S64::try_from(&bytes[..]).is_ok()).unwrap_or(true)),
            ("StackByteArray<16>::try_from", 16, catch(|| S16::try_from(&bytes[..]).is_ok()).unwrap_or(true)),
            ("KeyPair::from_slices (public key)", 32, catch(|| dryoc::dryocbox::KeyPair::from_slices(&bytes, &[1u8; 32]).is_ok()).unwrap_or(true)),
            ("KeyPair::from_slices (secret key)", 32, catch(|| dryoc::dryocbox::KeyPair::from_slices(&[1u8; 32], &bytes).is_ok()).unwrap_or(true)),
            ("SigningKeyPair::from_slices (secret key)", 64, catch(|| dryoc::sign::SigningKeyPair::<S32, S64>::from_slices(&[1u8; 32], &bytes).is_ok()).unwrap_or(true)),
        ];
        for (name, n, ok) in checks {
            if ok != (count == n) { rep.fail(&format!("{}: {} a slice of another length", name, if ok { "accepts" } else { "rejects the right length or" }), json!({"count": count, "fixed_length": n})); }
        }
        #[cfg(feature = "nightly")]
        {
            use dryoc::protected::*;
            rep.evaluations += 2;
            let ok = catch(|| HeapByteArray::<32>::try_from(&bytes[..]).is_ok()).unwrap_or(true);
            if ok != (count == 32) { rep.fail("HeapByteArray<32>::try_from: wrong verdict on slice length", json!({"count": count})); }
            match catch(|| HeapByteArray::<32>::from_slice_into_locked(&bytes).is_ok()) {
                Ok(ok) => if ok != (count == 32) { rep.fail("HeapByteArray<32>::from_slice_into_locked: wrong verdict on slice length", json!({"count": count})); },
                Err(p) => rep.fail("HeapByteArray<32>::from_slice_into_locked: panics", json!({"count": count, "panic": p})),
            }
            // the resizable container takes any length
            match catch(|| HeapBytes::from(&bytes[..]).as_slice().to_vec()) {
                Ok(v) => if v != bytes { rep.fail("HeapBytes::from(&[u8]) does not hold the bytes it was given", json!({"count": count})); },
                Err(p) => rep.fail("HeapBytes::from(&[u8]): panics", json!({"count": count, "panic": p})),
            }
        }
    }
    // the byte-string wire forms (from_bytes / from_sealed_bytes): the rows of Codec.tla's WireCases - object x form x holder of
    // the fixed part (one with a length of its own: stack array; one without: Vec) x every length around the fixed prefix - with
    // the verdict and the lengths of the decoded parts
    {
        use dryoc::dryocsecretbox::DryocSecretBox as SB;
        use dryoc::dryocbox::DryocBox as DB;
        use dryoc::sign::SignedMessage as SM;
        use dryoc::types::StackByteArray as St;
        fn fe(x: dryoc::Error) -> String { format!("{:?}", x) }
        // decoded parts in wire order, or the decoder's error
        let decode = |obj: &str, form: &str, holder: &str, e: &[u8]| -> Option<Result<Vec<Vec<u8>>, String>> {
            Some(match (obj, form, holder) {
                ("DryocSecretBox", "from_bytes", "sized") => SB::<St<16>, Vec<u8>>::from_bytes(e).map(|b| { let (t, d) = b.into_parts(); vec![t.to_vec(), d] }).map_err(fe),
                ("DryocSecretBox", "from_bytes", "unsized") => SB::<Vec<u8>, Vec<u8>>::from_bytes(e).map(|b| { let (t, d) = b.into_parts(); vec![t, d] }).map_err(fe),
                ("DryocBox", "from_bytes", "sized") => DB::<St<32>, St<16>, Vec<u8>>::from_bytes(e).map(|b| { let (t, d, _) = b.into_parts(); vec![t.to_vec(), d] }).map_err(fe),
                ("DryocBox", "from_bytes", "unsized") => DB::<Vec<u8>, Vec<u8>, Vec<u8>>::from_bytes(e).map(|b| { let (t, d, _) = b.into_parts(); vec![t, d] }).map_err(fe),
                ("DryocBox", "from_sealed_bytes", "sized") => DB::<St<32>, St<16>, Vec<u8>>::from_sealed_bytes(e).map(|b| { let (t, d, k) = b.into_parts(); vec![k.unwrap().to_vec(), t.to_vec(), d] }).map_err(fe),
                ("DryocBox", "from_sealed_bytes", "unsized") => DB::<Vec<u8>, Vec<u8>, Vec<u8>>::from_sealed_bytes(e).map(|b| { let (t, d, k) = b.into_parts(); vec![k.unwrap(), t, d] }).map_err(fe),
                ("SignedMessage", "from_bytes", "sized") => SM::<St<64>, Vec<u8>>::from_bytes(e).map(|b| { let (t, d) = b.into_parts(); vec![t.to_vec(), d] }).map_err(fe),
                ("SignedMessage", "from_bytes", "unsized") => SM::<Vec<u8>, Vec<u8>>::from_bytes(e).map(|b| { let (t, d) = b.into_parts(); vec![t, d] }).map_err(fe),
                _ => return None,
            })
        };
        let rows = table["wirecases"].as_array().cloned().unwrap_or_default();
        if rows.is_empty() { rep.fail("HARNESS: Codec.tla exported no wire-form cases", json!(null)); }
        for row in rows.iter() {
            let (obj, form, holder) = (row["obj"].as_str().unwrap(), row["form"].as_str().unwrap(), row["holder"].as_str().unwrap());
            let n = row["len"].as_u64().unwrap() as usize;
            let name = format!("{}::{} ({} fixed part)", obj, form, holder);
            rep.evaluations += 1;
            let enc: Vec<u8> = (0..n).map(|i| (i as u8).wrapping_mul(13) | 1).collect();
            match catch(|| decode(obj, form, holder, &enc)) {
                Ok(None) => rep.fail("HARNESS: wire form of Codec.tla without a dispatch arm", json!(name)),
                Err(p) => rep.fail(&format!("{}: panics", name), json!({"len": n, "panic": p})),
                Ok(Some(r)) => {
                    let want_ok = row["ok"].as_bool().unwrap();
                    match (r, want_ok) {
                        (Ok(_), false) => rep.fail(&format!("{}: decodes an encoding shorter than its fixed part", name), json!({"len": n, "fixed": row["prefix"]})),
                        (Err(e), true) => rep.fail(&format!("{}: rejects an encoding of sufficient length", name), json!({"len": n, "err": e})),
                        (Err(_), false) => {}
                        (Ok(parts), true) => {
                            let want: Vec<usize> = row["parts"].as_array().unwrap().iter().map(|x| x.as_u64().unwrap() as usize).collect();
                            if parts.iter().map(|p| p.len()).collect::<Vec<_>>() != want || parts.concat() != enc { rep.fail(&format!("{}: decoded parts are not the fixed parts and the rest", name), json!({"len": n, "want": want})); }
                        }
                    }
                }
            }
        }
    }
    // an object whose fixed-length field sits in a Vec holding MORE bytes than the field has (decoded from a JSON document, or
    // from_parts): whatever its to_vec makes of it - an error, a panic, a string - it is not an encoding that opens or verifies
    {
        use dryoc::dryocsecretbox::DryocSecretBox as SB;
        use dryoc::dryocbox::DryocBox as DB;
        use dryoc::sign::SignedMessage as SM;
        use dryoc::types::StackByteArray as St;
        let key: [u8; 32] = rng.arr(); let nonce: [u8; 24] = rng.arr();
        let msg = rng.bytes(33);
        let good: SB<Vec<u8>, Vec<u8>> = SB::encrypt(&msg, &nonce, &key);
        let (tag, data) = good.into_parts();
        let kpa = dryoc::dryocbox::KeyPair::from_seed(&rng.arr::<32>()); let kpb = dryoc::dryocbox::KeyPair::from_seed(&rng.arr::<32>());
        let gb: DB<Vec<u8>, Vec<u8>, Vec<u8>> = DB::encrypt(&msg, &nonce, &kpb.public_key, &kpa.secret_key).unwrap();
        let (btag, bdata, _) = gb.into_parts();
        let skp: dryoc::sign::SigningKeyPair<St<32>, St<64>> = dryoc::sign::SigningKeyPair::from_seed(&rng.arr::<32>());
        let gs: SM<Vec<u8>, Vec<u8>> = skp.sign(msg.clone()).unwrap();
        let (sig, smsg) = gs.into_parts();
        for extra in [1usize, 7, 16] {
            let pad = rng.bytes(extra);
            rep.evaluations += 3;
            let t2 = [&tag[..], &pad[..]].concat();
            if let Ok(wire) = catch(|| SB::<Vec<u8>, Vec<u8>>::from_parts(t2.clone(), data.clone()).to_vec()) {
                if let Ok(b) = SB::<St<16>, Vec<u8>>::from_bytes(&wire) { if b.decrypt_to_vec(&nonce, &key).is_ok() { rep.fail("DryocSecretBox<Vec,Vec>: a tag holding more than 16 bytes is truncated into a wire form that opens", json!({"extra": extra})); } }
            }
            let t2 = [&btag[..], &pad[..]].concat();
            if let Ok(wire) = catch(|| DB::<Vec<u8>, Vec<u8>, Vec<u8>>::from_parts(t2.clone(), bdata.clone(), None).to_vec()) {
                if let Ok(b) = DB::<St<32>, St<16>, Vec<u8>>::from_bytes(&wire) { if b.decrypt_to_vec(&St::<24>::from(&nonce), &kpa.public_key, &kpb.secret_key).is_ok() { rep.fail("DryocBox<Vec,Vec,Vec>: a tag holding more than 16 bytes is truncated into a wire form that opens", json!({"extra": extra})); } }
            }
            let s2 = [&sig[..], &pad[..]].concat();
            if let Ok(wire) = catch(|| SM::<Vec<u8>, Vec<u8>>::from_parts(s2.clone(), smsg.clone()).to_vec()) {
                if let Ok(b) = SM::<St<64>, Vec<u8>>::from_bytes(&wire) { if b.verify(&skp.public_key).is_ok() { rep.fail("SignedMessage<Vec,Vec>: a signature holding more than 64 bytes is truncated into a wire form that verifies", json!({"extra": extra})); } }
            }
        }
    }
    // ... and with FEWER bytes than the field has (a Vec decodes whatever count the document holds): using such an object for
    // the operation the field is for does not succeed - no padding with whatever lies behind the bytes, in any build profile
    {
        let short_key: Vec<u8> = rng.bytes(31);
        let ctx: Vec<u8> = rng.bytes(8);
        let nonce: Vec<u8> = rng.bytes(24);
        let msg = rng.bytes(20);
        rep.evaluations += 4;
        if let Ok(Ok(_)) = catch(|| dryoc::kdf::Kdf::<Vec<u8>, Vec<u8>>::from_parts(short_key.clone(), ctx.clone()).derive_subkey_to_vec(1)) { rep.fail("Kdf<Vec,Vec> with a 31-byte main key derives a subkey (padded key)", json!(null)); }
        if let Ok(Ok(_)) = catch(|| dryoc::kdf::Kdf::<Vec<u8>, Vec<u8>>::from_parts(rng_key32(), ctx[..7].to_vec()).derive_subkey_to_vec(1)) { rep.fail("Kdf<Vec,Vec> with a 7-byte context derives a subkey (padded context)", json!(null)); }
        if let Ok(_) = catch(|| { let b: dryoc::dryocsecretbox::DryocSecretBox<Vec<u8>, Vec<u8>> = dryoc::dryocsecretbox::DryocSecretBox::encrypt(&msg, &nonce, &short_key); b }) { rep.fail("DryocSecretBox::encrypt with a 31-byte key in a Vec produces a box (padded key)", json!(null)); }
        if let Ok(_) = catch(|| dryoc::auth::Auth::compute_to_vec(short_key.clone(), &msg)) { rep.fail("Auth::compute_to_vec with a 31-byte key in a Vec produces a MAC (padded key)", json!(null)); }
    }
    // decoding IN PLACE (serde's deserialize_in_place, what a container of such values uses when it is decoded into an existing
    // one): the value that was there before - longer, shorter, empty - leaves no trace in the result
    #[cfg(feature = "nightly")]
    {
        use bincode::Options;
        use serde::Deserialize;
        use dryoc::protected::{HeapBytes, LockedBytes, Lockable};
        // ... and neither does a decode that FAILED half-way on the same thread just before
        for n in [3usize, 40, 4097] {
            let good = rng.bytes(n);
            let js = serde_json::to_string(&good).unwrap();
            rep.evaluations += 2;
            let _ = catch(|| serde_json::from_str::<HeapBytes>("[222,173,190,\"oops\"]").is_ok());
            match catch(|| serde_json::from_str::<HeapBytes>(&js).map(|h| h.as_slice().to_vec()).map_err(|e| e.to_string())) {
                Ok(Ok(v)) => if v != good { rep.fail("HeapBytes decoded from JSON after a failed decode on the same thread differs from the document", json!({"len": n, "got_len": v.len()})); },
                other => rep.fail("HeapBytes: JSON decode after a failed decode fails", json!({"len": n, "r": format!("{:?}", other)})),
            }
            let _ = catch(|| serde_json::from_str::<LockedBytes>("[1,2,3,4,5,300]").is_ok());
            match catch(|| serde_json::from_str::<LockedBytes>(&js).map(|h| h.as_slice().to_vec()).map_err(|e| e.to_string())) {
                Ok(Ok(v)) => if v != good { rep.fail("LockedBytes decoded from JSON after a failed decode on the same thread differs from the document", json!({"len": n, "got_len": v.len()})); },
                other => rep.fail("LockedBytes: JSON decode after a failed decode fails", json!({"len": n, "r": format!("{:?}", other)})),
            }
        }
        for (newlen, oldlen) in [(5usize, 40usize), (40, 5), (0, 17), (17, 0), (4097, 9000), (16, 16)] {
            let newv = rng.bytes(newlen); let oldv = rng.bytes(oldlen);
            let js = serde_json::to_string(&newv).unwrap();
            let bc = bincode::serialize(&crate_bytes_like(&newv)).unwrap();
            rep.evaluations += 4;
            let mut place = HeapBytes::from(&oldv[..]);
            match catch(|| { let mut d = serde_json::Deserializer::from_str(&js); HeapBytes::deserialize_in_place(&mut d, &mut place).map_err(|e| e.to_string()) }) {
                Ok(Ok(())) => if place.as_slice() != &newv[..] { rep.fail("HeapBytes decoded in place (JSON) keeps bytes of the value it replaced", json!({"new_len": newlen, "old_len": oldlen, "got_len": place.as_slice().len()})); },
                other => rep.fail("HeapBytes: decoding in place (JSON) fails", json!({"new_len": newlen, "old_len": oldlen, "r": format!("{:?}", other)})),
            }
            let mut place = HeapBytes::from(&oldv[..]);
            match catch(|| { let mut d = bincode::Deserializer::from_slice(&bc, bincode::DefaultOptions::new().with_fixint_encoding().allow_trailing_bytes()); HeapBytes::deserialize_in_place(&mut d, &mut place).map_err(|e| e.to_string()) }) {
                Ok(Ok(())) => if place.as_slice() != &newv[..] { rep.fail("HeapBytes decoded in place (bincode) keeps bytes of the value it replaced", json!({"new_len": newlen, "old_len": oldlen, "got_len": place.as_slice().len()})); },
                other => rep.fail("HeapBytes: decoding in place (bincode) fails", json!({"new_len": newlen, "old_len": oldlen, "r": format!("{:?}", other)})),
            }
            if let Ok(mut place) = dryoc::protected::HeapBytes::from(&oldv[..]).mlock() {
                match catch(|| { let mut d = serde_json::Deserializer::from_str(&js); LockedBytes::deserialize_in_place(&mut d, &mut place).map_err(|e| e.to_string()) }) {
                    Ok(Ok(())) => if place.as_slice() != &newv[..] { rep.fail("LockedBytes decoded in place (JSON) keeps bytes of the value it replaced", json!({"new_len": newlen, "old_len": oldlen})); },
                    other => rep.fail("LockedBytes: decoding in place (JSON) fails", json!({"new_len": newlen, "old_len": oldlen, "r": format!("{:?}", other)})),
                }
                match catch(|| { let mut d = bincode::Deserializer::from_slice(&bc, bincode::DefaultOptions::new().with_fixint_encoding().allow_trailing_bytes()); LockedBytes::deserialize_in_place(&mut d, &mut place).map_err(|e| e.to_string()) }) {
                    Ok(Ok(())) => if place.as_slice() != &newv[..] { rep.fail("LockedBytes decoded in place (bincode) keeps bytes of the value it replaced", json!({"new_len": newlen, "old_len": oldlen})); },
                    other => rep.fail("LockedBytes: decoding in place (bincode) fails", json!({"new_len": newlen, "old_len": oldlen, "r": format!("{:?}", other)})),
                }
            }
        }
    }
    // password-hash objects over the whole cost domain (no hashing: from_parts): to_string then from_string gives the same
    // configuration back, at and beyond the 4 GiB mark where a 32-bit byte count wraps
    {
        use dryoc::pwhash::{Config, PwHash};
        for &(ops, mem) in [(1u64, 8192usize), (3, 4 * 1024 * 1024 * 1024 - 1024), (3, 4 * 1024 * 1024 * 1024), (4, 5 * 1024 * 1024 * 1024), (u32::MAX as u64, (u32::MAX as usize) * 1024), (2, 64 * 1024 * 1024)].iter() {
            rep.evaluations += 1;
            let cfg = Config::interactive().with_opslimit(ops).with_memlimit(mem).with_salt_length(16).with_hash_length(32);
            let p: PwHash<Vec<u8>, Vec<u8>> = PwHash::from_parts(vec![9u8; 32], vec![7u8; 16], cfg);
            let st = p.to_string();
            match catch(|| PwHash::<Vec<u8>, Vec<u8>>::from_string(&st)) {
                Ok(Ok(q)) => { if format!("{:?}", q) != format!("{:?}", p) || q.to_string() != st { rep.fail("PwHash: to_string then from_string yields a different object", json!({"opslimit": ops.to_string(), "memlimit": mem.to_string(), "string": st, "again": q.to_string()})); } }
                Ok(Err(e)) => rep.fail("PwHash: from_string rejects to_string output", json!({"string": st, "err": format!("{:?}", e)})),
                Err(pn) => rep.fail("PwHash: from_string panics on to_string output", json!({"string": st, "panic": pn})),
            }
        }
    }
    // raw constructors: with_data keeps the bytes and starts from an all-zero tag; with_data_and_mac keeps both
    for len in [0usize, 1, 16, 17, 255, 4097] {
        let body = rng.bytes(len);
        rep.evaluations += 1;
        let b: dryoc::dryocsecretbox::VecBox = dryoc::dryocsecretbox::DryocSecretBox::with_data(&body);
        let (t, d) = b.into_parts();
        if d != body || t.as_slice() != [0u8; 16] { rep.fail("DryocSecretBox::with_data: into_parts does not return (zero tag, the bytes)", json!({"len": len})); }
        let mac: [u8; 16] = rng.arr();
        let b: dryoc::dryocsecretbox::VecBox = dryoc::dryocsecretbox::DryocSecretBox::with_data_and_mac(dryoc::types::StackByteArray::from(&mac), &body);
        let wire = b.to_vec();
        if wire != [&mac[..], &body[..]].concat() { rep.fail("DryocSecretBox::with_data_and_mac: to_vec is not tag || data", json!({"len": len})); }
        // into_vec is the same wire form whatever allocation the data Vec happens to have (exact, a little or a lot of spare room)
        for spare in [0usize, 1, 15, 16, 17, 64, 5000] {
            rep.evaluations += 1;
            let mut data = Vec::with_capacity(len + spare); data.extend_from_slice(&body);
            let b: dryoc::dryocsecretbox::VecBox = dryoc::dryocsecretbox::DryocSecretBox::from_parts(dryoc::types::StackByteArray::from(&mac), data);
            if b.into_vec() != wire { rep.fail("DryocSecretBox::into_vec differs from to_vec (tag || data) when the data Vec has spare capacity", json!({"len": len, "spare": spare})); }
        }
    }
    rep.write(&args[1]);
}
