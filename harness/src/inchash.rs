//! C08: incremental interfaces vs one-shot, for every 2-way / 3-way split; buffer fill compared with
//! the table derived from IncHash.tla (hook H3); random k-way partitions recorded for trace validation.
use crate::common::*;
use dryoc::classic::{crypto_auth as ca, crypto_generichash as cg, crypto_hash as ch, crypto_onetimeauth as co, crypto_sign as csg};
use dryoc::types::*;
use libsodium_sys as so;
use serde_json::{json, Value};
use std::io::Write;

pub struct Ctx {
    pub key32: [u8; 32],
    pub sk: [u8; 64],
    pub pk: [u8; 32],
}

pub trait Inc {
    fn update(&mut self, d: &[u8]);
    /// (buffer fill, bytes compressed so far) where hook H3 exposes them
    fn obs(&self) -> (Option<usize>, Option<u64>) {
        (None, None)
    }
    fn finish(self: Box<Self>, ctx: &Ctx) -> Vec<u8>;
}

struct GhClassic(cg::GenericHashState, usize);
impl Inc for GhClassic {
    fn update(&mut self, d: &[u8]) { cg::crypto_generichash_update(&mut self.0, d) }
    fn obs(&self) -> (Option<usize>, Option<u64>) { (Some(self.0.verif_buf_len()), Some(self.0.verif_counter()[0])) }
    fn finish(self: Box<Self>, _: &Ctx) -> Vec<u8> { let mut o = vec![0u8; self.1]; cg::crypto_generichash_final(self.0, &mut o).unwrap(); o }
}
struct GhObj<const K: usize, const O: usize>(dryoc::generichash::GenericHash<K, O>);
impl<const K: usize, const O: usize> Inc for GhObj<K, O> {
    fn update(&mut self, d: &[u8]) { self.0.update(d) }
    fn obs(&self) -> (Option<usize>, Option<u64>) { (Some(self.0.verif_buf_len()), None) }
    fn finish(self: Box<Self>, _: &Ctx) -> Vec<u8> { self.0.finalize_to_vec().unwrap() }
}
struct OtaClassic(co::OnetimeauthState);
impl Inc for OtaClassic {
    fn update(&mut self, d: &[u8]) { co::crypto_onetimeauth_update(&mut self.0, d) }
    fn obs(&self) -> (Option<usize>, Option<u64>) { (Some(self.0.verif_buf_len()), None) }
    fn finish(self: Box<Self>, _: &Ctx) -> Vec<u8> { let mut o = [0u8; 16]; co::crypto_onetimeauth_final(self.0, &mut o); o.to_vec() }
}
struct OtaObj(dryoc::onetimeauth::OnetimeAuth);
impl Inc for OtaObj {
    fn update(&mut self, d: &[u8]) { self.0.update(&d.to_vec()) }
    fn obs(&self) -> (Option<usize>, Option<u64>) { (Some(self.0.verif_buf_len()), None) }
    fn finish(self: Box<Self>, _: &Ctx) -> Vec<u8> { self.0.finalize_to_vec() }
}
struct AuthClassic(ca::AuthState);
impl Inc for AuthClassic {
    fn update(&mut self, d: &[u8]) { ca::crypto_auth_update(&mut self.0, d) }
    fn finish(self: Box<Self>, _: &Ctx) -> Vec<u8> { let mut o = [0u8; 32]; ca::crypto_auth_final(self.0, &mut o); o.to_vec() }
}
struct AuthObj(dryoc::auth::Auth);
impl Inc for AuthObj {
    fn update(&mut self, d: &[u8]) { self.0.update(&d.to_vec()) }
    fn finish(self: Box<Self>, _: &Ctx) -> Vec<u8> { self.0.finalize_to_vec() }
}
struct ShaClassic(ch::Sha512State);
impl Inc for ShaClassic {
    fn update(&mut self, d: &[u8]) { ch::crypto_hash_sha512_update(&mut self.0, d) }
    fn finish(self: Box<Self>, _: &Ctx) -> Vec<u8> { let mut o = [0u8; 64]; ch::crypto_hash_sha512_final(self.0, &mut o); o.to_vec() }
}
struct ShaObj(dryoc::sha512::Sha512);
impl Inc for ShaObj {
    fn update(&mut self, d: &[u8]) { self.0.update(d) }
    fn finish(self: Box<Self>, _: &Ctx) -> Vec<u8> { self.0.finalize_to_vec() }
}
struct SignClassic(csg::SignerState);
impl Inc for SignClassic {
    fn update(&mut self, d: &[u8]) { csg::crypto_sign_update(&mut self.0, d) }
    fn finish(self: Box<Self>, c: &Ctx) -> Vec<u8> { let mut s = [0u8; 64]; csg::crypto_sign_final_create(self.0, &mut s, &c.sk).unwrap(); s.to_vec() }
}
struct SignObj(dryoc::sign::IncrementalSigner);
impl Inc for SignObj {
    fn update(&mut self, d: &[u8]) { self.0.update(&d.to_vec()) }
    fn finish(self: Box<Self>, c: &Ctx) -> Vec<u8> { let s: Vec<u8> = self.0.finalize(&c.sk).unwrap(); s }
}
/// incremental verification: "digest" is 1 iff the one-shot signature verifies on the chunked message
struct VerifyClassic(csg::SignerState, [u8; 64]);
impl Inc for VerifyClassic {
    fn update(&mut self, d: &[u8]) { csg::crypto_sign_update(&mut self.0, d) }
    fn finish(self: Box<Self>, c: &Ctx) -> Vec<u8> { vec![csg::crypto_sign_final_verify(self.0, &self.1, &c.pk).is_ok() as u8] }
}
struct VerifyObj(dryoc::sign::IncrementalSigner, [u8; 64]);
impl Inc for VerifyObj {
    fn update(&mut self, d: &[u8]) { self.0.update(&d.to_vec()) }
    fn finish(self: Box<Self>, c: &Ctx) -> Vec<u8> { vec![self.0.verify(&self.1, &c.pk).is_ok() as u8] }
}

pub struct Iface {
    pub name: &'static str,
    /// which buffering model applies: "Lazy0", "Lazy128", "Eager", ""
    pub model: &'static str,
    pub make: fn(&Ctx, &[u8]) -> Box<dyn Inc>,
    pub oneshot: fn(&Ctx, &[u8]) -> Vec<u8>,
    pub heavy: bool,
}

fn so_sign_ph(c: &Ctx, m: &[u8]) -> Vec<u8> {
    unsafe {
        let mut st: so::crypto_sign_state = std::mem::zeroed();
        so::crypto_sign_init(&mut st);
        so::crypto_sign_update(&mut st, m.as_ptr(), m.len() as u64);
        let mut sig = [0u8; 64];
        so::crypto_sign_final_create(&mut st, sig.as_mut_ptr(), std::ptr::null_mut(), c.sk.as_ptr());
        sig.to_vec()
    }
}

pub fn ifaces() -> Vec<Iface> {
    vec![
        Iface { name: "generichash classic", model: "Lazy0", heavy: false,
            make: |_, _| Box::new(GhClassic(cg::crypto_generichash_init(None, 32).unwrap(), 32)),
            oneshot: |_, m| { let mut o = vec![0u8; 32]; cg::crypto_generichash(&mut o, m, None).unwrap(); o } },
        Iface { name: "generichash classic keyed out=64", model: "Lazy128", heavy: false,
            make: |c, _| Box::new(GhClassic(cg::crypto_generichash_init(Some(&c.key32), 64).unwrap(), 64)),
            oneshot: |c, m| { let mut o = vec![0u8; 64]; cg::crypto_generichash(&mut o, m, Some(&c.key32)).unwrap(); o } },
        Iface { name: "GenericHash object", model: "Lazy0", heavy: false,
            make: |_, _| Box::new(GhObj::<32, 32>(dryoc::generichash::GenericHash::<32, 32>::new::<[u8; 32]>(None).unwrap())),
            oneshot: |_, m| dryoc::generichash::GenericHash::<32, 32>::hash_to_vec::<_, [u8; 32]>(&m.to_vec(), None).unwrap() },
        Iface { name: "GenericHash object keyed", model: "Lazy128", heavy: false,
            make: |c, _| Box::new(GhObj::<32, 32>(dryoc::generichash::GenericHash::<32, 32>::new(Some(&c.key32)).unwrap())),
            oneshot: |c, m| dryoc::generichash::GenericHash::<32, 32>::hash_to_vec(&m.to_vec(), Some(&c.key32)).unwrap() },
        // key length and output length differ (the digest length parameter must be the OUTPUT length)
        Iface { name: "GenericHash<32,64> object keyed", model: "Lazy128", heavy: true,
            make: |c, _| Box::new(GhObj::<32, 64>(dryoc::generichash::GenericHash::<32, 64>::new(Some(&c.key32)).unwrap())),
            oneshot: |c, m| { let mut o = vec![0u8; 64]; cg::crypto_generichash(&mut o, m, Some(&c.key32)).unwrap(); o } },
        Iface { name: "GenericHash<64,16> object", model: "Lazy0", heavy: true,
            make: |_, _| Box::new(GhObj::<64, 16>(dryoc::generichash::GenericHash::<64, 16>::new::<[u8; 64]>(None).unwrap())),
            oneshot: |_, m| { let mut o = vec![0u8; 16]; cg::crypto_generichash(&mut o, m, None).unwrap(); o } },
        Iface { name: "GenericHash::new_with_defaults object keyed", model: "Lazy128", heavy: true,
            make: |c, _| Box::new(GhObj::<32, 32>(dryoc::generichash::GenericHash::new_with_defaults(Some(&c.key32)).unwrap())),
            oneshot: |c, m| { let mut o = vec![0u8; 32]; cg::crypto_generichash(&mut o, m, Some(&c.key32)).unwrap(); o } },
        Iface { name: "onetimeauth classic", model: "Eager", heavy: false,
            make: |c, _| Box::new(OtaClassic(co::crypto_onetimeauth_init(&c.key32))),
            oneshot: |c, m| { let mut o = [0u8; 16]; co::crypto_onetimeauth(&mut o, m, &c.key32); o.to_vec() } },
        Iface { name: "OnetimeAuth object", model: "Eager", heavy: false,
            make: |c, _| Box::new(OtaObj(dryoc::onetimeauth::OnetimeAuth::new(c.key32))),
            oneshot: |c, m| dryoc::onetimeauth::OnetimeAuth::compute_to_vec(c.key32, &m.to_vec()) },
        Iface { name: "auth classic", model: "", heavy: false,
            make: |c, _| Box::new(AuthClassic(ca::crypto_auth_init(&c.key32))),
            oneshot: |c, m| { let mut o = [0u8; 32]; ca::crypto_auth(&mut o, m, &c.key32); o.to_vec() } },
        Iface { name: "Auth object", model: "", heavy: false,
            make: |c, _| Box::new(AuthObj(dryoc::auth::Auth::new(c.key32))),
            oneshot: |c, m| dryoc::auth::Auth::compute_to_vec(c.key32, &m.to_vec()) },
        Iface { name: "sha512 classic", model: "", heavy: false,
            make: |_, _| Box::new(ShaClassic(ch::crypto_hash_sha512_init())),
            oneshot: |_, m| { let mut o = [0u8; 64]; ch::crypto_hash_sha512(&mut o, m); o.to_vec() } },
        Iface { name: "Sha512 object", model: "", heavy: false,
            make: |_, _| Box::new(ShaObj(dryoc::sha512::Sha512::new())),
            oneshot: |_, m| dryoc::sha512::Sha512::compute_to_vec(m) },
        Iface { name: "sign incremental classic", model: "", heavy: true,
            make: |_, _| Box::new(SignClassic(csg::crypto_sign_init())),
            oneshot: |c, m| so_sign_ph(c, m) },
        Iface { name: "IncrementalSigner object", model: "", heavy: true,
            make: |_, _| Box::new(SignObj(dryoc::sign::IncrementalSigner::new())),
            oneshot: |c, m| so_sign_ph(c, m) },
        Iface { name: "verify incremental classic", model: "", heavy: true,
            make: |c, m| { let s = so_sign_ph(c, m); let mut a = [0u8; 64]; a.copy_from_slice(&s); Box::new(VerifyClassic(csg::crypto_sign_init(), a)) },
            oneshot: |_, _| vec![1u8] },
        Iface { name: "IncrementalSigner verify object", model: "", heavy: true,
            make: |c, m| { let s = so_sign_ph(c, m); let mut a = [0u8; 64]; a.copy_from_slice(&s); Box::new(VerifyObj(dryoc::sign::IncrementalSigner::new(), a)) },
            oneshot: |_, _| vec![1u8] },
    ]
}

pub fn mk_ctx(rng: &mut Rng) -> Ctx {
    let seed: [u8; 32] = rng.arr();
    let (pk, sk) = csg::crypto_sign_seed_keypair(&seed);
    Ctx { key32: rng.arr(), sk, pk }
}

fn table_lookup(tables: &Value, model: &str, t: usize) -> Option<usize> {
    tables[model][t].as_u64().map(|x| x as usize)
}

/// runs one chunking; returns Err(description)
fn run_split(ifc: &Iface, ctx: &Ctx, msg: &[u8], cuts: &[usize], expect: &[u8], tables: &Value) -> Result<(), Value> {
    let r = catch(|| {
        let mut st = (ifc.make)(ctx, msg);
        let key = if ifc.model == "Lazy128" { 128 } else { 0 };
        let mut prev = 0usize;
        let mut drift: Option<Value> = None;
        let mut bounds: Vec<usize> = cuts.to_vec();
        bounds.push(msg.len());
        for (k, &c) in bounds.iter().enumerate() {
            st.update(&msg[prev..c]);
            prev = c;
            if !ifc.model.is_empty() {
                let (b, _) = st.obs();
                let want = table_lookup(tables, ifc.model, key + c);
                if let (Some(b), Some(w)) = (b, want) {
                    if b != w && drift.is_none() {
                        // the code buffers differently from IncHash.tla: a spec drift, not a verdict; the result decides
                        drift = Some(json!({"what": "DRIFT: buffer fill differs from the model", "after_update": k + 1, "absorbed": c, "got": b, "model": w}));
                    }
                }
            }
        }
        let out = st.finish(ctx);
        if out != expect {
            return Err(json!({"what": "result differs from the one-shot function", "got": hex(&out), "oneshot": hex(expect)}));
        }
        if let Some(d) = drift { return Err(d); }
        Ok(())
    });
    match r {
        Ok(x) => x,
        Err(p) => Err(json!({"what": "panic", "panic": p})),
    }
}

/// `inc-splits <tables.json> <out.json> <seed> <L2> <L3> <L2heavy> <first> <stride>`
pub fn cmd_splits(args: &[String]) {
    let tables: Value = serde_json::from_str(&std::fs::read_to_string(&args[0]).unwrap()).unwrap();
    let seed: u64 = args[2].parse().unwrap();
    let l2: usize = args[3].parse().unwrap();
    let l3: usize = args[4].parse().unwrap();
    let l2h: usize = args[5].parse().unwrap();
    let first: usize = args[6].parse().unwrap();
    let stride: usize = args[7].parse().unwrap();
    let mut rng = Rng::new(seed);
    let ctx = mk_ctx(&mut rng);
    let mut rep = Report::new();
    let ifs = ifaces();
    let lmax = l2.max(l3).max(l2h);
    for len in 0..=lmax {
        let msg = rng.bytes(len);
        if len % stride != first { continue; }
        for ifc in ifs.iter() {
            let expect = (ifc.oneshot)(&ctx, &msg);
            let (m2, m3) = if ifc.heavy { (l2h, 0) } else { (l2, l3) };
            let mut fail = |cuts: &[usize], d: Value, rep: &mut Report| {
                let what = d["what"].as_str().unwrap_or("?").to_string();
                rep.fail(&format!("{}: {}", ifc.name, what), json!({"iface": ifc.name, "len": len, "cuts": cuts, "seed": seed, "divergence": d}));
            };
            if len <= m2 {
                for i in 0..=len {
                    rep.evaluations += 1;
                    rep.distinct_extra += 1;
                    if let Err(d) = run_split(ifc, &ctx, &msg, &[i], &expect, &tables) { fail(&[i], d, &mut rep); }
                }
            }
            if len <= m3 {
                for i in 0..=len {
                    for j in i..=len {
                        rep.evaluations += 1;
                        rep.distinct_extra += 1;
                        if let Err(d) = run_split(ifc, &ctx, &msg, &[i, j], &expect, &tables) { fail(&[i, j], d, &mut rep); }
                    }
                }
            }
            // heavy interfaces: a thinned 3-way family around the SHA-512 block boundary
            if ifc.heavy && len <= l2h && len >= 2 {
                for &(a, b) in &[(0usize, 0usize), (1, 1), (len / 2, len / 2), (1, len - 1), (len / 3, 2 * len / 3)] {
                    rep.evaluations += 1;
                    if let Err(d) = run_split(ifc, &ctx, &msg, &[a.min(len), b.min(len).max(a.min(len))], &expect, &tables) { fail(&[a, b], d, &mut rep); }
                }
            }
        }
        if len == 129 && first == 129 % stride { rep.sample(json!({"len": len, "example_cuts": [[0], [64], [128], [129], [16, 128]], "ifaces": ifs.iter().map(|i| i.name).collect::<Vec<_>>()})); }
    }
    rep.add("lengths", ((lmax + 1) / stride) as u64);
    rep.write(&args[1]);
}

/// `inc-replay <tables.json> <out.json> <iface name> <len> <seed> <cut>...`
pub fn cmd_replay(args: &[String]) {
    let tables: Value = serde_json::from_str(&std::fs::read_to_string(&args[0]).unwrap()).unwrap();
    let name = &args[2];
    let len: usize = args[3].parse().unwrap();
    let seed: u64 = args[4].parse().unwrap();
    let cuts: Vec<usize> = args[5..].iter().map(|x| x.parse().unwrap()).collect();
    let mut rng = Rng::new(seed);
    let ctx = mk_ctx(&mut rng);
    let mut msg = vec![];
    for l in 0..=len { msg = rng.bytes(l); }
    let mut rep = Report::new();
    for ifc in ifaces() {
        if ifc.name != name { continue; }
        let expect = (ifc.oneshot)(&ctx, &msg);
        rep.evaluations += 1;
        if let Err(d) = run_split(&ifc, &ctx, &msg, &cuts, &expect, &tables) {
            rep.fail(&format!("{}: {}", ifc.name, d["what"].as_str().unwrap_or("?")), d);
        }
    }
    rep.write(&args[1]);
}

/// `inc-trace <model Lazy0|Lazy128|Eager> <seed> <runs> <out.ndjson>`: random k-way partitions with empty
/// pieces of 4..64 KiB messages; one event per call.
pub fn cmd_trace(args: &[String]) {
    let model = args[0].as_str();
    let seed: u64 = args[1].parse().unwrap();
    let runs: u64 = args[2].parse().unwrap();
    let mut out = std::io::BufWriter::new(std::fs::File::create(&args[3]).unwrap());
    let mut rng = Rng::new(seed ^ 0x77);
    let ctx = mk_ctx(&mut rng);
    let ifs = ifaces();
    let cands: Vec<&Iface> = ifs.iter().filter(|i| i.model == model).collect();
    for run in 0..runs {
        let ifc = cands[(run as usize) % cands.len()];
        let len = 4096 + rng.below(61440) as usize;
        let msg = rng.bytes(len);
        let expect = (ifc.oneshot)(&ctx, &msg);
        writeln!(out, "{}", json!({"ev": "reset", "iface": ifc.name, "len": len})).unwrap();
        let mut st = (ifc.make)(&ctx, &msg);
        let mut pos = 0usize;
        while pos < len {
            let n = match rng.below(10) {
                0 => 0,
                1 => 1,
                2 => 16,
                3 => 128,
                4 => 127 + rng.below(3) as usize,
                5 => 15 + rng.below(3) as usize,
                6 => 256 * (1 + rng.below(4) as usize),
                _ => rng.below(700) as usize,
            }.min(len - pos);
            st.update(&msg[pos..pos + n]);
            pos += n;
            let (b, c) = st.obs();
            writeln!(out, "{}", json!({"ev": "update", "n": n, "buf": b.map(|x| x as i64).unwrap_or(-1), "ctr": c.map(|x| x as i64).unwrap_or(-1)})).unwrap();
        }
        let got = st.finish(&ctx);
        writeln!(out, "{}", json!({"ev": "final", "eq": got == expect})).unwrap();
    }
}


/// `inc-params <out.json> <seed>` (C08): the one-shot and the incremental entry point agree on the RESULT CLASS as well -
/// for every key length and digest length, inside and outside the accepted ranges, both return the same bytes or both
/// refuse (and neither panics), whatever the chunking.
pub fn cmd_params(args: &[String]) {
    let seed: u64 = args[1].parse().unwrap();
    let mut rng = Rng::new(seed ^ 0xa11);
    let mut rep = Report::new();
    let keylens: [i64; 16] = [-1, 0, 1, 8, 15, 16, 17, 32, 63, 64, 65, 128, 255, 256, 272, 320];
    let outlens: [usize; 12] = [0, 1, 8, 15, 16, 17, 32, 63, 64, 65, 128, 256];
    let cls = |r: &Result<Result<Vec<u8>, String>, String>| -> String { match r { Ok(Ok(_)) => "Ok".into(), Ok(Err(_)) => "Err".into(), Err(_) => "Panic".into() } };
    for &kl in keylens.iter() {
        for &ol in outlens.iter() {
            let key = if kl < 0 { None } else { Some(rng.bytes(kl as usize)) };
            let msg = rng.bytes(200);
            rep.case(&format!("params|{}|{}", kl, ol));
            let one = catch(|| { let mut o = vec![0u8; ol]; cg::crypto_generichash(&mut o, &msg, key.as_deref()).map(|_| o).map_err(|e| format!("{:?}", e)) });
            for cuts in [vec![], vec![0usize], vec![64], vec![128], vec![1, 129], vec![200]] {
                rep.evaluations += 1;
                let inc = catch(|| -> Result<Vec<u8>, String> {
                    let mut st = cg::crypto_generichash_init(key.as_deref(), ol).map_err(|e| format!("{:?}", e))?;
                    let mut prev = 0usize;
                    for &c in cuts.iter() { cg::crypto_generichash_update(&mut st, &msg[prev..c]); prev = c; }
                    cg::crypto_generichash_update(&mut st, &msg[prev..]);
                    let mut o = vec![0u8; ol];
                    cg::crypto_generichash_final(st, &mut o).map_err(|e| format!("{:?}", e))?;
                    Ok(o)
                });
                let d = json!({"keylen": kl, "outlen": ol, "cuts": cuts, "oneshot": cls(&one), "incremental": cls(&inc)});
                if cls(&inc) == "Panic" || cls(&one) == "Panic" { rep.fail("generichash: a parameter outside the accepted range panics instead of returning an error", d.clone()); continue; }
                if cls(&one) != cls(&inc) { rep.fail("generichash: one-shot and incremental disagree on whether the parameters are acceptable", d.clone()); continue; }
                if let (Ok(Ok(a)), Ok(Ok(b))) = (&one, &inc) { if a != b { rep.fail("generichash: incremental result differs from the one-shot function", d.clone()); } }
            }
            // libsodium's verdict on the same parameters (the accepted ranges are libsodium's)
            let mut so_out = vec![0u8; ol.max(1)];
            let rc = unsafe { so::crypto_generichash(so_out.as_mut_ptr(), ol, msg.as_ptr(), msg.len() as u64, key.as_ref().map(|k| k.as_ptr()).unwrap_or(std::ptr::null()), key.as_ref().map(|k| k.len()).unwrap_or(0)) };
            // libsodium accepts keys of 0..=64 bytes and digests of 1..=64 at this level; dryoc documents 16..=64 for both: only
            // the direction "dryoc accepts what libsodium refuses" is judged
            if rc != 0 && cls(&one) == "Ok" { rep.fail("generichash: accepts parameters libsodium refuses", json!({"keylen": kl, "outlen": ol})); }
        }
    }
    // the object API with the key in a container that has no length of its own (Vec, slice): whatever the one-shot form makes of
    // a key that holds more or fewer bytes than KEY_LENGTH, the incremental form makes the same of it
    {
        use dryoc::generichash::GenericHash;
        for kl in [16usize, 31, 32, 33, 48, 64] {
            let key = rng.bytes(kl);
            let msg = rng.bytes(150);
            rep.evaluations += 1;
            let one = catch(|| GenericHash::<32, 32>::hash::<Vec<u8>, Vec<u8>, Vec<u8>>(&msg, Some(&key)).map_err(|e| format!("{:?}", e)));
            let inc = catch(|| -> Result<Vec<u8>, String> { let mut h = GenericHash::<32, 32>::new(Some(&key)).map_err(|e| format!("{:?}", e))?; h.update(&msg[..70].to_vec()); h.update(&msg[70..].to_vec()); h.finalize::<Vec<u8>>().map_err(|e| format!("{:?}", e)) });
            let d = json!({"key_container": "Vec<u8>", "key_len": kl, "KEY_LENGTH": 32, "oneshot": cls(&one), "incremental": cls(&inc)});
            if cls(&one) != cls(&inc) { rep.fail("GenericHash object (key in a Vec): one-shot and incremental disagree on whether the key is acceptable", d.clone()); continue; }
            if let (Ok(Ok(a)), Ok(Ok(b))) = (&one, &inc) { if a != b { rep.fail("GenericHash object (key in a Vec): incremental result differs from the one-shot function", d.clone()); } }
        }
    }
    rep.write(&args[0]);
}
