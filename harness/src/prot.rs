//! C14 / C15 / C19: protected memory. Replays behaviours of Protected.tla against the real
//! containers and compares, after every operation, the kernel's view (/proc/self/smaps), the
//! allocator observers (hook H2) and the bytes with what the specification predicts.
//! Every behaviour runs in a forked child; crashes are observations.
use crate::common::*;
use dryoc::protected::*;
use serde_json::{json, Value};
use std::io::{BufRead, Write};
use std::sync::atomic::{AtomicUsize, Ordering};
use zeroize::Zeroize;

type RW = traits::ReadWrite;
type RO = traits::ReadOnly;
type NA = traits::NoAccess;
type LK = traits::Locked;
type UL = traits::Unlocked;

pub fn page() -> usize {
    unsafe { libc::sysconf(libc::_SC_PAGE_SIZE) as usize }
}

pub fn pat(i: usize) -> u8 {
    ((i * 31 + 7) % 255) as u8 + 1
}
pub fn pattern(n: usize) -> Vec<u8> {
    (0..n).map(pat).collect()
}

// ------------------------------------------------------------------------------- observers (H2)
const MAXEV: usize = 64;
static mut ALLOCS: [(usize, usize); MAXEV] = [(0, 0); MAXEV];
static NALLOC: AtomicUsize = AtomicUsize::new(0);
static mut RELS: [(usize, usize, usize); MAXEV] = [(0, 0, 0); MAXEV];
static NREL: AtomicUsize = AtomicUsize::new(0);

fn on_alloc(addr: usize, size: usize) {
    // scrub: whatever is non-zero at release was written through the container
    unsafe { std::ptr::write_bytes(addr as *mut u8, 0, size) };
    let i = NALLOC.fetch_add(1, Ordering::SeqCst);
    if i < MAXEV {
        unsafe { ALLOCS[i] = (addr, size) };
    }
}
fn on_release(addr: usize, size: usize) {
    // the block as it was handed out (a release with a smaller layout still gives all of it back)
    let n = std::cmp::min(NALLOC.load(Ordering::SeqCst), MAXEV);
    let mut full = size;
    for i in (0..n).rev() {
        let (a, sz) = unsafe { ALLOCS[i] };
        if a == addr { full = std::cmp::max(full, sz); break; }
    }
    let s = unsafe { std::slice::from_raw_parts(addr as *const u8, full) };
    let nz = s.iter().filter(|b| **b != 0).count();
    let i = NREL.fetch_add(1, Ordering::SeqCst);
    if i < MAXEV {
        unsafe { RELS[i] = (addr, size, nz) };
    }
}
pub fn install_observers() {
    NALLOC.store(0, Ordering::SeqCst);
    NREL.store(0, Ordering::SeqCst);
    dryoc::protected::verif::set_alloc_observer(Some(on_alloc));
    dryoc::protected::verif::set_release_observer(Some(on_release));
}
fn allocs() -> Vec<(usize, usize)> {
    let n = std::cmp::min(NALLOC.load(Ordering::SeqCst), MAXEV);
    (0..n).map(|i| unsafe { ALLOCS[i] }).collect()
}
fn rels() -> Vec<(usize, usize, usize)> {
    let n = std::cmp::min(NREL.load(Ordering::SeqCst), MAXEV);
    (0..n).map(|i| unsafe { RELS[i] }).collect()
}

// ------------------------------------------------------------------------------- mlock shim (C19)
type SetFn = unsafe extern "C" fn(i32);
type GetFn = unsafe extern "C" fn() -> i32;
fn shim_set(budget: i64) -> bool {
    unsafe {
        let f = libc::dlsym(libc::RTLD_DEFAULT, b"mlockfail_set\0".as_ptr() as *const _);
        if f.is_null() {
            return false;
        }
        let f: SetFn = std::mem::transmute(f);
        f(if budget >= 99 { -1 } else { budget as i32 });
        true
    }
}
#[allow(dead_code)]
fn shim_calls() -> i32 {
    unsafe {
        let f = libc::dlsym(libc::RTLD_DEFAULT, b"mlockfail_calls\0".as_ptr() as *const _);
        if f.is_null() {
            return -1;
        }
        let f: GetFn = std::mem::transmute(f);
        f()
    }
}

// ------------------------------------------------------------------------------- kernel view
#[derive(Clone, Debug)]
pub struct Vma {
    pub start: usize,
    pub end: usize,
    pub perms: String,
    pub locked: bool,
}
pub fn smaps() -> Vec<Vma> {
    let txt = std::fs::read_to_string("/proc/self/smaps").unwrap_or_default();
    let mut out: Vec<Vma> = vec![];
    for line in txt.lines() {
        let mut toks = line.split_whitespace();
        let t0 = toks.next().unwrap_or("");
        let t1 = toks.next().unwrap_or("");
        if t0.contains('-') && !t0.ends_with(':') && t1.len() == 4 && t0.bytes().all(|c| c.is_ascii_hexdigit() || c == b'-') {
            let mut it = line.split_whitespace();
            let range = it.next().unwrap();
            let perms = it.next().unwrap_or("").to_string();
            let mut r = range.split('-');
            let s = usize::from_str_radix(r.next().unwrap(), 16).unwrap_or(0);
            let e = usize::from_str_radix(r.next().unwrap_or("0"), 16).unwrap_or(0);
            out.push(Vma { start: s, end: e, perms, locked: false });
        } else if line.starts_with("VmFlags:") {
            if let Some(v) = out.last_mut() {
                v.locked = line.split_whitespace().any(|f| f == "lo");
            }
        }
    }
    out
}
/// code as in GenProtected.tla: 0 rw, 1 r, 2 none, +4 locked; 99 = unmapped
pub fn page_code(v: &[Vma], addr: usize) -> u64 {
    for m in v {
        if addr >= m.start && addr < m.end {
            let p = &m.perms.as_bytes()[..2];
            let c = match p {
                b"rw" => 0,
                b"r-" => 1,
                b"--" => 2,
                _ => 3,
            };
            return c + if m.locked { 4 } else { 0 };
        }
    }
    99
}
pub fn vmlck_kb() -> i64 {
    let txt = std::fs::read_to_string("/proc/self/status").unwrap_or_default();
    for l in txt.lines() {
        if l.starts_with("VmLck:") {
            return l.split_whitespace().nth(1).and_then(|x| x.parse().ok()).unwrap_or(-1);
        }
    }
    -1
}

/// Performs a raw access in a forked grandchild; true = it faulted.
pub fn probe_fault(addr: usize, write: bool) -> bool {
    unsafe {
        let pid = libc::fork();
        if pid == 0 {
            libc::signal(libc::SIGSEGV, libc::SIG_DFL);
            libc::signal(libc::SIGBUS, libc::SIG_DFL);
            let p = addr as *mut u8;
            if write {
                std::ptr::write_volatile(p, 0xA5);
            } else {
                let _ = std::ptr::read_volatile(p);
            }
            libc::_exit(0);
        }
        let mut st = 0;
        libc::waitpid(pid, &mut st, 0);
        libc::WIFSIGNALED(st)
    }
}

// ------------------------------------------------------------------------------- typed regions
pub enum Reg<A: Zeroize + Bytes> {
    Plain(A),
    RWL(Protected<A, RW, LK>),
    RWU(Protected<A, RW, UL>),
    ROL(Protected<A, RO, LK>),
    ROU(Protected<A, RO, UL>),
    NAU(Protected<A, NA, UL>),
    NAL(Protected<A, NA, LK>),
}

/// What differs between the fixed-length and the resizable container.
pub trait Kind: Zeroize + Bytes + MutBytes + NewBytes + Lockable<Self> + Default + Clone + Sized {
    fn construct(form: &str, data: &[u8]) -> Result<Reg<Self>, String>;
    fn resize_reg(r: &mut Reg<Self>, n: usize) -> Result<(), String>;
    fn clone_locked(r: &Reg<Self>) -> Result<Reg<Self>, String>;
}

fn io<T>(r: Result<T, std::io::Error>) -> Result<T, String> {
    r.map_err(|e| format!("{}", e))
}
fn de<T>(r: Result<T, dryoc::Error>) -> Result<T, String> {
    r.map_err(|e| format!("{:?}", e))
}

impl<const N: usize> Kind for HeapByteArray<N> {
    fn construct(form: &str, data: &[u8]) -> Result<Reg<Self>, String> {
        Ok(match form {
            "new_locked" => Reg::RWL(io(Self::new_locked())?),
            "new_readonly_locked" => Reg::ROL(io(Self::new_readonly_locked())?),
            "gen_locked" => Reg::RWL(io(Self::gen_locked())?),
            "gen_readonly_locked" => Reg::ROL(io(Self::gen_readonly_locked())?),
            "from_slice_into_locked" => Reg::RWL(de(Self::from_slice_into_locked(data))?),
            "from_slice_into_readonly_locked" => Reg::ROL(de(Self::from_slice_into_readonly_locked(data))?),
            "stack_mlock" => {
                let mut s = StackByteArray::<N>::new_byte_array();
                s.copy_from_slice(data);
                Reg::RWL(io(s.mlock())?)
            }
            "stack_mprotect_readonly" => {
                let mut s = StackByteArray::<N>::new_byte_array();
                s.copy_from_slice(data);
                Reg::ROU(io(s.mprotect_readonly())?)
            }
            "heap" => {
                let mut h = Self::new_byte_array();
                MutBytes::copy_from_slice(&mut h, data);
                Reg::Plain(h)
            }
            _ => return Err(format!("HARNESS: unknown form {}", form)),
        })
    }
    fn resize_reg(_r: &mut Reg<Self>, _n: usize) -> Result<(), String> {
        Err("HARNESS: resize on fixed-length container".into())
    }
    fn clone_locked(_r: &Reg<Self>) -> Result<Reg<Self>, String> {
        Err("HARNESS: locked fixed-length container is not Clone".into())
    }
}

impl Kind for HeapBytes {
    fn construct(form: &str, data: &[u8]) -> Result<Reg<Self>, String> {
        Ok(match form {
            "new_locked" => Reg::RWL(io(Self::new_locked())?),
            "new_readonly_locked" => Reg::ROL(io(Self::new_readonly_locked())?),
            "from_slice_into_locked" => Reg::RWL(de(Self::from_slice_into_locked(data))?),
            "from_slice_into_readonly_locked" => Reg::ROL(de(Self::from_slice_into_readonly_locked(data))?),
            "heap" => {
                let mut h = Self::new_bytes();
                h.resize(data.len(), 0);
                MutBytes::copy_from_slice(&mut h, data);
                Reg::Plain(h)
            }
            _ => return Err(format!("HARNESS: form {} not offered by HeapBytes", form)),
        })
    }
    fn resize_reg(r: &mut Reg<Self>, n: usize) -> Result<(), String> {
        match r {
            Reg::Plain(a) => a.resize(n, 0),
            Reg::RWL(p) => p.resize(n, 0),
            Reg::RWU(p) => p.resize(n, 0),
            _ => return Err("HARNESS: resize needs a writable region".into()),
        }
        Ok(())
    }
    fn clone_locked(r: &Reg<Self>) -> Result<Reg<Self>, String> {
        match r {
            Reg::RWL(p) => Ok(Reg::RWL(p.clone())),
            Reg::ROL(p) => Ok(Reg::ROL(p.clone())),
            _ => Err("HARNESS: clone_locked on unlocked".into()),
        }
    }
}

impl<A: Kind> Reg<A> {
    fn state(&self) -> (&'static str, &'static str, &'static str) {
        match self {
            Reg::Plain(_) => ("Plain", "RW", "Unlocked"),
            Reg::RWL(_) => ("Prot", "RW", "Locked"),
            Reg::RWU(_) => ("Prot", "RW", "Unlocked"),
            Reg::ROL(_) => ("Prot", "RO", "Locked"),
            Reg::ROU(_) => ("Prot", "RO", "Unlocked"),
            Reg::NAU(_) => ("Prot", "NA", "Unlocked"),
            Reg::NAL(_) => ("Prot", "NA", "Locked"),
        }
    }
    fn view(&self) -> Option<&[u8]> {
        match self {
            Reg::Plain(a) => Some(a.as_slice()),
            Reg::RWL(p) => Some(p.as_slice()),
            Reg::RWU(p) => Some(p.as_slice()),
            Reg::ROL(p) => Some(p.as_slice()),
            Reg::ROU(p) => Some(p.as_slice()),
            _ => None,
        }
    }
    fn view_mut(&mut self) -> Option<&mut [u8]> {
        match self {
            Reg::Plain(a) => Some(a.as_mut_slice()),
            Reg::RWL(p) => Some(p.as_mut_slice()),
            Reg::RWU(p) => Some(p.as_mut_slice()),
            _ => None,
        }
    }
    /// consuming transitions: Ok(new) | Err(msg) (the region is gone)
    fn lock(self) -> Result<Reg<A>, String> {
        match self {
            Reg::Plain(a) => Ok(Reg::RWL(io(Lockable::mlock(a))?)),
            Reg::RWU(p) => Ok(Reg::RWL(io(p.mlock())?)),
            Reg::ROU(p) => Ok(Reg::ROL(io(p.mlock())?)),
            Reg::NAU(p) => Ok(Reg::NAL(io(p.mlock())?)),
            _ => Err("HARNESS: lock not offered in this state".into()),
        }
    }
    fn unlock(self) -> Result<Reg<A>, String> {
        match self {
            Reg::RWL(p) => Ok(Reg::RWU(io(p.munlock())?)),
            Reg::RWU(p) => Ok(Reg::RWU(io(p.munlock())?)),
            Reg::ROL(p) => Ok(Reg::ROU(io(p.munlock())?)),
            Reg::ROU(p) => Ok(Reg::ROU(io(p.munlock())?)),
            Reg::NAU(p) => Ok(Reg::NAU(io(p.munlock())?)),
            Reg::NAL(p) => Ok(Reg::NAU(io(p.munlock())?)),
            Reg::Plain(_) => Err("HARNESS: unlock on plain container".into()),
        }
    }
    fn protect(self, pm: &str) -> Result<Reg<A>, String> {
        match (self, pm) {
            (Reg::RWL(p), "RO") => Ok(Reg::ROL(io(p.mprotect_readonly())?)),
            (Reg::RWL(p), "RW") => Ok(Reg::RWL(io(p.mprotect_readwrite())?)),
            (Reg::ROL(p), "RO") => Ok(Reg::ROL(io(p.mprotect_readonly())?)),
            (Reg::ROL(p), "RW") => Ok(Reg::RWL(io(p.mprotect_readwrite())?)),
            (Reg::NAL(p), "RO") => Ok(Reg::ROL(io(p.mprotect_readonly())?)),
            (Reg::NAL(p), "RW") => Ok(Reg::RWL(io(p.mprotect_readwrite())?)),
            (Reg::RWU(p), "RO") => Ok(Reg::ROU(io(p.mprotect_readonly())?)),
            (Reg::RWU(p), "RW") => Ok(Reg::RWU(io(p.mprotect_readwrite())?)),
            (Reg::RWU(p), "NA") => Ok(Reg::NAU(io(p.mprotect_noaccess())?)),
            (Reg::ROU(p), "RO") => Ok(Reg::ROU(io(p.mprotect_readonly())?)),
            (Reg::ROU(p), "RW") => Ok(Reg::RWU(io(p.mprotect_readwrite())?)),
            (Reg::ROU(p), "NA") => Ok(Reg::NAU(io(p.mprotect_noaccess())?)),
            (Reg::NAU(p), "RO") => Ok(Reg::ROU(io(p.mprotect_readonly())?)),
            (Reg::NAU(p), "RW") => Ok(Reg::RWU(io(p.mprotect_readwrite())?)),
            (Reg::NAU(p), "NA") => Ok(Reg::NAU(io(p.mprotect_noaccess())?)),
            _ => Err("HARNESS: protect not offered in this state".into()),
        }
    }
    fn dup(&self) -> Result<Reg<A>, String> {
        match self {
            Reg::Plain(a) => Ok(Reg::Plain(a.clone())),
            Reg::RWU(p) => Ok(Reg::RWU(p.clone())),
            Reg::ROU(p) => Ok(Reg::ROU(p.clone())),
            Reg::RWL(_) | Reg::ROL(_) => A::clone_locked(self),
            _ => Err("HARNESS: clone not offered in this state".into()),
        }
    }
}

macro_rules! any_reg {
    ($($v:ident => $n:expr),*) => {
        pub enum AnyReg { B(Reg<HeapBytes>), $($v(Reg<HeapByteArray<$n>>)),* }
        impl AnyReg {
            fn construct(kind: &str, len: usize, form: &str, data: &[u8]) -> Result<AnyReg, String> {
                if kind == "Resizable" { return Ok(AnyReg::B(HeapBytes::construct(form, data)?)); }
                match len {
                    $($n => Ok(AnyReg::$v(<HeapByteArray<$n>>::construct(form, data)?)),)*
                    _ => Err(format!("HARNESS: no fixed container of length {}", len)),
                }
            }
            fn state(&self) -> (&'static str, &'static str, &'static str) {
                match self { AnyReg::B(r) => r.state(), $(AnyReg::$v(r) => r.state()),* }
            }
            fn view(&self) -> Option<&[u8]> {
                match self { AnyReg::B(r) => r.view(), $(AnyReg::$v(r) => r.view()),* }
            }
            fn view_mut(&mut self) -> Option<&mut [u8]> {
                match self { AnyReg::B(r) => r.view_mut(), $(AnyReg::$v(r) => r.view_mut()),* }
            }
            fn lock(self) -> Result<AnyReg, String> {
                match self { AnyReg::B(r) => r.lock().map(AnyReg::B), $(AnyReg::$v(r) => r.lock().map(AnyReg::$v)),* }
            }
            fn unlock(self) -> Result<AnyReg, String> {
                match self { AnyReg::B(r) => r.unlock().map(AnyReg::B), $(AnyReg::$v(r) => r.unlock().map(AnyReg::$v)),* }
            }
            fn protect(self, pm: &str) -> Result<AnyReg, String> {
                match self { AnyReg::B(r) => r.protect(pm).map(AnyReg::B), $(AnyReg::$v(r) => r.protect(pm).map(AnyReg::$v)),* }
            }
            fn dup(&self) -> Result<AnyReg, String> {
                match self { AnyReg::B(r) => r.dup().map(AnyReg::B), $(AnyReg::$v(r) => r.dup().map(AnyReg::$v)),* }
            }
            fn resize(&mut self, n: usize) -> Result<(), String> {
                match self { AnyReg::B(r) => HeapBytes::resize_reg(r, n), _ => Err("HARNESS: resize on fixed-length container".into()) }
            }
        }
    };
}
any_reg!(F0 => 0, F1 => 1, F16 => 16, F32 => 32, F64 => 64, F4095 => 4095, F4096 => 4096, F4097 => 4097, F8192 => 8192, F8193 => 8193);

// ------------------------------------------------------------------------------- one behaviour
struct Slot {
    reg: Option<AnyReg>,
    shadow: Vec<u8>, // the bytes the region must hold
}

fn sval<'a>(v: &'a Value, i: usize) -> &'a str {
    v[i].as_str().unwrap_or("")
}

/// Runs one behaviour; returns a list of divergences (empty = conforms). `probe`: do fault probes.
/// Result-returning constructors of the object API that build several locked regions; the object is dropped
/// before returning, so only allocations, releases and the result are left to observe.
fn composite(f: &str) -> Result<(), String> {
    use dryoc::keypair::{PublicKey, SecretKey};
    use dryoc::precalc::PrecalcSecretKey;
    use dryoc::sign::protected::LockedSigningKeyPair;
    use dryoc::protected::{HeapByteArray, LockedRO};
    type LockedROSigningKeyPair = dryoc::sign::SigningKeyPair<LockedRO<HeapByteArray<32>>, LockedRO<HeapByteArray<64>>>;
    type LockedKeyPair = dryoc::dryocbox::protected::LockedKeyPair;
    type LockedROKeyPair = dryoc::dryocbox::protected::LockedROKeyPair;
    fn e<T, E: std::fmt::Debug>(r: Result<T, E>) -> Result<(), String> { r.map(|v| drop(v)).map_err(|e| format!("{:?}", e)) }
    let pk = PublicKey::from([9u8; 32]);
    let sk = SecretKey::from([7u8; 32]);
    match f {
        "KeyPair::new_locked_keypair" => e(LockedKeyPair::new_locked_keypair()),
        "KeyPair::gen_locked_keypair" => e(LockedKeyPair::gen_locked_keypair()),
        "KeyPair::gen_readonly_locked_keypair" => e(LockedROKeyPair::gen_readonly_locked_keypair()),
        "SigningKeyPair::new_locked_keypair" => e(LockedSigningKeyPair::new_locked_keypair()),
        "SigningKeyPair::gen_locked_keypair" => e(LockedSigningKeyPair::gen_locked_keypair()),
        "SigningKeyPair::gen_readonly_locked_keypair" => e(LockedROSigningKeyPair::gen_readonly_locked_keypair()),
        "PrecalcSecretKey::precalculate_locked" => e(PrecalcSecretKey::precalculate_locked(&pk, &sk)),
        "PrecalcSecretKey::precalculate_readonly_locked" => e(PrecalcSecretKey::precalculate_readonly_locked(&pk, &sk)),
        _ => Err(format!("HARNESS: unknown composite constructor {}", f)),
    }
}

/// Decoding into locked containers (serde): the value is dropped before returning.
fn deserialize(f: &str) -> Result<(), String> {
    use dryoc::protected::{HeapByteArray, Locked, LockedBytes};
    type LK32 = Locked<HeapByteArray<32>>;
    type LKP = dryoc::dryocbox::protected::LockedKeyPair;
    let arr: Vec<u8> = (1..=32u8).collect();
    let long: Vec<u8> = (0..40u8).map(|i| i.wrapping_mul(7) | 1).collect();
    let json_seq = |v: &[u8]| serde_json::to_string(v).unwrap();
    fn e<T, E: std::fmt::Display>(r: Result<T, E>) -> Result<(), String> { r.map(|v| drop(v)).map_err(|e| e.to_string()) }
    match f {
        "json seq -> Locked<HeapByteArray<32>>" => e(serde_json::from_str::<LK32>(&json_seq(&arr))),
        "bincode bytes -> Locked<HeapByteArray<32>>" => e(bincode::deserialize::<LK32>(&bincode::serialize(&serde_bytes_like(&arr)).unwrap())),
        "json seq -> LockedBytes" => e(serde_json::from_str::<LockedBytes>(&json_seq(&long))),
        "bincode bytes -> LockedBytes" => e(bincode::deserialize::<LockedBytes>(&bincode::serialize(&serde_bytes_like(&long)).unwrap())),
        // a deserializer that announces the length of the sequence (serde's own SeqDeserializer; CBOR and MessagePack arrays do too)
        "hinted seq -> Locked<HeapByteArray<32>>" => { use serde::Deserialize; let d = serde::de::value::SeqDeserializer::<_, serde::de::value::Error>::new(arr.iter().copied()); e(LK32::deserialize(d)) }
        "hinted seq -> LockedBytes" => { use serde::Deserialize; let d = serde::de::value::SeqDeserializer::<_, serde::de::value::Error>::new(long.iter().copied()); e(LockedBytes::deserialize(d)) }
        "json -> LockedKeyPair" => { let j = format!("{{\"public_key\":{},\"secret_key\":{}}}", json_seq(&arr), json_seq(&arr)); e(serde_json::from_str::<LKP>(&j)) }
        "bincode -> LockedKeyPair" => { let mut b = bincode::serialize(&serde_bytes_like(&arr)).unwrap(); let b2 = b.clone(); b.extend(b2); e(bincode::deserialize::<LKP>(&b)) }
        _ => Err(format!("HARNESS: unknown decoder {}", f)),
    }
}
/// bincode's encoding of a byte string: u64 length, then the bytes (what `serialize_bytes` writes)
struct BytesLike(Vec<u8>);
fn serde_bytes_like(v: &[u8]) -> BytesLike { BytesLike(v.to_vec()) }
impl serde::Serialize for BytesLike {
    fn serialize<S: serde::Serializer>(&self, s: S) -> Result<S::Ok, S::Error> { s.serialize_bytes(&self.0) }
}

pub fn run_case(case: &Value, probe: bool, progress: *mut u32) -> Vec<Value> {
    let mut fails: Vec<Value> = vec![];
    let steps = match case.as_array() {
        Some(s) => s,
        None => return vec![json!({"key": "HARNESS: case is not an array"})],
    };
    let pg = page();
    install_observers();
    let budget = steps[0]["op"][1].as_i64().unwrap_or(99);
    let have_shim = shim_set(budget);
    if budget < 99 && !have_shim {
        return vec![json!({"key": "HARNESS: mlock shim not loaded"})];
    }
    let lck0 = vmlck_kb();
    let mut slots: Vec<Slot> = (0..3).map(|_| Slot { reg: None, shadow: vec![] }).collect();
    let mut probed: std::collections::HashSet<(u64, usize, bool)> = Default::default();
    // Some(reason) once the code's allocation behaviour no longer follows the model: from then on only the
    // model-independent oracles decide (type state vs kernel, wipe at release, residue at the end)
    let mut drift: Option<Value> = None;
    // PROT_MODE=mlockall: every page of the process is locked (mlockall(MCL_CURRENT | MCL_FUTURE)), as in a daemon that pins
    // itself in RAM.  Page states then say nothing about the library; only the wipe-before-release oracles of C15 are active.
    let wipe_only = std::env::var("PROT_MODE").map(|v| v == "mlockall").unwrap_or(false);
    // PROT_MODE=unwind: every drop of the behaviour happens while the thread unwinds from a panic (caught above it); a region
    // released that way is held to everything a region released by an ordinary drop is
    let unwinding = std::env::var("PROT_MODE").map(|v| v == "unwind").unwrap_or(false);
    if wipe_only {
        if unsafe { libc::mlockall(libc::MCL_CURRENT | libc::MCL_FUTURE) } != 0 {
            return vec![json!({"key": "HARNESS: mlockall refused"})];
        }
        drift = Some(json!({"what": "mlockall mode"}));
    }
    let mut nrel_seen = 0usize;
    let mut result_drift = false;
    // where the bytes of each handle were last seen (a no-access region offers no view; its pages are still judged)
    let mut known: Vec<(usize, usize)> = vec![(0, 0); 3];

    for (si, st) in steps.iter().enumerate().skip(1) {
        if result_drift { break; }
        unsafe { *progress = si as u32 };
        let op = &st["op"];
        let name = sval(op, 0);
        let h = op[1].as_u64().unwrap_or(0) as usize;
        let exp_res = st["res"].as_str().unwrap_or("");
        macro_rules! fail {
            ($key:expr, $($d:tt)*) => { fails.push(json!({"key": $key, "step": si, "op": op, "info": json!($($d)*)})) };
        }
        // ---- execute
        let outcome: Result<Result<(), String>, String> = match name {
            "ctor" => {
                let form = sval(op, 2).to_string();
                let kind = sval(op, 3).to_string();
                let len = op[4].as_u64().unwrap() as usize;
                let data = pattern(len);
                let r = catch(|| AnyReg::construct(&kind, len, &form, &data));
                match r {
                    Ok(Ok(reg)) => {
                        let sh = match form.as_str() {
                            "new_locked" | "new_readonly_locked" => vec![0u8; len],
                            "gen_locked" | "gen_readonly_locked" => {
                                let v = reg.view().map(|s| s.to_vec()).unwrap_or_default();
                                if len >= 16 && v.iter().all(|b| *b == 0) {
                                    fail!("gen_locked returned all-zero bytes", {"len": len});
                                }
                                v
                            }
                            _ => data.clone(),
                        };
                        slots[h] = Slot { reg: Some(reg), shadow: sh };
                        Ok(Ok(()))
                    }
                    Ok(Err(e)) => Ok(Err(e)),
                    Err(p) => Err(p),
                }
            }
            "heap_mlock" | "mlock" => {
                let reg = slots[h].reg.take();
                match reg {
                    None => Ok(Err("HARNESS: no region".into())),
                    Some(r) => match catch(|| r.lock()) {
                        Ok(Ok(n)) => { slots[h].reg = Some(n); Ok(Ok(())) }
                        Ok(Err(e)) => Ok(Err(e)),
                        Err(p) => Err(p),
                    },
                }
            }
            "munlock" => {
                let reg = slots[h].reg.take();
                match reg {
                    None => Ok(Err("HARNESS: no region".into())),
                    Some(r) => match catch(|| r.unlock()) {
                        Ok(Ok(n)) => { slots[h].reg = Some(n); Ok(Ok(())) }
                        Ok(Err(e)) => Ok(Err(e)),
                        Err(p) => Err(p),
                    },
                }
            }
            "mprotect" => {
                let pm = sval(op, 2).to_string();
                let reg = slots[h].reg.take();
                match reg {
                    None => Ok(Err("HARNESS: no region".into())),
                    Some(r) => match catch(|| r.protect(&pm)) {
                        Ok(Ok(n)) => { slots[h].reg = Some(n); Ok(Ok(())) }
                        Ok(Err(e)) => Ok(Err(e)),
                        Err(p) => Err(p),
                    },
                }
            }
            "drop" => {
                let reg = slots[h].reg.take();
                if unwinding {
                    // the region goes out of scope while its thread unwinds from a panic the process survives
                    match catch(move || { let _alive = reg; if true { std::panic::resume_unwind(Box::new("PROT_MODE=unwind")); } }) {
                        Err(_) => Ok(Ok(())),
                        Ok(()) => Err("the injected panic did not unwind".to_string()),
                    }
                } else {
                    match catch(move || drop(reg)) {
                        Ok(()) => Ok(Ok(())),
                        Err(p) => Err(p),
                    }
                }
            }
            "deserialize" => {
                // transient allocations of the decoder are not part of the model: each must have been released, wiped
                let f = sval(op, 2).to_string();
                let (na, nr) = (NALLOC.load(Ordering::SeqCst), NREL.load(Ordering::SeqCst));
                let r = catch(move || deserialize(&f));
                let (al2, rl2) = (allocs(), rels());
                for (a, sz) in al2.iter().skip(na) {
                    match rl2.iter().skip(nr).find(|x| x.0 == *a) {
                        None => fail!("allocation never released after the last drop", {"decoder": sval(op, 2), "size": sz}),
                        Some(x) => if x.2 != 0 { fail!("released memory not wiped: non-zero bytes reach the allocator by deserialize", {"decoder": sval(op, 2), "size": x.1, "nonzero_bytes": x.2}); },
                    }
                }
                NALLOC.store(na, Ordering::SeqCst);
                NREL.store(nr, Ordering::SeqCst);
                match r { Ok(x) => Ok(x), Err(p) => Err(p) }
            }
            "composite" => {
                let f = sval(op, 2).to_string();
                match catch(move || composite(&f)) {
                    Ok(r) => Ok(r),
                    Err(p) => Err(p),
                }
            }
            "clone" => {
                let g = op[2].as_u64().unwrap() as usize;
                let r = {
                    let src = slots[h].reg.as_ref();
                    catch(|| match src { Some(s) => s.dup(), None => Err("HARNESS: no region".into()) })
                };
                match r {
                    Ok(Ok(n)) => {
                        let sh = slots[h].shadow.clone();
                        slots[g] = Slot { reg: Some(n), shadow: sh };
                        Ok(Ok(()))
                    }
                    Ok(Err(e)) => Ok(Err(e)),
                    Err(p) => Err(p),
                }
            }
            "resize" => {
                let n = op[2].as_u64().unwrap() as usize;
                let r = {
                    let reg = slots[h].reg.as_mut();
                    catch(|| match reg { Some(s) => s.resize(n), None => Err("HARNESS: no region".into()) })
                };
                match r {
                    Ok(Ok(())) => { slots[h].shadow.resize(n, 0); Ok(Ok(())) }
                    Ok(Err(e)) => Ok(Err(e)),
                    Err(p) => Err(p),
                }
            }
            "fill" => {
                let s = &mut slots[h];
                match s.reg.as_mut().and_then(|r| r.view_mut()) {
                    Some(v) => {
                        let n = v.len();
                        v.copy_from_slice(&pattern(n));
                        s.shadow = pattern(n);
                        Ok(Ok(()))
                    }
                    None => Ok(Err("HARNESS: no mutable view".into())),
                }
            }
            other => Ok(Err(format!("HARNESS: unknown op {}", other))),
        };
        let got_res = match &outcome {
            Ok(Ok(())) => "Ok",
            Ok(Err(e)) if e.starts_with("HARNESS") => {
                fail!(format!("HARNESS: {}", e), {});
                return fails;
            }
            Ok(Err(_)) => "Err",
            Err(_) => "Panic",
        };
        if got_res != exp_res {
            let detail = match &outcome { Ok(Err(e)) => e.clone(), Err(p) => p.clone(), _ => String::new() };
            if got_res == "Panic" {
                // a panic the specification does not allow here (for Result-returning operations: never)
                fail!(format!("{} {}: result {} but the model says {}", name, if name == "ctor" { sval(op, 2) } else { "" }, got_res, exp_res),
                      {"got": got_res, "model": exp_res, "detail": detail, "budget": budget});
                return fails;
            }
            // Ok where the model expects Err or the reverse (or no panic where the model expects one): the code decides
            // differently from the specification's kernel/allocator model - not by itself a broken property.  The behaviour
            // ends here (the real state no longer follows the model) and is judged by the model-independent oracles on what
            // exists now and by the end-of-behaviour checks (wipe, unlock, no residue).
            drift = Some(json!({"step": si, "op": op, "what": format!("{} {}: result {} but the model says {}", name, if name == "ctor" { sval(op, 2) } else { "" }, got_res, exp_res), "detail": detail, "budget": budget}));
            result_drift = true;
        }
        // ---- observe
        let obs = &st["obs"];
        let al = allocs();
        let mal = obs["allocs"].as_array().cloned().unwrap_or_default();
        let maps = smaps();
        if drift.is_none() && al.len() != mal.len() {
            drift = Some(json!({"step": si, "op": op, "what": "number of allocations differs from the model", "got": al.len(), "model": mal.len()}));
        }
        if drift.is_none() {
            for (ai, ma) in mal.iter().enumerate() {
                let cap = ma["cap"].as_u64().unwrap() as usize;
                if al[ai].1 != cap {
                    drift = Some(json!({"step": si, "op": op, "what": "allocation size differs from the modelled capacity", "alloc": ai + 1, "got": al[ai].1, "model": cap}));
                    break;
                }
            }
        }
        let rl = rels();
        let mrl = obs["rel"].as_array().cloned().unwrap_or_default();
        if drift.is_none() {
            if rl.len() != mrl.len() {
                drift = Some(json!({"step": si, "op": op, "what": "number of releases differs from the model", "got": rl.len(), "model": mrl.len()}));
            } else {
                for (ri, mr) in mrl.iter().enumerate() {
                    let ma = mr[0].as_u64().unwrap() as usize;
                    let msz = mr[1].as_u64().unwrap() as usize;
                    if al.get(ma - 1).map(|x| x.0) != Some(rl[ri].0) || rl[ri].1 != msz {
                        drift = Some(json!({"step": si, "op": op, "what": "release event differs from the model", "index": ri, "got_size": rl[ri].1, "model_size": msz}));
                        break;
                    }
                }
            }
        }
        // C15, model-independent: whatever is released must be all zero
        for ri in nrel_seen..rl.len() {
            let (_, size, nz) = rl[ri];
            if nz != 0 {
                fail!(format!("released memory not wiped: non-zero bytes reach the allocator by {}", name), {"size": size, "nonzero_bytes": nz});
            }
        }
        nrel_seen = rl.len();
        // the model's page table of every allocation, live or released
        if drift.is_none() {
            for (ai, ma) in mal.iter().enumerate() {
                let (addr, _size) = al[ai];
                let cap = ma["cap"].as_u64().unwrap() as usize;
                let live = ma["live"].as_bool().unwrap();
                // a released block whose address range was handed out again is no longer observable
                let pages = ma["pages"].as_array().unwrap();
                let lo = addr - pg;
                let hi = lo + pages.len() * pg;
                let superseded = !live && al.iter().enumerate().any(|(j, (a2, s2))| {
                    j > ai && { let l2 = a2 - pg; let h2 = l2 + (s2 + (pg - s2 % pg)) + 2 * pg; l2 < hi && lo < h2 }
                });
                if superseded { continue; }
                for (pi, pc) in pages.iter().enumerate() {
                    let want = pc.as_u64().unwrap();
                    let got = page_code(&maps, lo + pi * pg);
                    if got == 99 && !live { continue; } // returned to the OS
                    if got != want {
                        // The model's page table is implementation-shaped (how many pages a block spans, where the page after
                        // the data sits).  A difference is not by itself a broken property: from here on the model is no longer
                        // consulted for this behaviour, and the model-independent oracles below decide - every page that holds
                        // bytes of a live region against its type state, the guard page before the data, a guard page within
                        // one page after the allocation, fault probes on the data, wiping at release, residue at the end.
                        let which = if pi == 0 { "guard page before".to_string() } else if pi == pages.len() - 1 { "guard page after".to_string() } else { format!("data page {}", pi) };
                        let lenclass = len_class(obs, ai + 1, pg);
                        drift = Some(json!({"step": si, "op": op, "what": format!("page table differs from the model: {} {} (region {})", which, if live { "of a live region" } else { "of a released block" }, lenclass),
                                            "alloc": ai + 1, "page": pi, "got": got, "model": want, "cap": cap, "codes": "0 rw,1 r,2 none,+4 locked,99 unmapped"}));
                        break;
                    }
                }
                if drift.is_some() { break; }
            }
        }
        // C14, model-independent: every page holding the bytes of a live region agrees with its type
        for hh in 1..=2usize {
            match &slots[hh].reg {
                None => known[hh] = (0, 0),
                Some(r) => if let Some(v) = r.view() { known[hh] = (v.as_ptr() as usize, v.len()); },
            }
        }
        for hh in 1..=2usize {
            if wipe_only { break; }
            if let Some(r) = &slots[hh].reg {
                let (w, pm, lm) = r.state();
                if pm == "NA" && w != "Plain" {
                    // no view: the bytes are where they were last seen (transitions do not move them), if that block is still live
                    let (ptr, len) = known[hh];
                    let still_live = ptr != 0 && len > 0 && al.iter().filter(|(a, _)| *a == ptr).count() > rl.iter().filter(|x| x.0 == ptr).count();
                    if still_live {
                        let want = 2 + (if lm == "Locked" { 4 } else { 0 });
                        for k in 0..((len + pg - 1) / pg) {
                            let got = page_code(&maps, ptr + k * pg);
                            if got != want {
                                fail!(format!("type state vs kernel: data page {} of a no-access region is not what the type says after {}", k + 1, name),
                                      {"handle": hh, "type": [w, pm, lm], "got": got, "want": want, "len": len});
                            }
                        }
                        if probe && probed.insert((9000 + (len % pg) as u64, len, false)) {
                            for (a, what) in [(ptr, "first data byte"), (ptr + len - 1, "last data byte")] {
                                for write in [false, true] {
                                    if !probe_fault(a, write) {
                                        fail!(format!("{} of {}: does not fault although the type state says it must fault", if write { "write" } else { "read" }, what), {"len": len, "type": [w, pm, lm]});
                                    }
                                }
                            }
                        }
                    }
                    continue;
                }
                if let Some(v) = r.view() {
                    if v.is_empty() { continue; }
                    let ptr = v.as_ptr() as usize;
                    let want = if w == "Plain" { 0 } else { (if pm == "RW" { 0 } else { 1 }) + (if lm == "Locked" { 4 } else { 0 }) };
                    let lenclass = if v.len() % pg == 1 { "len≡1 mod page" } else if v.len() % pg == 0 { "len≡0 mod page" } else { "len other" };
                    for k in 0..((v.len() + pg - 1) / pg) {
                        let got = page_code(&maps, ptr + k * pg);
                        if got != want {
                            fail!(format!("type state vs kernel: data page {} (region {}) is not what the type says after {}", k + 1, lenclass, name),
                                  {"handle": hh, "type": [w, pm, lm], "got": got, "want": want, "len": v.len()});
                        }
                    }
                    if page_code(&maps, ptr - 1) & 3 != 2 {
                        fail!(format!("type state vs kernel: no inaccessible guard page before the data after {}", name), {"handle": hh});
                    }
                    if let Some((_, size)) = al.iter().rev().find(|(a, _)| *a == ptr) {
                        // some page starting no more than one page beyond the end of the allocation is inaccessible
                        let end = ptr + size;
                        let first_after = (end + pg - 1) / pg * pg;
                        let ok = page_code(&maps, first_after) & 3 == 2 || (end % pg == 0 && page_code(&maps, first_after + pg) & 3 == 2);
                        if !ok {
                            fail!(format!("type state vs kernel: no inaccessible guard page within one page after the allocation after {}", name), {"handle": hh, "size": size});
                        }
                    }
                }
            }
        }
        // regions: type state, length, contents
        for hh in 1..=2usize {
            if drift.is_some() {
                if let Some(r) = &slots[hh].reg {
                    if let Some(v) = r.view() {
                        if v != &slots[hh].shadow[..] { fail!(format!("contents changed by {}", name), {"len": v.len()}); }
                    }
                }
                continue;
            }
            let mr = &obs["regs"][hh - 1];
            let alive = mr["kind"].as_str() != Some("dead");
            match (&slots[hh].reg, alive) {
                (None, false) => {}
                (Some(r), true) => {
                    let (w, pm, lm) = r.state();
                    if mr["wrap"].as_str() != Some(w) || mr["pm"].as_str() != Some(pm) || mr["lm"].as_str() != Some(lm) {
                        fail!("HARNESS: type state differs from the model", {"got": [w, pm, lm], "model": mr});
                        return fails;
                    }
                    let mlen = mr["len"].as_u64().unwrap() as usize;
                    if let Some(v) = r.view() {
                        if v.len() != mlen {
                            fail!("region length differs from the model", {"got": v.len(), "model": mlen});
                        } else if v != &slots[hh].shadow[..] {
                            let first = v.iter().zip(slots[hh].shadow.iter()).position(|(a, b)| a != b);
                            fail!(format!("contents changed by {}", name), {"first_difference_at": first, "len": mlen});
                        }
                        // cross-check the model's content prediction where the content is the pattern
                        let plen = mr["plen"].as_u64().unwrap() as usize;
                        let gen = slots[hh].shadow.len() == mlen && mlen > 0 && slots[hh].shadow != pattern(mlen) && plen == mlen;
                        if !gen {
                            let mut want = pattern(plen.min(mlen));
                            want.resize(mlen, 0);
                            if want != slots[hh].shadow { fail!("MODEL: content prediction differs from the shadow", {"plen": plen, "len": mlen}); }
                        }
                    }
                }
                _ => { fail!("HARNESS: handle liveness differs from the model", {"handle": hh}); return fails; }
            }
        }
        // ---- fault probes without the model (drift mode): what the TYPE says must be what an access to the data experiences
        if probe && drift.is_some() && !wipe_only {
            for hh in 1..=2usize {
                if let Some(r) = &slots[hh].reg {
                    let (w, pm, _lm) = r.state();
                    if let Some(v) = r.view() {
                        if v.is_empty() { continue; }
                        let ptr = v.as_ptr() as usize;
                        let code: u64 = if w == "Plain" || pm == "RW" { 0 } else { 1 };
                        for (a, c, what) in [(ptr - 1, 2u64, "last byte of the guard page before"), (ptr, code, "first data byte"), (ptr + v.len() - 1, code, "last data byte")] {
                            for write in [false, true] {
                                if !probed.insert((7000 + c * 100 + (a % pg == 0) as u64 + 2 * ((a + 1) % pg == 0) as u64, v.len() % pg, write)) { continue; }
                                let want_fault = match c { 0 => false, 1 => write, _ => true };
                                let got = probe_fault(a, write);
                                if got != want_fault {
                                    fail!(format!("{} of {}: {} although the type state says it must{}", if write { "write" } else { "read" }, what,
                                                  if got { "faults" } else { "does not fault" }, if want_fault { " fault" } else { " not" }),
                                          {"len": v.len(), "type": [w, pm]});
                                }
                            }
                        }
                    }
                }
            }
        }
        // ---- fault probes: what the page table says must be what an access experiences
        if probe && drift.is_none() {
            for (ai, ma) in mal.iter().enumerate() {
                if !ma["live"].as_bool().unwrap() { continue; }
                let (addr, _size) = al[ai];
                let pages = ma["pages"].as_array().unwrap();
                // owner length
                let mut len = 0usize;
                for hh in 0..2 { if obs["regs"][hh]["a"].as_u64() == Some(ai as u64 + 1) { len = obs["regs"][hh]["len"].as_u64().unwrap() as usize; } }
                let mut targets: Vec<(usize, u64, &str)> = vec![(addr - 1, 2, "last byte of the guard page before"), (addr - pg + (pages.len() - 1) * pg, 2, "first byte of the guard page after")];
                if len > 0 {
                    let code = pages[1].as_u64().unwrap() & 3;
                    targets.push((addr, code, "first data byte"));
                    targets.push((addr + len - 1, pages[1 + (len - 1) / pg].as_u64().unwrap() & 3, "last data byte"));
                }
                for (a, code, what) in targets {
                    for write in [false, true] {
                        if !probed.insert((code * 1000 + (pages.len() as u64) * 10 + ((a - (addr - pg)) / pg) as u64, len, write)) { continue; }
                        let want_fault = match code { 0 => false, 1 => write, _ => true };
                        let got = probe_fault(a, write);
                        if got != want_fault {
                            fail!(format!("{} of {}: {} although the type state says it must{}", if write { "write" } else { "read" }, what,
                                          if got { "faults" } else { "does not fault" }, if want_fault { " fault" } else { " not" }),
                                  {"len": len, "model_code": code});
                        }
                    }
                }
            }
        }
    }
    // ---- end of behaviour: drop whatever is left, then nothing may remain locked or protected
    for s in slots.iter_mut() {
        let r = s.reg.take();
        if unwinding { let _ = catch(move || { let _alive = r; if true { std::panic::resume_unwind(Box::new("PROT_MODE=unwind")); } }); }
        else { let _ = catch(move || drop(r)); }
    }
    let maps = smaps();
    let al = allocs();
    for (ai, (addr, size)) in al.iter().enumerate() {
        if wipe_only { break; }
        let np = (size + (pg - size % pg)) / pg + 2;
        let lo = addr - pg;
        // later allocations may have reused the block; whatever is mapped there now must be clean
        for pi in 0..np {
            let got = page_code(&maps, lo + pi * pg);
            if got != 0 && got != 99 {
                fails.push(json!({"key": "residue after the last drop: page still locked or with altered rights", "step": steps.len(), "op": ["final"],
                                  "info": {"alloc": ai + 1, "page": pi, "got": got, "size": size}}));
            }
        }
    }
    let rl = rels();
    if rl.len() != al.len() {
        fails.push(json!({"key": "allocation never released after the last drop", "step": steps.len(), "op": ["final"], "info": {"allocs": al.len(), "releases": rl.len()}}));
    }
    for i in nrel_seen..rl.len() {
        let (_, size, nz) = rl[i];
        if nz != 0 {
            fails.push(json!({"key": "released memory not wiped: non-zero bytes reach the allocator by final drop", "step": steps.len(), "op": ["final"], "info": {"size": size, "nonzero_bytes": nz}}));
        }
    }
    let lck1 = vmlck_kb();
    if lck1 != lck0 && !wipe_only {
        fails.push(json!({"key": "residue after the last drop: VmLck not back to baseline", "step": steps.len(), "op": ["final"], "info": {"before_kb": lck0, "after_kb": lck1}}));
    }
    if wipe_only { drift = None; }
    if let Some(d) = drift {
        fails.push(json!({"key": "DRIFT: the code's allocation behaviour no longer follows Protected.tla", "step": d["step"], "op": d["op"], "info": d}));
    }
    fails
}

/// class of the owner's length relative to the page size, for canonical failure keys
fn len_class(obs: &Value, alloc: usize, pg: usize) -> String {
    for hh in 0..2 {
        if obs["regs"][hh]["a"].as_u64() == Some(alloc as u64) {
            let len = obs["regs"][hh]["len"].as_u64().unwrap() as usize;
            return if len == 0 { "len=0".into() } else if len % pg == 1 { "len≡1 mod page".into() } else if len % pg == 0 { "len≡0 mod page".into() } else { "len other".into() };
        }
    }
    "released".into()
}

/// `prot-replay <cases.ndjson> <out.json> <first> <stride> <probe 0|1>`: runs cases first, first+stride, ...
/// each in a forked child.
pub fn cmd_replay(args: &[String]) {
    let first: usize = args[2].parse().unwrap();
    let stride: usize = args[3].parse().unwrap();
    let probe = args[4] == "1";
    let f = std::io::BufReader::new(std::fs::File::open(&args[0]).expect("cases"));
    let mut rep = Report::new();
    rep.max_fail = 400;
    if page() != 4096 {
        rep.count("page_size_not_4096");
    }
    let progress = unsafe {
        libc::mmap(std::ptr::null_mut(), 4096, libc::PROT_READ | libc::PROT_WRITE, libc::MAP_SHARED | libc::MAP_ANONYMOUS, -1, 0) as *mut u32
    };
    let tmp = format!("{}.child.{}", args[1], first);
    // the behaviours run in forked children: this process uses the allocator once before it forks, so that whatever the
    // library initialises lazily (statics, process ids, pools) is inherited by the children rather than created in them
    { use dryoc::types::ResizableBytes; let mut warm = dryoc::protected::HeapBytes::default(); warm.resize(64, 1); drop(warm); }
    // a scripted sequence the model does not generate: an explicit zeroize() on a live heap container, the container reused for
    // another secret, then a growth that gives the old block back - judged by the release observer like every other release
    if first == 0 {
        let pid = unsafe { libc::fork() };
        if pid == 0 {
            use dryoc::types::{MutBytes, ResizableBytes, Bytes};
            use zeroize::Zeroize;
            install_observers();
            let mut bad: Vec<Value> = vec![];
            for (len, grow) in [(100usize, 20000usize), (4097, 40000), (24, 9000)] {
                let n0 = rels().len();
                let mut h = dryoc::protected::HeapBytes::default();
                h.resize(len, 0);
                for b in h.as_mut_slice().iter_mut() { *b = 0xA5; }
                h.zeroize();
                if h.as_slice().len() < len { h.resize(len, 0); }
                for b in h.as_mut_slice().iter_mut() { *b = 0x5A; }
                h.resize(grow, 0);
                drop(h);
                for (_, size, nz) in rels().iter().skip(n0) { if *nz != 0 { bad.push(json!({"key": "released memory not wiped: non-zero bytes reach the allocator by resize", "step": 0, "op": ["zeroize, reuse, grow"], "info": {"size": size, "nonzero_bytes": nz, "len": len}})); } }
            }
            if !bad.is_empty() { let mut o = std::fs::File::create(&tmp).unwrap(); writeln!(o, "{}", serde_json::to_string(&bad).unwrap()).unwrap(); }
            unsafe { libc::_exit(0) };
        }
        let mut st = 0;
        unsafe { libc::waitpid(pid, &mut st, 0) };
        rep.evaluations += 3;
        if let Ok(txt) = std::fs::read_to_string(&tmp) {
            if let Ok(v) = serde_json::from_str::<Vec<Value>>(txt.trim()) { for f in v { rep.fail(f["key"].as_str().unwrap_or("?"), json!({"case": [{"op": ["scripted: zeroize, reuse, grow", 99]}], "divergence": f})); } }
            std::fs::remove_file(&tmp).ok();
        }
    }
    for (idx, line) in f.lines().enumerate() {
        if idx % stride != first { continue; }
        let line = line.unwrap();
        if line.trim().is_empty() { continue; }
        let case: Value = serde_json::from_str(&line).expect("case json");
        rep.evaluations += (case.as_array().map(|a| a.len()).unwrap_or(1) - 1) as u64;
        rep.count("behaviours");
        rep.case(&line);
        if idx % 5000 == first { rep.sample(json!(case.as_array().map(|a| a.iter().map(|s| s["op"].clone()).collect::<Vec<_>>()))); }
        unsafe { *progress = 0 };
        let pid = unsafe { libc::fork() };
        if pid == 0 {
            let fails = run_case(&case, probe, progress);
            if !fails.is_empty() {
                let mut o = std::fs::File::create(&tmp).unwrap();
                writeln!(o, "{}", serde_json::to_string(&fails).unwrap()).unwrap();
            }
            unsafe { libc::_exit(0) };
        }
        let mut st = 0;
        unsafe { libc::waitpid(pid, &mut st, 0) };
        let ops: Vec<Value> = case.as_array().map(|a| a.iter().map(|s| s["op"].clone()).collect()).unwrap_or_default();
        if libc::WIFSIGNALED(st) {
            let step = unsafe { *progress } as usize;
            let sig = libc::WTERMSIG(st);
            let opname = ops.get(step).map(|o| o[0].as_str().unwrap_or("?").to_string()).unwrap_or_default();
            rep.fail(&format!("process killed by signal {} during or after {}", sig, opname),
                     json!({"case_index": idx, "step": step, "ops": ops, "case": case}));
        } else if let Ok(txt) = std::fs::read_to_string(&tmp) {
            let fails: Vec<Value> = serde_json::from_str(txt.trim()).unwrap_or_default();
            for fl in fails {
                let key = fl["key"].as_str().unwrap_or("?").to_string();
                rep.fail(&key, json!({"case_index": idx, "divergence": fl, "ops": ops, "case": case}));
            }
            std::fs::remove_file(&tmp).ok();
        }
    }
    rep.write(&args[1]);
}

// ------------------------------------------------------------------------------- impl -> spec trace driver
/// What the real system looks like now, in the vocabulary of Protected.tla.
fn observe(slots: &[Slot]) -> Value {
    let pg = page();
    let maps = smaps();
    let al = allocs();
    let rl = rels();
    let released: std::collections::HashSet<usize> = rl.iter().map(|r| r.0).collect();
    let mut regs = vec![];
    for hh in 1..=2usize {
        match &slots[hh].reg {
            None => regs.push(json!({"alive": false})),
            Some(r) => {
                let (w, pm, lm) = r.state();
                let len = r.view().map(|v| v.len() as i64).unwrap_or(-1);
                let ok = r.view().map(|v| v == &slots[hh].shadow[..]).unwrap_or(true);
                // which allocation holds the bytes (0 = none / not observable)
                let ai = r.view().filter(|v| !v.is_empty()).and_then(|v| al.iter().rposition(|(a, _)| *a == v.as_ptr() as usize)).map(|i| i + 1).unwrap_or(0);
                regs.push(json!({"alive": true, "wrap": w, "pm": pm, "lm": lm, "len": len, "contents_ok": ok, "a": ai}));
            }
        }
    }
    let mut av = vec![];
    for (ai, (addr, size)) in al.iter().enumerate() {
        // live = handed out and not released since (an address can be handed out again)
        let later_same = al.iter().skip(ai + 1).any(|(a2, _)| a2 == addr);
        let nrel = rl.iter().filter(|r| r.0 == *addr).count();
        let nalloc_before = al.iter().take(ai + 1).filter(|(a2, _)| a2 == addr).count();
        let live = nrel < nalloc_before && !later_same;
        let _ = &released;
        let np = (size + (pg - size % pg)) / pg + 2;
        let pages: Vec<u64> = if live { (0..np).map(|pi| page_code(&maps, addr - pg + pi * pg)).collect() } else { vec![] };
        av.push(json!({"cap": size, "live": live, "pages": pages}));
    }
    let rel: Vec<Value> = rl.iter().map(|(_, size, nz)| json!({"size": size, "nz": nz})).collect();
    json!({"regs": regs, "allocs": av, "rel": rel})
}

/// `prot-trace <out.ndjson> <seed> <runs> <ops>`: random operation sequences chosen by the driver (not by the
/// specification), one forked child per run, one event per call with the observed kernel/allocator state.
pub fn cmd_trace(args: &[String]) {
    let seed: u64 = args[1].parse().unwrap();
    let runs: u64 = args[2].parse().unwrap();
    let nops: u64 = args[3].parse().unwrap();
    let lens: [usize; 10] = [0, 1, 16, 32, 64, 4095, 4096, 4097, 8192, 8193];
    let forms_fixed = ["new_locked", "new_readonly_locked", "gen_locked", "gen_readonly_locked", "from_slice_into_locked", "from_slice_into_readonly_locked", "stack_mlock", "stack_mprotect_readonly", "heap"];
    let forms_res = ["new_locked", "new_readonly_locked", "from_slice_into_locked", "from_slice_into_readonly_locked", "heap"];
    std::fs::write(&args[0], "").unwrap();
    for run in 0..runs {
        let pid = unsafe { libc::fork() };
        if pid == 0 {
            let mut out = std::fs::OpenOptions::new().append(true).open(&args[0]).unwrap();
            let mut rng = Rng::new(seed.wrapping_mul(7919).wrapping_add(run));
            install_observers();
            shim_set(99);
            writeln!(out, "{}", json!({"ev": "reset", "run": run})).unwrap();
            let mut slots: Vec<Slot> = (0..3).map(|_| Slot { reg: None, shadow: vec![] }).collect();
            let mut plen: [usize; 3] = [0; 3];     // how many leading bytes hold test data (as Protected.tla's plen)
            let mut done = 0;
            let mut tries = 0;
            while done < nops && tries < nops * 20 {
                tries += 1;
                let h = 1 + rng.below(2) as usize;
                let g = 3 - h;
                let choice = rng.below(12);
                // (op tuple, result) if the operation is offered by the current types
                let mut ev: Option<(Value, Result<(), String>)> = None;
                if slots[h].reg.is_none() {
                    if choice < 6 && allocs().len() < 20 {
                        let resizable = rng.below(2) == 0;
                        let form = if resizable { forms_res[rng.below(forms_res.len() as u64) as usize] } else { forms_fixed[rng.below(forms_fixed.len() as u64) as usize] };
                        let mut len = lens[rng.below(10) as usize];
                        if resizable && (form == "new_locked" || form == "new_readonly_locked") { len = 0; }
                        let kind = if resizable { "Resizable" } else { "Fixed" };
                        let data = pattern(len);
                        let r = catch(|| AnyReg::construct(kind, len, form, &data));
                        let res = match r {
                            Ok(Ok(reg)) => {
                                let sh = match form { "new_locked" | "new_readonly_locked" => vec![0u8; len], "gen_locked" | "gen_readonly_locked" => reg.view().map(|s| s.to_vec()).unwrap_or_default(), _ => data.clone() };
                                slots[h] = Slot { reg: Some(reg), shadow: sh };
                                plen[h] = if form == "new_locked" || form == "new_readonly_locked" { 0 } else { len };
                                Ok(())
                            }
                            Ok(Err(e)) => Err(e),
                            Err(p) => Err(format!("PANIC {}", p)),
                        };
                        ev = Some((json!(["ctor", h, form, kind, len]), res));
                    }
                } else {
                    match choice {
                        0 | 1 => { let r = slots[h].reg.take().unwrap(); if r.state().0 == "Plain" || r.state().2 == "Unlocked" { let name = if r.state().0 == "Plain" { "heap_mlock" } else { "mlock" };
                                    let res = match catch(|| r.lock()) { Ok(Ok(n)) => { slots[h].reg = Some(n); Ok(()) } Ok(Err(e)) => Err(e), Err(p) => Err(format!("PANIC {}", p)) }; ev = Some((json!([name, h]), res)); } else { slots[h].reg = Some(r); } }
                        2 => { let r = slots[h].reg.take().unwrap(); if r.state().0 == "Prot" { let res = match catch(|| r.unlock()) { Ok(Ok(n)) => { slots[h].reg = Some(n); Ok(()) } Ok(Err(e)) => Err(e), Err(p) => Err(format!("PANIC {}", p)) }; ev = Some((json!(["munlock", h]), res)); } else { slots[h].reg = Some(r); } }
                        3 | 4 | 5 => { let pm = ["RO", "RW", "NA"][(choice - 3) as usize]; let r = slots[h].reg.take().unwrap(); let (w, _, lm) = r.state();
                                    if w == "Prot" && !(pm == "NA" && lm == "Locked") { let res = match catch(|| r.protect(pm)) { Ok(Ok(n)) => { slots[h].reg = Some(n); Ok(()) } Ok(Err(e)) => Err(e), Err(p) => Err(format!("PANIC {}", p)) }; ev = Some((json!(["mprotect", h, pm]), res)); } else { slots[h].reg = Some(r); } }
                        6 => { if slots[g].reg.is_none() && allocs().len() < 20 { let r = { let src = slots[h].reg.as_ref(); catch(|| src.unwrap().dup()) };
                                    match r { Ok(Ok(n)) => { let sh = slots[h].shadow.clone(); slots[g] = Slot { reg: Some(n), shadow: sh }; plen[g] = plen[h]; ev = Some((json!(["clone", h, g]), Ok(()))); } Ok(Err(e)) if e.starts_with("HARNESS") => {} Ok(Err(e)) => ev = Some((json!(["clone", h, g]), Err(e))), Err(p) => ev = Some((json!(["clone", h, g]), Err(format!("PANIC {}", p)))) } } }
                        7 | 8 => { let n = lens[rng.below(10) as usize]; let cur = slots[h].shadow.len(); if n != cur && allocs().len() < 20 { let r = { let reg = slots[h].reg.as_mut(); catch(|| reg.unwrap().resize(n)) };
                                    match r { Ok(Ok(())) => { slots[h].shadow.resize(n, 0); plen[h] = plen[h].min(n); ev = Some((json!(["resize", h, n]), Ok(()))); } Ok(Err(e)) if e.starts_with("HARNESS") => {} Ok(Err(e)) => ev = Some((json!(["resize", h, n]), Err(e))), Err(p) => ev = Some((json!(["resize", h, n]), Err(format!("PANIC {}", p)))) } } }
                        9 => { let s = &mut slots[h]; let need = plen[h] != s.shadow.len(); if need { if let Some(v) = s.reg.as_mut().and_then(|r| r.view_mut()) { let n = v.len(); v.copy_from_slice(&pattern(n)); s.shadow = pattern(n); plen[h] = n; ev = Some((json!(["fill", h]), Ok(()))); } } }
                        _ => { let r = slots[h].reg.take(); let res = match catch(move || drop(r)) { Ok(()) => Ok(()), Err(p) => Err(format!("PANIC {}", p)) }; slots[h].shadow.clear(); ev = Some((json!(["drop", h]), res)); }
                    }
                }
                if let Some((op, res)) = ev {
                    done += 1;
                    let rs = match &res { Ok(()) => "Ok", Err(e) if e.starts_with("PANIC") => "Panic", Err(_) => "Err" };
                    writeln!(out, "{}", json!({"ev": "op", "op": op, "res": rs, "obs": observe(&slots)})).unwrap();
                    if rs != "Ok" && (op[0] == "mlock" || op[0] == "heap_mlock") { /* the region was consumed */ slots[h].shadow.clear(); }
                }
            }
            for s in slots.iter_mut() { let r = s.reg.take(); let _ = catch(move || drop(r)); }
            writeln!(out, "{}", json!({"ev": "end", "obs": observe(&slots), "vmlck_kb": vmlck_kb()})).unwrap();
            unsafe { libc::_exit(0) };
        }
        let mut st = 0;
        unsafe { libc::waitpid(pid, &mut st, 0) };
        if libc::WIFSIGNALED(st) {
            let mut out = std::fs::OpenOptions::new().append(true).open(&args[0]).unwrap();
            writeln!(out, "{}", json!({"ev": "crash", "signal": libc::WTERMSIG(st), "run": run})).unwrap();
        }
    }
}
